#!/usr/bin/env python3
"""writes MANIFEST.json from tools/props.py (so the manifest always lists exactly the claimed checks)"""
import json, os, sys
sys.path.insert(0, os.path.dirname(os.path.abspath(__file__)))
import props
ROOT = os.path.dirname(os.path.dirname(os.path.abspath(__file__)))
ALLIDS = ["C%02d" % i for i in range(1, 18)]
checks = []
for pid in ALLIDS:
    if pid not in props.ALL:
        continue
    P = props.ALL[pid]
    checks.append({
        "property_id": pid,
        "quick_cmd": "./check %s --tier quick" % pid,
        "thorough_cmd": "./check %s --tier thorough" % pid,
        "evidence_file": "evidence/%s.json" % pid,
        "replay_cmd_template": "./check %s --replay {path}" % pid,
        "engine": "coq-model+correspondence",
        "level_claimed": {"category": "proof", "text": P.level_text, "design_ref": "DESIGN.md §8 %s" % pid},
        "level_note": P.level_note,
        "technique": P.technique,
    })
na = [{"property_id": pid, "reason": props.NOT_CLAIMED.get(pid, "no check registered yet")} for pid in ALLIDS if pid not in props.ALL]
m = {
    "version": 1,
    "setup_cmd": "./check --setup",
    "hooks": {"guard": "netflow_parser_verif", "enable": "RUSTFLAGS=\"--cfg netflow_parser_verif\" (no hook commits exist; the flag is set by the checks and guards nothing)",
              "baseline_off_cmd": "cd /repo && cargo test --workspace --no-fail-fast --offline", "source_commits": [], "add_only": True},
    "engines": [{"name": "coq-model+correspondence", "path": "coq/ tools/ harness/ ocaml/ check",
                 "serves_properties": [c["property_id"] for c in checks],
                 "kind_free_text": "Coq 8.16 theorems over a Gallina model of the crate; tables/layouts regenerated from source on every run; extracted model compared with the compiled crate on generated histories"}],
    "checks": checks,
    "not_applicable": na,
    "notes": "See DESIGN.md. Fixes committed to /repo are listed in known_findings.json under 'fixed'.",
}
json.dump(m, open(os.path.join(ROOT, "MANIFEST.json"), "w"), indent=1)
print("checks:", [c["property_id"] for c in checks], "not claimed:", [n["property_id"] for n in na])
