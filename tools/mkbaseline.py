#!/usr/bin/env python3
"""Record the sources the committed evidence was produced from: sha256 of every file under
/repo/src plus Cargo.toml.  Run on the clean tree (after a `fix:` commit too); the result,
baseline_src.json, is committed.  ./check compares the working tree with it: a file that differs
is no verdict, it makes the check search deeper (DESIGN.md II.7)."""
import hashlib
import json
import os
import subprocess
import sys

ROOT = os.path.dirname(os.path.dirname(os.path.abspath(__file__)))
REPO = os.environ.get("VERIF_REPO", "/repo")


def tree():
    out = {}
    for base, _dirs, files in os.walk(os.path.join(REPO, "src")):
        for fn in sorted(files):
            if fn.endswith(".rs"):
                p = os.path.join(base, fn)
                with open(p, "rb") as f:
                    out[os.path.relpath(p, REPO)] = hashlib.sha256(f.read()).hexdigest()
    with open(os.path.join(REPO, "Cargo.toml"), "rb") as f:
        out["Cargo.toml"] = hashlib.sha256(f.read()).hexdigest()
    return out


def drift():
    """files whose content differs from the committed baseline (added and removed ones too)"""
    try:
        with open(os.path.join(ROOT, "baseline_src.json")) as f:
            base = json.load(f)["files"]
    except Exception:
        return ["baseline_src.json missing"]
    now = tree()
    return sorted(k for k in set(base) | set(now) if base.get(k) != now.get(k))


if __name__ == "__main__":
    st = subprocess.run(["git", "-C", REPO, "status", "--porcelain", "--", "src", "Cargo.toml"], stdout=subprocess.PIPE).stdout.decode()
    if st.strip() and "--force" not in sys.argv:
        print("/repo has uncommitted changes under src/: not recording a baseline\n" + st)
        sys.exit(1)
    head = subprocess.run(["git", "-C", REPO, "rev-parse", "--short", "HEAD"], stdout=subprocess.PIPE).stdout.decode().strip()
    with open(os.path.join(ROOT, "baseline_src.json"), "w") as f:
        json.dump({"repo_commit": head, "files": tree()}, f, indent=1)
    print("baseline of", head, "recorded")
