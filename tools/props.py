"""Per-property configuration: theorem file, comparison scope, generators, oracle, evidence text."""
import os

import canon
import gen
import oracle
from canon import get
from gen import Case, hexs, be

ROOT = os.path.dirname(os.path.dirname(os.path.abspath(__file__)))


def load_replay(path):
    """a replay .ops file -> list of Case (one per CASE line)"""
    cases = []
    cur = None
    with open(path) as f:
        for line in f:
            line = line.rstrip("\n")
            if not line.strip() or line.startswith("#"):
                continue
            if line.startswith("CASE "):
                cur = Case(" ".join(line.split()[2:]) or "replay", [])
                cases.append(cur)
            else:
                if cur is None:
                    cur = Case("replay", [])
                    cases.append(cur)
                cur.ops.append(line)
    return cases


def corpus_cases(pid):
    d = os.path.join(ROOT, "corpus")
    out = []
    for sub in ("common", pid):
        dd = os.path.join(d, sub)
        if os.path.isdir(dd):
            for fn in sorted(os.listdir(dd)):
                if fn.endswith(".ops"):
                    for c in load_replay(os.path.join(dd, fn)):
                        c.gen = "corpus:" + fn
                        out.append(c)
    return out


def count_dist(stats, key, n=1):
    stats["dist"][key] = stats["dist"].get(key, 0) + n


class Prop:
    pid = None
    keys = ["R"]
    puf = True
    trusted = []
    partial = ""
    assumptions = []
    rule = ""
    technique = "Coq proof over a Gallina model + regenerated tables + model/crate correspondence"
    level_text = ""
    level_note = ""

    @property
    def vo(self):
        return "Props/%s.vo" % self.pid

    def budget(self, tier):
        return 600 if tier == "quick" else 20000

    def timeout(self, tier):
        return 300 if tier == "quick" else 1800

    def corpus(self, tables):
        return corpus_cases(self.pid)

    def cases(self, rng, tables, n, tier):
        raise NotImplementedError

    def oracle(self, case, obs, crash, tables):
        return []

    # distinct non-trivial cases: by content hash, "decodes at least one packet" unless overridden
    def nontrivial(self, case, obs):
        for o in obs:
            R = get(o, "R")
            if isinstance(R, list) and not isinstance(R, canon.Pairs):
                for e in R:
                    if oracle.elem_kind(e) != "Error":
                        return True
        return False

    def measure(self, case, obs, stats):
        count_dist(stats, "gen:" + case.gen.split(":")[0])
        for o in obs:
            R = get(o, "R")
            if isinstance(R, list) and not isinstance(R, canon.Pairs):
                count_dist(stats, "results_per_call:%s" % (len(R) if len(R) < 5 else "5+"))
                for e in R:
                    k = oracle.elem_kind(e)
                    count_dist(stats, "elem:" + k)
                    if k == "Error":
                        count_dist(stats, "error:" + oracle.elem_body(e)[0][1][0][0])
        if self.nontrivial(case, obs):
            import hashlib
            stats["nontrivial"].add(hashlib.sha256("\n".join(case.ops).encode()).hexdigest())


def proto_variants(tables):
    return {n: v[2] for n, v in tables.proto.items() if v[2] != "-"} if tables else {}


# ---------------------------------------------------------------- C03

def fixed_case(rng, tables, chained=True, cuts=True):
    """V5/V7 packets: counts 0..30 (sometimes large), boundary values, all protocol numbers,
    chained, sometimes cut short, sometimes with a lying count"""
    ops = ["P 0"]
    if rng.random() < 0.15:
        allowed = rng.choice([[5], [7], [5, 7], [5, 7, 9, 10, 11]])
        ops.append("A 0 " + ",".join(map(str, allowed)))
    ncalls = rng.choice([1, 1, 2])
    for _ in range(ncalls):
        buf = b""
        for _ in range(rng.choice([1, 1, 2, 3]) if chained else 1):
            ver = rng.choice([5, 7])
            nrec = rng.choice([0, 1, 1, 2, 3, 5, 30, 100]) if rng.random() < 0.97 else rng.choice([1000, 1365])
            k = rng.random()
            count = None
            if k < 0.08:
                count = rng.choice([nrec + 1, max(0, nrec - 1), 65535, 0])
            b, _d = gen.fixed_packet(rng, ver, nrec, count)
            buf += b
        k = rng.random()
        if cuts and k < 0.2 and buf:
            buf = buf[: rng.randrange(0, len(buf))]
        elif k < 0.3:
            buf += rng.randbytes(rng.choice([1, 2, 3, 5]))
        ops.append("B 0 " + hexs(buf))
    return Case("fixed", ops)


def proto_sweep_case():
    """all 256 protocol numbers, in six V5 packets and six V7 packets"""
    ops = ["P 0"]
    for ver in (5, 7):
        rw = gen.V5_REC if ver == 5 else gen.V7_REC
        hw = gen.V5_HDR if ver == 5 else gen.V7_HDR
        for lo in range(0, 256, 43):
            ns = list(range(lo, min(256, lo + 43)))
            b = be(ver, 2) + be(len(ns), 2) + bytes(sum(hw) - 2)
            for n in ns:
                r = [0] * len(rw)
                r[13] = n
                b += b"".join(be(v, w) for v, w in zip(r, rw))
            ops.append("B 0 " + hexs(b))
    return Case("proto-sweep", ops)


class C03(Prop):
    pid = "C03"
    keys = ["R"]
    technique = "Coq: generic layout-interpreter lemma + generated layouts = Cisco tables (vm_compute) + 256-entry protocol sweep; correspondence on R"
    level_text = ("Theorems C03_* (coq/Props/C03.v): for every buffer starting with a complete V5/V7 packet, in every state and allowed set, "
                  "the model reports the packet with every header and record field equal to the big-endian number at its Cisco offset, ends it at "
                  "24+48n / 24+52n, and reports a shorter buffer as an error; protocol names decided on all 256 numbers. Unbounded in count and content. "
                  "The layouts and tables in the theorems are regenerated from the Rust source on every run and the model is compared with the crate.")
    level_note = "trusts the Cisco tables in Spec/Cisco.v, the translator, and the hand-written model of derive(Nom) sequencing (tied by correspondence)"
    rule = ("random V5/V7 packets (counts 0..1365, boundary field values, every protocol number, chained, cut at random points, "
            "lying counts) plus one sweep of all 256 protocol numbers; a case is non-trivial when at least one V5/V7 packet with "
            "at least one record is decoded; distinct by hash of the ops")
    assumptions = ["the Cisco V5/V7 tables in coq/Spec/Cisco.v are transcribed correctly",
                   "protocol names: the crate's enum is taken as the IANA list (anchor assignments are checked); numbers 0, 1, 144 are known finding K_C03_proto"]

    def cases(self, rng, tables, n, tier):
        return [proto_sweep_case()] + [fixed_case(rng, tables) for _ in range(n)]

    def oracle(self, case, obs, crash, tables):
        return oracle.c01(case, obs, crash) + oracle.c03(case, obs, crash, proto_variants(tables))

    def nontrivial(self, case, obs):
        for o in obs:
            R = get(o, "R")
            if isinstance(R, list) and not isinstance(R, canon.Pairs):
                for e in R:
                    if oracle.elem_kind(e) in ("V5", "V7") and len(get(oracle.elem_body(e), "flowsets")) > 0:
                        return True
        return False


# ---------------------------------------------------------------- C08

def e_case(rng):
    ver = rng.choice([5, 7])
    hw, rw = (gen.V5_HDR, gen.V5_REC) if ver == 5 else (gen.V7_HDR, gen.V7_REC)
    nrec = rng.choice([0, 1, 1, 2, 3, 7, 30])
    h = gen.rand_fields(rng, hw)
    h[0] = nrec
    recs = []
    for _ in range(nrec):
        r = gen.rand_fields(rng, rw)
        if rng.random() < 0.7:
            r[13] = rng.randrange(256)
        recs.append(r)
    op = "E%d %s %s" % (ver, ",".join(map(str, h)), ";".join(",".join(map(str, r)) for r in recs) if recs else "-")
    return Case("export-parse", [op])


class C08(Prop):
    pid = "C08"
    keys = ["R", "X", "orig", "back", "bytes"]
    technique = "Coq: parse-then-print and print-then-parse for the generic layout interpreter; serializer order regenerated from to_be_bytes; correspondence on X and E5/E7"
    level_text = ("Theorems C08_* (coq/Props/C08.v): for all accepted inputs x = to_be_bytes(p) ++ rest, and for all well-formed structures "
                  "parse(to_be_bytes(p) ++ rest) = p, for V5 and V7, any count. The emission order of the hand-written serializers is regenerated "
                  "from the source and must equal the layout order (decided by computation).")
    level_note = "export_parse direction assumes version and protocol_type hold the values the parser derives; trusts translator's reading of to_be_bytes (validated by correspondence on X)"
    rule = ("random V5/V7 packets as for C03 (re-export compared with the consumed bytes) and random V5/V7 structures built from "
            "their public fields, exported and parsed back (ops E5/E7); non-trivial when a packet or structure with at least one record "
            "round-trips; distinct by hash of the ops")
    assumptions = ["export_parse direction: structures whose version and protocol_type are the values the parser derives (wf_v5 / wf_v7)"]

    def cases(self, rng, tables, n, tier):
        return [fixed_case(rng, tables) if i % 2 == 0 else e_case(rng) for i in range(n)]

    def oracle(self, case, obs, crash, tables):
        return oracle.c01(case, obs, crash) + oracle.c08(case, obs, crash)

    def nontrivial(self, case, obs):
        for o in obs:
            if get(o, "E") is not None:
                back = get(o, "back")
                if back and oracle.elem_kind(back[0]) != "Error" and len(get(oracle.elem_body(back[0]), "flowsets")) > 0:
                    return True
        return C03.nontrivial(self, case, obs)


ALL = {p.pid: p for p in [C03(), C08()]}

NOT_CLAIMED = {}
