"""Per-property configuration: theorem file, comparison scope, generators, oracle, evidence text."""
import os

import canon
import gen
import oracle
from canon import get
from gen import Case, hexs, be

ROOT = os.path.dirname(os.path.dirname(os.path.abspath(__file__)))


def load_replay(path):
    """a replay .ops file -> list of Case (one per CASE line)"""
    cases = []
    cur = None
    pending_meta = None
    with open(path) as f:
        for line in f:
            line = line.rstrip("\n")
            if line.startswith("# meta: "):
                # what the generator knows about the case (cut points, which id is unknown, ...):
                # the oracles of some properties need it to judge the same input again
                import ast
                try:
                    pending_meta = ast.literal_eval(line[len("# meta: "):])
                except Exception:
                    pending_meta = None
                continue
            if not line.strip() or line.startswith("#"):
                continue
            if line.startswith("CASE "):
                cur = Case(" ".join(line.split()[2:]) or "replay", [], pending_meta)
                pending_meta = None
                cases.append(cur)
            else:
                if cur is None:
                    cur = Case("replay", [])
                    cases.append(cur)
                cur.ops.append(line)
    return cases


def corpus_cases(pid):
    d = os.path.join(ROOT, "corpus")
    out = []
    # VERIF_NO_SEED_CORPUS=1 (experiments only, II.5): leave out the remembered failures of the seeded
    # changes, so that a regression run measures what the generators find by themselves
    subs = ("common",) if os.environ.get("VERIF_NO_SEED_CORPUS") else ("common", pid)
    for sub in subs:
        dd = os.path.join(d, sub)
        if os.path.isdir(dd):
            for fn in sorted(os.listdir(dd)):
                if fn.endswith(".ops"):
                    for c in load_replay(os.path.join(dd, fn)):
                        c.gen = "corpus:" + fn
                        out.append(c)
    return out


def count_dist(stats, key, n=1):
    stats["dist"][key] = stats["dist"].get(key, 0) + n


class Prop:
    pid = None
    keys = ["R"]
    puf = True
    trusted = []
    partial = ""
    assumptions = []
    rule = ""
    technique = "Coq proof over a Gallina model + regenerated tables + model/crate correspondence"
    level_text = ""
    level_note = ""
    # which regenerated files / tables this property's theorems and model runs depend on: a change
    # that breaks only another part of the tie must not make this property "no longer shown"
    gen_deps = ("Tables.v", "Layouts.v")
    table_deps = ("proto", "v9", "ipfix", "scope")

    @property
    def vo(self):
        return "Props/%s.vo" % self.pid

    def budget(self, tier):
        return 600 if tier == "quick" else 20000

    def timeout(self, tier):
        return 300 if tier == "quick" else 1800

    def corpus(self, tables):
        return corpus_cases(self.pid)

    def cases(self, rng, tables, n, tier):
        raise NotImplementedError

    def oracle(self, case, obs, crash, tables):
        return []

    # distinct non-trivial cases: by content hash, "decodes at least one packet" unless overridden
    def nontrivial(self, case, obs):
        for o in obs:
            R = get(o, "R")
            if isinstance(R, list) and not isinstance(R, canon.Pairs):
                for e in R:
                    if oracle.elem_kind(e) != "Error":
                        return True
        return False

    def measure(self, case, obs, stats):
        count_dist(stats, "gen:" + case.gen.split(":")[0])
        for o in obs:
            R = get(o, "R")
            if isinstance(R, list) and not isinstance(R, canon.Pairs):
                count_dist(stats, "results_per_call:%s" % (len(R) if len(R) < 5 else "5+"))
                for e in R:
                    k = oracle.elem_kind(e)
                    count_dist(stats, "elem:" + k)
                    if k == "Error":
                        count_dist(stats, "error:" + oracle.elem_body(e)[0][1][0][0])
        if self.nontrivial(case, obs):
            import hashlib
            stats["nontrivial"].add(hashlib.sha256("\n".join(case.ops).encode()).hexdigest())


def proto_variants(tables):
    """protocol number -> name a record must carry: the frozen IANA list (tools/iana.py)"""
    import iana
    d = {n: v[2] for n, v in tables.proto.items() if v[2] != "-"} if tables else {}
    d.update(iana.PROTO)
    return d


# ---------------------------------------------------------------- C03

def fixed_case(rng, tables, chained=True, cuts=True):
    """V5/V7 packets: counts 0..30 (sometimes large), boundary values, all protocol numbers,
    chained, sometimes cut short, sometimes with a lying count"""
    ops = ["P 0"]
    if rng.random() < 0.15:
        allowed = rng.choice([[5], [7], [5, 7], [5, 7, 9, 10, 11]])
        ops.append("A 0 " + ",".join(map(str, allowed)))
    ncalls = rng.choice([1, 1, 2])
    for _ in range(ncalls):
        buf = b""
        for _ in range(rng.choice([1, 1, 2, 3]) if chained else 1):
            ver = rng.choice([5, 7])
            nrec = rng.choice([0, 1, 1, 2, 3, 5, 30, 100]) if rng.random() < 0.97 else rng.choice([1000, 1365])
            k = rng.random()
            count = None
            if k < 0.08:
                count = rng.choice([nrec + 1, max(0, nrec - 1), 65535, 0])
            b, _d = gen.fixed_packet(rng, ver, nrec, count)
            buf += b
        k = rng.random()
        if cuts and k < 0.2 and buf:
            buf = buf[: rng.randrange(0, len(buf))]
        elif k < 0.3:
            buf += rng.randbytes(rng.choice([1, 2, 3, 5]))
        ops.append("B 0 " + hexs(buf))
    return Case("fixed", ops)


def proto_sweep_case():
    """all 256 protocol numbers, in six V5 packets and six V7 packets"""
    ops = ["P 0"]
    for ver in (5, 7):
        rw = gen.V5_REC if ver == 5 else gen.V7_REC
        hw = gen.V5_HDR if ver == 5 else gen.V7_HDR
        for lo in range(0, 256, 43):
            ns = list(range(lo, min(256, lo + 43)))
            b = be(ver, 2) + be(len(ns), 2) + bytes(sum(hw) - 2)
            for n in ns:
                r = [0] * len(rw)
                r[13] = n
                b += b"".join(be(v, w) for v, w in zip(r, rw))
            ops.append("B 0 " + hexs(b))
    return Case("proto-sweep", ops)


class C03(Prop):
    pid = "C03"
    keys = ["R"]
    table_deps = ("proto",)
    technique = "Coq: generic layout-interpreter lemma + generated layouts = Cisco tables (vm_compute) + 256-entry protocol sweep; correspondence on R"
    level_text = ("Theorems C03_* (coq/Props/C03.v): for every buffer starting with a complete V5/V7 packet, in every state and allowed set, "
                  "the model reports the packet with every header and record field equal to the big-endian number at its Cisco offset, ends it at "
                  "24+48n / 24+52n, and reports a shorter buffer as an error; protocol names decided on all 256 numbers. Unbounded in count and content. "
                  "The layouts and tables in the theorems are regenerated from the Rust source on every run and the model is compared with the crate.")
    level_note = "trusts the Cisco tables in Spec/Cisco.v, the translator, and the hand-written model of derive(Nom) sequencing (tied by correspondence)"
    rule = ("random V5/V7 packets (counts 0..1365, boundary field values, every protocol number, chained, cut at random points, "
            "lying counts) plus one sweep of all 256 protocol numbers; a case is non-trivial when at least one V5/V7 packet with "
            "at least one record is decoded; distinct by hash of the ops")
    assumptions = ["the Cisco V5/V7 tables in coq/Spec/Cisco.v are transcribed correctly",
                   "protocol names: the crate's enum is taken as the IANA list (anchor assignments are checked); numbers 0, 1, 144 are known finding K_C03_proto"]

    def cases(self, rng, tables, n, tier):
        return [proto_sweep_case()] + [fixed_case(rng, tables) for _ in range(n)]

    def oracle(self, case, obs, crash, tables):
        return oracle.c03(case, obs, crash, proto_variants(tables))

    def nontrivial(self, case, obs):
        for o in obs:
            R = get(o, "R")
            if isinstance(R, list) and not isinstance(R, canon.Pairs):
                for e in R:
                    if oracle.elem_kind(e) in ("V5", "V7") and len(get(oracle.elem_body(e), "flowsets")) > 0:
                        return True
        return False


# ---------------------------------------------------------------- C08

def e_case(rng):
    ver = rng.choice([5, 7])
    hw, rw = (gen.V5_HDR, gen.V5_REC) if ver == 5 else (gen.V7_HDR, gen.V7_REC)
    nrec = rng.choice([0, 1, 1, 2, 3, 7, 30])
    h = gen.rand_fields(rng, hw)
    h[0] = nrec
    recs = []
    for _ in range(nrec):
        r = gen.rand_fields(rng, rw)
        if rng.random() < 0.7:
            r[13] = rng.randrange(256)
        recs.append(r)
    op = "E%d %s %s" % (ver, ",".join(map(str, h)), ";".join(",".join(map(str, r)) for r in recs) if recs else "-")
    return Case("export-parse", [op])


class C08(Prop):
    pid = "C08"
    keys = ["R", "X", "orig", "back", "bytes"]
    table_deps = ("proto",)
    technique = "Coq: parse-then-print and print-then-parse for the generic layout interpreter; serializer order regenerated from to_be_bytes; correspondence on X and E5/E7"
    level_text = ("Theorems C08_* (coq/Props/C08.v): for all accepted inputs x = to_be_bytes(p) ++ rest, and for all well-formed structures "
                  "parse(to_be_bytes(p) ++ rest) = p, for V5 and V7, any count. The emission order of the hand-written serializers is regenerated "
                  "from the source and must equal the layout order (decided by computation).")
    level_note = "export_parse direction assumes version and protocol_type hold the values the parser derives; trusts translator's reading of to_be_bytes (validated by correspondence on X)"
    rule = ("random V5/V7 packets as for C03 (re-export compared with the consumed bytes) and random V5/V7 structures built from "
            "their public fields, exported and parsed back (ops E5/E7); non-trivial when a packet or structure with at least one record "
            "round-trips; distinct by hash of the ops")
    assumptions = ["export_parse direction: structures whose version and protocol_type are the values the parser derives (wf_v5 / wf_v7)"]

    def cases(self, rng, tables, n, tier):
        return [fixed_case(rng, tables) if i % 2 == 0 else e_case(rng) for i in range(n)]

    def oracle(self, case, obs, crash, tables):
        return oracle.c08(case, obs, crash)

    def nontrivial(self, case, obs):
        for o in obs:
            if get(o, "E") is not None:
                back = get(o, "back")
                if back and oracle.elem_kind(back[0]) != "Error" and len(get(oracle.elem_body(back[0]), "flowsets")) > 0:
                    return True
        return C03.nontrivial(self, case, obs)


# ---------------------------------------------------------------- mixed streams

def any_allowed(rng):
    k = rng.random()
    if k < 0.55:
        return None
    pool = [5, 7, 9, 10]
    sub = [v for v in pool if rng.random() < 0.6]
    if rng.random() < 0.4:
        sub += rng.sample([0, 1, 6, 8, 11, 255, 256, 65535], rng.choice([1, 2]))
    return sub


def mixed_case(rng, tables):
    k = rng.random()
    if k < 0.4:
        allowed = any_allowed(rng)
        c = gen.conformant_stream(rng, tables, parsers=rng.choice([1, 1, 2]), allowed=allowed)
        extras = [v for v in (allowed or []) if v not in (5, 7, 9, 10)]
        if extras and rng.random() < 0.6:
            # an allowed version the library has no decoder for, at a packet boundary: must be an
            # UnknownVersion error carrying the rest, never a silent stop
            n = rng.choice([0, 2, 6, 20])
            tail = be(rng.choice(extras), 2) + (bytes(n) if rng.random() < 0.5 else rng.randbytes(n))
            for i in range(len(c.ops) - 1, -1, -1):
                if c.ops[i].startswith("B "):
                    parts = c.ops[i].split()
                    parts[2] = hexs(tail) if parts[2] == "-" else parts[2] + hexs(tail)
                    c.ops[i] = " ".join(parts)
                    break
        return c
    if k < 0.65:
        return gen.mutated_stream(rng, tables)
    if k < 0.82:
        return gen.mutated_stream(rng, tables, conformant_templates=True)
    if k < 0.9:
        return gen.header_field_case(rng, tables)
    return gen.malformed(rng)


class C01(Prop):
    pid = "C01"
    keys = ["R:frame", "X:outcome", "C:outcome"]
    gen_deps = ("Tables.v", "Layouts.v", "Inventory.v")
    technique = "Coq: totality of the fuelled model (fuel never runs out, no panic branch reachable) + panic/recursion inventory regenerated from source; correspondence on outcome, 2 MiB threads, stress families"
    level_text = ("Theorems C01_* (coq/Props/C01.v): for every buffer, every reachable state and every allowed set the model's parse_bytes returns "
                  "(explicit recursion fuel never runs out), no element carries the fuel marker, re-export of parser output never takes the panic "
                  "branch; the inventory of panic-capable expressions and self-recursive functions regenerated from /repo/src must equal the list the "
                  "model accounts for. Partial: that the bounded number of stack frames fits 2 MiB, and wall-clock termination, are observed (2 MiB "
                  "threads, watchdog, stress families at datagram size in debug and release), not proved.")
    level_note = "stack frame sizes and wall-clock are measured, not proved; panics inside dependencies are covered only by correspondence"
    partial = "stack depth in bytes and wall-clock time are observed on stress families, not proved"
    rule = ("mixed streams (conformant multi-packet multi-parser, near-valid mutations with hostile templates cached first, malformed) plus the stress "
            "families of every loop site (max records, chained packets, templates, fields, zero-size templates, lying counts/lengths); each op runs "
            "on a 2 MiB thread; non-trivial = decodes at least one packet; distinct by hash")

    def budget(self, tier):
        return 800 if tier == "quick" else 30000

    def cases(self, rng, tables, n, tier):
        return [gen.length_sweep_case()] + gen.stress_cases(rng, big=(tier == "thorough")) + [mixed_case(rng, tables) for _ in range(n)]

    def oracle(self, case, obs, crash, tables):
        return oracle.c01(case, obs, crash)


class C02(Prop):
    pid = "C02"
    keys = ["R:frame"]
    technique = "Coq: induction over the packet loop with a consumption lemma per version (wire length from the packet's own header); correspondence on R"
    level_text = ("Theorems C02_* (coq/Props/C02.v): for every buffer, state and allowed set the result list is good ++ tail with the wire lengths of "
                  "good (24+48n, 24+52n, max(length,16), 20+sum max(flowset length,4), read from the packets' own headers) adding up to a prefix of the "
                  "buffer, tail empty or one Error whose remaining is exactly the unconsumed suffix, and a silent stop only before a disallowed version; "
                  "parse_bytes always returns; empty buffer gives the empty list.")
    level_note = "model of lib.rs / v9.rs / ipfix.rs control flow is hand-written and tied by correspondence"
    rule = ("mixed streams under random allowed sets (subsets of {5,7,9,10} plus extras): conformant chains, length/count mutations (set length < 4, "
            "message length < 16, count != flowsets), truncations, stray tail bytes, garbage; non-trivial = at least one packet decoded; distinct by hash")

    def cases(self, rng, tables, n, tier):
        big = [gen.many_packets_case(rng, tables, n=2600)] if tier == "thorough" else []
        return [gen.length_sweep_case(), gen.large_buffer_case(rng, tables), gen.many_packets_case(rng, tables)] + big + [mixed_case(rng, tables) for _ in range(n)]

    def oracle(self, case, obs, crash, tables):
        return oracle.c02(case, obs, crash)


def partition_case(rng, tables):
    seq = gen.packet_sequence(rng, tables, npk=rng.choice([2, 2, 3, 4, 5, 6]))
    pk = [b for b, _v, _d in seq]
    if rng.random() < 0.15:
        # many packets for few bytes: runs of header-only packets (16-byte IPFIX messages, 20-byte V9
        # packets, 24-byte V5/V7 packets), optionally with an ordinary packet after them
        run = [gen.minimal_packet(rng, rng.choice([10, 10, 9, 5, 7])) for _ in range(rng.choice([3, 4, 5, 7, 9]))]
        pk = run + pk[: rng.choice([0, 1])]
    ops = ["P 0", "B 0 " + hexs(b"".join(pk))]
    parts = gen.all_partitions(pk)
    if len(parts) > 8:
        parts = rng.sample(parts, 8)
    for k, groups in enumerate(parts, 1):
        ops.append("P %d" % k)
        for g in groups:
            ops.append("B %d %s" % (k, hexs(b"".join(g))))
    return Case("partitions", ops, {"n": len(pk)})


class C11(Prop):
    pid = "C11"
    keys = ["R:frame", "S"]
    technique = "Coq: frame lemma per version parser (no parser looks past its packet) + induction over the packet loop; correspondence on R and S under all partitions"
    level_text = ("Theorems C11_* (coq/Props/C11.v): for every sequence of accepted self-delimiting packets, every state and allowed set, "
                  "parse_bytes(a ++ b) = parse_bytes(a) ++ parse_bytes(b) run on the state a leaves, final states equal, and hence every partition into "
                  "calls at packet boundaries gives the one-call result. No bound on the number or size of packets.")
    level_note = "ranges over sequences whose packets are accepted (a rejected packet ends the one-call result with an error carrying the suffix, as C02/C14 require)"
    rule = ("conformant sequences of 2-6 packets mixing the four versions (templates defined by earlier packets of the sequence), delivered in one call on "
            "parser 0 and under all 2^(n-1) partitions (8 sampled when n > 4) on further parsers; results and final caches compared; non-trivial = at "
            "least two packets decoded; distinct by hash")

    def cases(self, rng, tables, n, tier):
        big = [gen.many_packets_case(rng, tables, n=2600)] if tier == "thorough" else []
        return [gen.large_buffer_case(rng, tables), gen.many_packets_case(rng, tables)] + big + [partition_case(rng, tables) for _ in range(max(1, n // 3))]

    def budget(self, tier):
        return 600 if tier == "quick" else 15000

    def oracle(self, case, obs, crash, tables):
        return oracle.c11(case, obs, crash)

    def nontrivial(self, case, obs):
        if not obs:
            return False
        R = get(obs[0], "R")
        return isinstance(R, list) and sum(1 for e in R if oracle.elem_kind(e) != "Error") >= 2


def filter_case(rng, tables):
    seq = gen.packet_sequence(rng, tables, npk=rng.choice([1, 2, 3, 4, 5]))
    k = rng.random()
    if k < 0.3:
        v = rng.choice([0, 0, 1, 6, 8, 11, 255, 256, 65535])
        n = rng.choice([0, 2, 3, 4, 20])
        seq.insert(rng.randrange(len(seq) + 1), (be(v, 2) + (bytes(n) if rng.random() < 0.4 else rng.randbytes(n)), v, "unknown"))
    allowed = [v for v in [5, 7, 9, 10] if rng.random() < 0.6]
    if rng.random() < 0.4:
        allowed += rng.sample([0, 1, 6, 8, 11, 255, 256, 65535], rng.choice([1, 2, 3]))
    buf = b"".join(b for b, _v, _d in seq)
    prefix = b""
    for b, v, _d in seq:
        if v not in allowed:
            break
        prefix += b
    aset = "A 0 " + (",".join(map(str, allowed)) if allowed else "-")
    if rng.random() < 0.25 and len(seq) > 1 and all(v in (5, 7, 9, 10) for _b, v, _d in seq[:1]):
        # an earlier call with the default set on both parsers (same state), then the filter
        cut = rng.randrange(1, len(seq))
        if all(v in (5, 7, 9, 10) for _b, v, _d in seq[:cut]):
            a = b"".join(b for b, _v, _d in seq[:cut])
            c = b"".join(b for b, _v, _d in seq[cut:])
            return Case("filter", ["P 0", "P 1", "B 0 " + hexs(a), "B 1 " + hexs(a), aset, "A 1 *", "B 0 " + hexs(c), "B 1 " + hexs(c)], {"allowed": allowed})
    ops = ["P 0", aset, "P 1", "A 1 *", "P 2", "A 2 *", "B 0 " + hexs(buf), "B 1 " + hexs(buf), "B 2 " + hexs(prefix)]
    return Case("filter", ops, {"allowed": allowed})


class C12(Prop):
    pid = "C12"
    keys = ["R:frame", "S"]
    technique = "Coq: simulation between the run under `allow` and the run allowing every version (results carry the state after each element); correspondence on R and S with twin parsers"
    level_text = ("Theorems C12_* (coq/Props/C12.v): for every allowed set, buffer and state, parse_bytes under `allow` is the all-allowed result cut at "
                  "the first element whose version word is not allowed, with the states attached to the surviving elements (so filtered packets change no "
                  "cache); an allowed version other than 5/7/9/10 is an UnknownVersion error carrying the unparsed bytes; the dispatch table and the default "
                  "set are regenerated from lib.rs.")
    level_note = "`a parser allowing every version` is modelled as the predicate fun _ => true; in the harness as the set of all 65,536 u16"
    rule = ("conformant sequences of 1-5 packets, optionally with a packet of an unknown version, under a random subset of {5,7,9,10} plus extras; twin "
            "parser allowing all 65,536 versions on the same buffers; third parser fed only the allowed prefix (caches compared); non-trivial = at least "
            "one packet decoded by the all-allowed twin; distinct by hash")

    def cases(self, rng, tables, n, tier):
        return [gen.toggling_case(rng, tables) for _ in range(max(1, n // 20))] + [filter_case(rng, tables) for _ in range(n)]

    def oracle(self, case, obs, crash, tables):
        return oracle.c12(case, obs, crash)

    def nontrivial(self, case, obs):
        bp = oracle.by_parser(case, obs)
        if 1 not in bp:
            return False
        R, _ = oracle.results_of(bp[1])
        return any(oracle.elem_kind(e) != "Error" for e in R)


def cut_case(rng, tables):
    seq = gen.packet_sequence(rng, tables, npk=rng.choice([1, 2, 3]))
    pre = b"".join(b for b, _v, _d in seq[:-1])
    p, ver, _d = seq[-1]
    if len(p) <= 40:
        points = list(range(1, len(p)))
    else:
        points = sorted(set(rng.sample(range(1, len(p)), 24) + [1, 2, 3, 4, 16, 19, 20, 21, 23, 24, 25, len(p) - 1, len(p) - 2, len(p) - 4]))
        points = [c for c in points if 0 < c < len(p)]
    bounds = gen.v9_boundaries(p) if ver == 9 else set()
    ops = ["P 0", "B 0 " + hexs(pre)] if pre else ["P 0"]
    cuts = {}
    for k, c in enumerate(points, 1):
        ops.append("P %d" % k)
        ops.append("B %d %s" % (k, hexs(pre + p[:c])))
        cuts[k] = (ver, pre, p[:c], c in bounds)
    return Case("cuts", ops, {"cuts": cuts, "ref": 0})


class C14(Prop):
    pid = "C14"
    keys = ["R:frame", "S"]
    technique = "Coq: success characterisation per version (a packet decodes iff the bytes its header announces are present); correspondence on every cut point"
    level_text = ("Theorems C14_* (coq/Props/C14.v): a V5/V7 buffer shorter than 24+48n / 24+52n, and an IPFIX buffer shorter than its message length, "
                  "is reported as one Error whose remaining is the buffer, with the parser state unchanged, for every content and state; packets before it "
                  "in the buffer are reported unchanged (C11 framing).  C14_packet_cut / C14_buffer_cut: every V5, V7 or IPFIX packet the parser accepts, cut at any "
                  "point strictly inside, is one Error carrying the truncated bytes with the state untouched; C14_v9_packet: the same for V9 at every cut that "
                  "is not a flowset boundary (templates of complete flowsets before the cut may be learned).")
    level_note = "covers the property's whole quantifier: the property itself excludes V9 cuts on a flowset boundary (there the crate reports the packet with the flowsets that are present); correspondence runs every cut point of generated packets in addition"
    rule = ("conformant sequences of 1-3 packets; the last packet cut at every point (<= 40 bytes) or at 24+ sampled points including header/set "
            "boundaries, each cut on a fresh parser after the preceding packets; reference parser gets only the preceding packets; non-trivial = the "
            "preceding packets decode or the cut is inside the first packet; distinct by hash")

    def budget(self, tier):
        return 240 if tier == "quick" else 8000

    def cases(self, rng, tables, n, tier):
        return [cut_case(rng, tables) for _ in range(max(1, n // 4))]

    def oracle(self, case, obs, crash, tables):
        return oracle.c14(case, obs, crash)

    def nontrivial(self, case, obs):
        return len(obs) > 2


def json_case(rng, tables):
    c = gen.conformant_stream(rng, tables, parsers=1) if rng.random() < 0.7 else gen.mutated_stream(rng, tables)
    if rng.random() < 0.2:
        # the shapes of the error element: a call that is just a version word (the inner `remaining`
        # is then empty), a version word and a few bytes, one byte, an unknown version
        tail = rng.choice([be(rng.choice([5, 7, 9, 10]), 2), be(rng.choice([5, 7, 9, 10]), 2) + bytes(rng.choice([1, 3])),
                           be(rng.choice([5, 7, 9, 10]), 2), b"\x00", be(rng.choice([0, 11, 65535]), 2)])
        c.ops.append("B 0 " + hexs(tail))
    # twin parser fed the same history
    ops = []
    for line in c.ops:
        ops.append(line)
        t = line.split()
        if t[0] in ("P", "A", "B") and t[1] == "0":
            ops.append(" ".join([t[0], "1"] + t[2:]))
    meta = {"twins": True}
    if "packets" in c.meta:
        meta["packets"] = c.meta["packets"]
    return Case("json-twins", ops, meta)


class C16(Prop):
    pid = "C16"
    keys = ["R"]
    technique = "Coq: JSON tree of every result type is total and its compact text re-reads to the same tree; correspondence: serde_json text parsed by a strict reader and compared as an ordered tree; twin parsers"
    level_text = ("Theorems C16_* (coq/Props/C16.v): the model's serde shape to_json is a total function of the result (so equal results give equal "
                  "trees: determinism), records list their fields in template order with decimal-index keys. C16_wellformed / C16_text_faithful: the "
                  "model's compact text of EVERY JSON tree is accepted in full by the grammar-directed reader Model/JsonRead.v and reads back to the tree "
                  "(read_json (print_json j) = Some (plain j)), so the text is well-formed JSON and determines the tree. The crate's serde_json text is parsed with Python's strict JSON reader and compared with the model's tree "
                  "node by node including key order, 128-bit integers exactly, floats by bit pattern (non-finite = null), strings as UTF-8.")
    level_note = "serde_json's own printer (number and string formatting) is compared, not modelled"
    partial = "serde_json's text printer is compared with the model's tree, not modelled; well-formedness of the crate's text is decided by an independent strict reader on every generated result"
    rule = ("conformant and mutated streams with 128-bit counters, NaN/inf floats, invalid UTF-8, quotes and control characters, empty values, error "
            "elements with arbitrary bytes; every op duplicated on a twin parser; the same result serialized twice; non-trivial = decodes at least one "
            "packet; distinct by hash")

    def cases(self, rng, tables, n, tier):
        return [gen.many_templates_case()] + [json_case(rng, tables) for _ in range(n)]

    def oracle(self, case, obs, crash, tables):
        # faithfulness: the values in the JSON are compared with an independent decode of the bytes
        ref = [(c, m) for c, m in oracle.c04(case, obs, crash, tables) + oracle.c05(case, obs, crash, tables) if c is None]
        return oracle.c16(case, obs, crash) + ref


def cache_case(rng, tables):
    """redefinitions, same ids in both protocols, garbage and fixed-format packets in between,
    1-3 parsers, sometimes a restricted allowed set, random partition into calls"""
    nparsers = rng.choice([1, 1, 2, 3])
    exs = [gen.Exporter(rng, tables, rng.random() < 0.7) for _ in range(nparsers)]
    for ex in exs:
        ex.ids = [256, 257, 300]           # few ids: redefinitions and cross-protocol clashes are common
        ex.kind_reuse = rng.random() < 0.5   # and an id redefined from template to options template or back
    ops = []
    for k in range(nparsers):
        ops.append("P %d" % k)
        if rng.random() < 0.2:
            ops.append("A %d %s" % (k, ",".join(map(str, rng.sample([5, 7, 9, 10], rng.choice([2, 3]))))))
    for _ in range(rng.choice([2, 3, 4, 6, 8])):
        k = rng.randrange(nparsers)
        buf = b""
        for _ in range(rng.choice([1, 1, 2, 3])):
            r = rng.random()
            if r < 0.75:
                b, _d = gen.rand_packet(rng, exs[k])
            elif r < 0.85:
                b, _d = gen.rand_packet(rng, exs[k])
                b = gen.mutate(rng, b)
            else:
                b = gen.malformed(rng).ops[-1].split()[2]
                b = bytes.fromhex(b) if b != "-" else b""
            buf += b
        ops.append("B %d %s" % (k, hexs(buf)))
    return Case("cache-history", ops)


class C06(Prop):
    pid = "C06"
    keys = ["R:frame", "S"]
    gen_deps = ("Tables.v", "Layouts.v", "Inventory.v")
    technique = "Coq: monotonicity invariant over histories (caches only grow), per-step frame conditions by protocol and version gate, last-definition-wins lemma for the insert fold, origin invariant (every cache entry was there before the call or its record occurs in the buffer); correspondence on S after every call, 1-3 parsers"
    level_text = ("Theorems C06_* (coq/Props/C06.v): for every buffer, state and allowed set no template is ever evicted (invariant lifted over the "
                  "packet loop, hence over every history of calls; per protocol: an id that has a template of either kind keeps having one, a definition "
                  "of the other kind supersedes it, C06_one_kind_*); a step whose version word is not 9 (not 10) leaves the V9 (IPFIX) caches equal, a "
                  "disallowed or missing version word leaves the whole state equal; after a template flowset an id maps to the last record of that id; "
                  "data is decoded with the entry of the state just before it; splitting into calls is immaterial (C11); no static or shared item exists.")
    level_note = "C06_entries_were_sent: after any call, failed or not, every entry of the four caches was there before or its record's wire form occurs in the buffer; instance isolation is by construction in the model and by the regenerated static-items inventory plus multi-parser correspondence for the crate"
    rule = ("histories of 2-8 calls over 1-3 parsers: template definitions and redefinitions over 3 ids shared between V9 and IPFIX, data, fixed-format "
            "packets, mutated packets and garbage, restricted allowed sets; caches compared after every call; non-trivial = at least one template cached; "
            "distinct by hash")

    def cases(self, rng, tables, n, tier):
        out = [gen.many_templates_case(twins=False)]
        c = gen.conformant_stream(rng, tables, npk=300, parsers=1, few_ids=True, kind_reuse=True)
        c.gen = "long-history"
        out.append(c)
        if tier == "thorough":
            out.append(gen.fill_caches_case())
            out.append(gen.expiry_case())
        for i in range(n):
            if i % 3 == 0:
                # fully conformant streams over 2-3 parsers sharing template ids with different
                # definitions: every packet is re-decoded by the reference decoder with the
                # template its own parser received last
                c = gen.conformant_stream(rng, tables, parsers=rng.choice([2, 3]), few_ids=True, kind_reuse=rng.random() < 0.6)
                c.gen = "conformant-shared-ids"
                out.append(c)
            else:
                out.append(cache_case(rng, tables))
        return out

    def oracle(self, case, obs, crash, tables):
        # the reference decode detects data decoded under the wrong template; deviations that are
        # C04's / C05's own finding classes are theirs to report
        ref = [(c, m) for c, m in oracle.c04(case, obs, crash, tables) + oracle.c05(case, obs, crash, tables) if c is None or c.startswith("K_C06")]
        return oracle.c06(case, obs, crash) + ref

    def nontrivial(self, case, obs):
        for o in obs:
            S = get(o, "S")
            if S is not None and any(get(S, m) for m in ("v9_t", "v9_o", "ix_t", "ix_o")):
                return True
        return False


def unknown_case(rng, tables):
    ex = gen.Exporter(rng, tables, True)
    other = gen.Exporter(rng, tables, True)
    ops = ["P 0", "P 1"]
    unknown = {}
    known = {}
    n = 0

    def add(line):
        nonlocal n
        ops.append(line)
        n += 1
        return n - 1

    proto = rng.choice(["V9", "IPFix"])
    # some unrelated traffic first (gives earlier packets in the same buffer and a non-empty cache)
    pre = b""
    if rng.random() < 0.6:
        ex.ids = [400, 401]
        pre, _ = gen.rand_packet(rng, ex, (5, 7, 9, 10))
        if rng.random() < 0.5:
            add("B 0 " + hexs(pre))
            pre = b""
    tid = rng.choice([256, 257, 300, 1000, 65535])
    if proto == "IPFix" and rng.random() < 0.15:
        tid = 255          # the lowest id the crate treats as a data set (ids below it, other than 3, are template sets)
    if proto == "V9":
        tp, dp, tid, nrec = gen.v9_template_then_data(rng, ex, tid)
    else:
        tp, dset, tid, nrec = gen.ix_template_then_data(rng, ex, tid)
        before = []
        if rng.random() < 0.5 and ex.ix_t:
            pass
        dp = gen.ipfix_msg(before + [dset])
    k = rng.random()
    if k < 0.25:
        # the template is known only to the other protocol
        if proto == "V9":
            otp, _ds, _t, _n = gen.ix_template_then_data(rng, other, tid)
        else:
            otp, _dp, _t, _n = gen.v9_template_then_data(rng, other, tid)
        add("B 0 " + hexs(otp))
    elif k < 0.5:
        # the template is known only to another parser instance
        add("B 1 " + hexs(tp))
    i = add("B 0 " + hexs(pre + dp))
    unknown[i] = (proto, tid)
    if rng.random() < 0.8:
        add("B 0 " + hexs(tp))
        j = add("B 0 " + hexs(dp))
        known[j] = (proto, tid, nrec)
    return Case("data-before-template", ops, {"unknown": unknown, "known": known})


class C07(Prop):
    pid = "C07"
    keys = ["R:frame", "S"]
    technique = "Coq: case analysis of the flowset/set dispatcher on lookup = None (fails, state unchanged), propagation through the V9 flowset loop and the IPFIX set loop; correspondence on data-before-template histories"
    level_text = ("Theorems C07_* (coq/Props/C07.v): for every state in which an id has no template in either map of that protocol, a V9 flowset of that "
                  "id (id not 0/1) fails whatever its bytes and the packet with it, an IPFIX set of that id (id >= 255) fails and ends the set loop "
                  "successfully with the sets before it, the state is untouched in both cases, and the id stays unknown until a template of that id is "
                  "inserted; the other protocol's maps are not arguments of the step. Packet level: C07_v9_packet (flowsets that decode, then data for an "
                  "unknown id: one Error carrying the buffer from that packet on, caches exactly what the earlier flowsets made them) and "
                  "C07_ipfix_message (conformant sets, an unknown set, anything after it inside the message: reported with exactly the sets before it).")
    level_note = "the unwrap_or_default() fall-backs are absent from the model (the lookup that guards them is the one matched on); that they are unreachable in the crate is covered by correspondence"
    rule = ("histories in which a data flowset/set arrives before its template: alone or after other packets in the same buffer, with the id defined only "
            "for the other protocol or only in another parser instance, then (80%) the template and the same data again; non-trivial = the later data "
            "decodes or the unknown-id packet follows a decoded packet; distinct by hash")

    def cases(self, rng, tables, n, tier):
        return [unknown_case(rng, tables) for _ in range(n)]

    def oracle(self, case, obs, crash, tables):
        return oracle.c07(case, obs, crash)


def multi_template_case(rng, tables):
    """an IPFIX template set carrying two template records (normal exporter behaviour), then data"""
    ex = gen.Exporter(rng, tables, True)
    t1, f1 = ex.ix_template(256)
    t2, f2 = ex.ix_template(257)
    body = be(t1, 2) + be(len(f1), 2) + b"".join(ex.ix_fspec(f) for f in f1) + be(t2, 2) + be(len(f2), 2) + b"".join(ex.ix_fspec(f) for f in f2)
    msg = gen.ipfix_msg([gen.ipfix_set(2, body)])
    d = gen.ipfix_msg([gen.ipfix_set(257, b"".join(ex.ix_value(f) for f in f2) or b"\x00")])
    return Case("ipfix-multi-template", ["P 0", "B 0 " + hexs(msg), "B 0 " + hexs(d)],
                {"packets": [(0, msg.hex(), None), (0, d.hex(), None)]})


class C04(Prop):
    pid = "C04"
    keys = ["R", "D", "S"]
    technique = "Coq: print-then-parse against an RFC 3954 encoder (Spec/V9Stream.v, Spec/Interp.v): values (every supported data type x width), records, data flowsets, template / options-template records, options data, and the WHOLE PACKET with the cache threaded through (C04_packet); generated type tables; correspondence + independent RFC 3954 reference decoder"
    level_text = ("Theorems C04_* (coq/Props/C04.v): for every supported (data type, width) the decoder returns the big-endian interpretation of exactly "
                  "the allotted bytes (Spec/Interp.v); a data flowset body of ANY number of records plus padding shorter than a record decodes to exactly "
                  "those records, in order, with that padding; template and options-template records are reported as sent. C04_packet: for every packet "
                  "built by the encoder of Spec/V9Stream.v from a header and ANY list of template / options-template / data / options-data flowsets that is "
                  "conformant for the collector state it meets, every state and any bytes after it, parse_v9 returns exactly the expected decode, exactly "
                  "those bytes as the rest, and exactly the expected cache (last definition wins). C04_buffer: ANY sequence of conformant V9 packets and IPFIX "
                  "messages chained in one buffer is reported as exactly the expected elements, the state threaded from packet to packet. An options data flowset with more than one record is "
                  "decoded as its first record only: known finding K_C04_options_multi_record, with the refuting witness C04_options_multi_refuted.")
    level_note = "the encoder/expected-decode pair in Spec/V9Stream.v is the specification; the independent reference decoder tools/refdec.py cross-checks it on generated streams"
    partial = ""
    rule = ("RFC 3954-conformant streams from a random exporter (1-6 flowsets per packet, 1-3 templates per template flowset, every known field type and "
            "unknown ones, all supported widths, 0-40 records, padding 0-3, options templates and options data, redefinitions), 1-2 parsers, packets "
            "grouped into calls at random; every packet re-decoded by the independent reference decoder; non-trivial = at least one data record "
            "decoded; distinct by hash")

    def cases(self, rng, tables, n, tier):
        return [gen.conformant_stream(rng, tables, versions=(9, 9, 9, 5), parsers=rng.choice([1, 1, 2])) for _ in range(n)]

    def oracle(self, case, obs, crash, tables):
        return [(c, m) for c, m in oracle.c04(case, obs, crash, tables) if not (c or "").startswith("K_C06")]

    def nontrivial(self, case, obs):
        for o in obs:
            R = get(o, "R")
            if isinstance(R, list) and not isinstance(R, canon.Pairs):
                for e in R:
                    if oracle.elem_kind(e) in ("V9", "IPFix"):
                        for fs in get(oracle.elem_body(e), "flowsets"):
                            b = get(fs, "body")
                            if b[0][0] == "Data" and len(get(b[0][1], "fields")) > 0:
                                return True
        return False


class C05(C04):
    pid = "C05"
    technique = "Coq: print-then-parse against an RFC 7011 encoder (Spec/IxStream.v): fixed, enterprise and variable-length (1- and 3-byte prefix) values, the record loop on records of different sizes (C05_data_set), template / options-template sets, and the WHOLE MESSAGE with the caches threaded through (C05_message); generated type tables; correspondence + independent RFC 7011 reference decoder"
    level_text = ("Theorems C05_* (coq/Props/C05.v): fixed-length values are the interpretation of exactly the declared bytes, enterprise values the bytes "
                  "verbatim, variable-length values take their length from the 1-byte or 0xFF+2-byte prefix. C05_data_set: a set body of ANY non-empty list "
                  "of records (each field sent with either prefix form) plus padding shorter than the smallest record decodes to exactly those records in "
                  "order with that padding. C05_message: for every message built by the encoder of Spec/IxStream.v from a header and ANY list of template, "
                  "options-template and data sets conformant for the collector state it meets, every state and any bytes after it, parse_ipfix returns "
                  "exactly the expected decode, those bytes as the rest, and the expected caches. C05_buffer: the same over a whole buffer of chained V9 "
                  "packets and IPFIX messages (C05_buffer_example: both protocols in one buffer).")
    level_note = "template sets with more than one record (known finding K_C05_multi_template) and 8/16-byte signed values (K_C05_signed_wide) are outside the conformance predicate; tools/refdec.py cross-checks the specification on generated streams"
    partial = ""
    rule = ("RFC 7011-conformant message streams (template / options-template / data sets in any order, enterprise fields, variable-length fields in "
            "short and long form, zero-length values, all supported widths, 1-40 records, padding), plus one case with two template records in one "
            "template set; every message re-decoded by the independent reference decoder; non-trivial = at least one data value decoded; distinct by hash")

    def cases(self, rng, tables, n, tier):
        return [multi_template_case(rng, tables)] + [gen.conformant_stream(rng, tables, versions=(10, 10, 10, 7), parsers=rng.choice([1, 1, 2])) for _ in range(n)]

    def oracle(self, case, obs, crash, tables):
        return [(c, m) for c, m in oracle.c05(case, obs, crash, tables) if not (c or "").startswith("K_C06")]


LOSSLESS_V9 = ["UnsignedDataNumber", "Ip4Addr", "Ip6Addr", "Vec", "ProtocolType"]
LOSSLESS_IX = ["UnsignedDataNumber", "Ip4Addr", "Ip6Addr", "Float64"]


class LosslessExporter(gen.Exporter):
    """templates over the value kinds whose re-export is exact (so any difference is new)"""

    def v9_field(self):
        rng = self.rng
        if rng.random() < 0.15:
            num = rng.choice([43, 51, 59, 65, 97, 101, 300, 40000])      # unknown types: bytes kept verbatim
            return (num, rng.choice([1, 2, 3, 5, 8, 20]))
        dt = rng.choice([d for d in LOSSLESS_V9 if d in self.t.v9_by_dtype])
        num = rng.choice(self.t.v9_by_dtype[dt])
        ln = rng.choice(gen.NATURAL[dt]) if dt in gen.NATURAL else rng.choice([1, 2, 3, 4, 7, 16, 33])
        return (num, ln)

    def ix_field(self):
        rng = self.rng
        k = rng.random()
        if k < 0.2:
            return (rng.randrange(32768), rng.choice([1, 2, 4, 8, 20]), rng.choice([0, 9, 29305, 0xFFFFFFFF]))
        if k < 0.3:
            return (rng.choice([0, 105, 491, 503, 1000, 32767]), rng.choice([1, 2, 4, 9]), None)
        dt = rng.choice([d for d in LOSSLESS_IX if d in self.t.ipfix_by_dtype])
        num = rng.choice(self.t.ipfix_by_dtype[dt])
        ln = rng.choice(gen.NATURAL[dt]) if dt in gen.NATURAL else rng.choice([1, 2, 3, 4, 7, 16, 33])
        return (num, ln, None)


def export_case(rng, tables, version):
    lossless = rng.random() < 0.6
    ex = (LosslessExporter if lossless else gen.Exporter)(rng, tables, rng.random() < 0.85)
    if lossless:
        # protocol bytes 145..254 decode as Unknown (-> 255 on re-export): the lossy ones
        tables_ok = set(n for n in tables.proto_parse_ok if n <= 144 or n == 255)
        ex.t = tables
        saved = tables.proto_parse_ok
    ops = ["P 0"]
    for _ in range(rng.choice([1, 2, 3, 4])):
        buf = b""
        for _ in range(rng.choice([1, 1, 2])):
            b, _d = gen.rand_packet(rng, ex, (version, version, version, 5))
            buf += b
        ops.append("B 0 " + hexs(buf))
    return Case("export-lossless" if lossless else "export-any", ops)


class C09(Prop):
    pid = "C09"
    keys = ["R:frame", "X", "D"]
    technique = "Coq: parse-then-print per value kind (class predicate exact_dtype defined once in Coq), per template / options-template record and per flowset envelope, for ALL accepted inputs; correspondence on X and D; oracle with the same classes"
    level_text = ("Theorems C09_* (coq/Props/C09.v): for every accepted value whose (data type, width, bytes) satisfies exact_dtype, to_be_bytes returns "
                  "exactly the bytes consumed; template and options-template records re-export exactly for every accepted input; the flowset envelope is "
                  "id, length, body; re-export of parser output never panics (C01). C09_packet_roundtrip: EVERY V9 packet parse_bytes "
                  "reports whose decoded values are of the lossless kinds re-exports to exactly the bytes it occupied (any flowset mix, padding, cached "
                  "templates). The lossy kinds (durations, MAC addresses, strings, signed integers held as I32, protocol bytes 145..254, which decode as Unknown) are the known-finding "
                  "classes, each with a refuting witness.")
    level_note = "classes K_C09_* are defined by exact_dtype (Coq) and mirrored in tools/oracle.py; packet-level composition by correspondence"
    partial = ""
    rule = ("V9 streams, 60% over lossless value kinds only (unsigned 1/2/3/4/8/16, IPv4/6, vectors, unknown types, named protocols) so that any "
            "difference is a new one, 40% over all kinds (exercising the known classes); 0-3 padding bytes, several flowsets of every kind per packet; "
            "non-trivial = a V9 packet with at least one data record re-exported; distinct by hash")

    def cases(self, rng, tables, n, tier):
        return [export_case(rng, tables, 9) for _ in range(n)]

    def oracle(self, case, obs, crash, tables):
        return oracle.c09(case, obs, crash)

    def nontrivial(self, case, obs):
        return C04.nontrivial(self, case, obs)


class C10(C09):
    pid = "C10"
    keys = ["R:frame", "X", "D", "S"]
    level_text = ("Theorems C10_* (coq/Props/C10.v): value-level exactness as C09 (shared predicate) for fixed-length and enterprise fields; template and "
                  "options-template records re-export exactly including the enterprise bit and enterprise number (print-then-parse of the field "
                  "specifier); message and set envelopes. Classes: the C09 value kinds, signed integers of width 1/2/8/16 (widened), variable-length "
                  "fields (prefix not retained), sets dropped after an undecodable set. C10_message_roundtrip: EVERY IPFIX message parse_bytes reports "
                  "whose data sets are governed by templates without variable-length fields, whose values are of the lossless kinds and whose sets fill "
                  "the message length (ix_lossless, decidable) re-exports to exactly the bytes it occupied, for any state and set mix.")
    level_note = "classes K_C10_* mirrored in tools/oracle.py; the three situations ix_lossless excludes are exactly those classes"
    rule = ("IPFIX streams, 60% over lossless fixed-length kinds and enterprise fields, 40% over all kinds including variable-length fields; several "
            "sets per message; non-trivial = a message with at least one data value re-exported; distinct by hash")

    def cases(self, rng, tables, n, tier):
        return [multi_template_case(rng, tables) for _ in range(5)] + [export_case(rng, tables, 10) for _ in range(n)]

    def oracle(self, case, obs, crash, tables):
        return oracle.c10(case, obs, crash, tables)


def common_case(rng, tables):
    ex = gen.Exporter(rng, tables, True)
    seq = gen.packet_sequence(rng, tables, npk=rng.choice([1, 2, 3, 4]), ex=ex)
    if rng.random() < 0.2:
        seq.insert(rng.randrange(len(seq) + 1), (b"\x00\x09\x00", 9, "garbage"))
    ops = ["P 0", "P 1"]
    if rng.random() < 0.3:
        # the flat view must obey the parser's configuration like parse_bytes does
        allowed = [v for v in (5, 7, 9, 10) if rng.random() < 0.7] or [9]
        ops += ["A 0 " + ",".join(map(str, allowed)), "A 1 " + ",".join(map(str, allowed))]
    if len(seq) > 1 and rng.random() < 0.5:
        # the same packets over several calls: the flat view of a later call needs the templates the
        # parser learned in an earlier one (through either entry point)
        cut = sorted(rng.sample(range(1, len(seq)), rng.choice([1, min(2, len(seq) - 1)])))
        parts = [seq[a:b] for a, b in zip([0] + cut, cut + [len(seq)])]
    else:
        parts = [seq]
    seen = set()
    for part in parts:
        buf = b"".join(b for b, _v, _d in part)
        if buf in seen:
            continue                      # the oracle pairs the B and the F op of a call by their bytes
        seen.add(buf)
        ops += ["B 0 " + hexs(buf), "F 1 " + hexs(buf)]
    return Case("common", ops)


class C13(Prop):
    pid = "C13"
    keys = ["R:frame", "C", "F"]
    technique = "Coq: the common view of V5/V7 is the field-wise projection of each record (all present), the flat view is the in-order concatenation over non-error packets, errors convert to an error; correspondence on C and F; oracle projecting R"
    level_text = ("Theorems C13_* (coq/Props/C13.v): for V5/V7 the common structure is version, sys_up_time and one flow per record, in order, every "
                  "numeric field present and equal to the record's field, MACs absent; for V9/IPFIX one flow per decoded record map built by selecting "
                  "fields by type (last of a type wins), IPv4 before IPv6; error elements convert to an error; the flat view is the in-order concatenation "
                  "of the flows of the non-error packets. C13_v9_protocol_and_times (after repair 39ac76d): a V9 record's protocol (decoded as a name) and "
                  "first/last switched (decoded as durations) reach the view as the protocol's number and name and the millisecond counts; "
                  "C13_field_anchors pins the projected names to their RFC 3954 / IANA element numbers. Known classes (crate deviations, witness "
                  "C13_refuted): protocol bytes 145..254 (Unknown keeps no number), durations of 2^32 ms or more, ports of width other than 2, IPFIX one "
                  "flow per field.")
    level_note = "the V9/IPFIX theorems describe the selection the conversion performs on what the decoders produce; the deviations from the property are classes K_C13_*"
    rule = ("conformant sequences of 1-4 packets (templates with random subsets and orders of the projected fields, both address families), sometimes "
            "with a garbage packet in the middle; parser 0 gets parse_bytes + as_netflow_common, parser 1 parse_bytes_as_netflow_common_flowsets on "
            "the same buffer; non-trivial = at least one flow produced; distinct by hash")

    def cases(self, rng, tables, n, tier):
        return [common_case(rng, tables) for _ in range(n)]

    def oracle(self, case, obs, crash, tables):
        return oracle.c13(case, obs, crash, tables)

    def nontrivial(self, case, obs):
        for o in obs:
            for c in get(o, "C") or []:
                if c not in ("ERR", "PANIC") and len(get(c, "flows")) > 0:
                    return True
        return False


class C15(Prop):
    pid = "C15"
    keys = ["R:frame"]
    technique = "Coq: output-size bounds by induction (records x record size <= bytes present, per version), count/length fields enter only through bytes actually consumed; counting global allocator in the harness against a linear bound; blow-ups as classes"
    level_text = ("Theorems C15_* (coq/Props/C15.v): the number of V5/V7 records times 48/52 plus 24 is at most the buffer length; a V9 data flowset holds "
                  "at most body/size records; every IPFIX record pass consumes at least one byte, so a data set holds at most |body| passes; every decoded "
                  "packet's wire length is at most the bytes present (no announced-but-absent bytes are ever materialised); when no field of the governing "
                  "template has length 0, a V9 data flowset / IPFIX data set of n bytes yields at most n values (C15_v9_values_le_bytes, "
                  "C15_ipfix_values_le_bytes; C15_zero_len_refuted shows the hypothesis is needed). Partial: allocator behaviour "
                  "is measured by a counting allocator against 4096 + 600*|x| + 40*|serialized result| on the stress families, not proved; the known "
                  "super-linear behaviours (copy of the remaining buffer per chained packet, V9 retry loop, zero-length-field inflation) are classes.")
    level_note = "allocator rounding, Vec growth and BTreeMap nodes are outside the model; the linear bound's constants are calibrated on the unchanged tree"
    partial = "heap bytes are measured, not proved; quadratic behaviours are known findings"
    rule = ("stress families (count/length 65535 over short bodies, maximal chained packets / sets / records / templates / fields) plus mixed streams; "
            "bytes requested from a counting global allocator during each parse_bytes call against a linear bound in input length and serialized "
            "result size; non-trivial = decodes at least one packet; distinct by hash")

    def cases(self, rng, tables, n, tier):
        return gen.stress_cases(rng, big=(tier == "thorough")) + [mixed_case(rng, tables) for _ in range(n)]

    def oracle(self, case, obs, crash, tables):
        return oracle.c15(case, obs, crash)


class C17(Prop):
    pid = "C17"
    keys = ["R", "X", "C", "S"]
    puf = False
    gen_deps = ("Tables.v", "Layouts.v", "Inventory.v")
    technique = "Coq: the model run with puf = false equals the run with puf = true on known-only templates, and decodes no record containing an unknown field; both cfg arms and the call site regenerated from source; correspondence against a --no-default-features build"
    level_text = ("Theorems C17_* (coq/Props/C17.v): from_field_type with the feature off equals the feature-on decoder on every data type except Unknown, "
                  "hence records / data flowsets over known-only templates decode identically; a V9 record or IPFIX record containing an unknown field "
                  "fails, so nothing of it is reported as decoded data; the two cfg arms of parse_unknown_fields and its call site have the same arity "
                  "(regenerated). Partial: that the crate compiles with --no-default-features is observed by building the harness against it.")
    level_note = "compilation is observed (cargo build --no-default-features of the harness), not proved"
    partial = "'the crate builds' is a fact about cargo, checked by building"
    rule = ("the conformant V9/IPFIX streams of C04/C05 run against the harness built with --no-default-features and the model with puf = false; the "
            "default build runs the same ops for comparison on known-only inputs; non-trivial = at least one data record decoded; distinct by hash")

    def cases(self, rng, tables, n, tier):
        return [gen.conformant_stream(rng, tables, versions=(9, 10, 9, 10, 5), parsers=1) for _ in range(n)]

    def prepare(self, cases, work, core):
        """run the default build on the same cases; keep its observations for the oracle"""
        res = core.run_both(cases, work + "-default", puf=True, want_model=False, timeout=600)
        for c, r, _m, _crash in res:
            c.meta["default_obs"] = r

    def oracle(self, case, obs, crash, tables):
        return oracle.c17(case, obs, crash, tables)

    def nontrivial(self, case, obs):
        return C04.nontrivial(self, case, obs)


ALL = {p.pid: p for p in [C01(), C02(), C03(), C04(), C05(), C06(), C07(), C08(), C09(), C10(), C11(), C12(), C13(), C14(), C15(), C16(), C17()]}

NOT_CLAIMED = {}
