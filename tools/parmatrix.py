#!/usr/bin/env python3
"""Run seeded changes against the checks in parallel, without touching /repo or /verif.

  parmatrix.py <workers> <out.log> <seed-id>[:prop,prop..] ...

Every worker gets a scratch git worktree of /repo and a private copy of /verif (built caches
included) under /tmp/par/<k>; the copy's harness is pointed at the worktree and the checks run
with VERIF_REPO set to it.  A seed without an explicit property list is run against all 17; the seed id NONE applies no
patch (e.g. PAR_TIER=thorough parmatrix.py 4 log NONE runs every thorough check on the unchanged tree).
Everything under /tmp/par is removed at the end.  (Development tool: the registered checks never
use it.)"""
import json
import os
import shutil
import subprocess
import sys
import threading

ROOT = os.path.dirname(os.path.dirname(os.path.abspath(__file__)))
PAR = "/tmp/par"
ALL = ["C%02d" % i for i in range(1, 18)]


def sh(cmd, cwd=None, env=None, timeout=3600):
    p = subprocess.run(cmd, cwd=cwd, shell=True, stdout=subprocess.PIPE, stderr=subprocess.STDOUT, env=env, timeout=timeout)
    return p.returncode, p.stdout.decode("utf-8", "replace")


def setup(k):
    d = os.path.join(PAR, str(k))
    shutil.rmtree(d, ignore_errors=True)
    os.makedirs(d)
    repo = os.path.join(d, "repo")
    rc, out = sh("git -C /repo worktree add --detach %s HEAD" % repo)
    assert rc == 0, out
    v = os.path.join(d, "verif")
    rc, out = sh("rsync -a --exclude .git --exclude replays --exclude .cache/work %s/ %s/" % (ROOT, v))
    assert rc == 0, out
    ct = os.path.join(v, "harness", "Cargo.toml")
    with open(ct) as f:
        t = f.read()
    with open(ct, "w") as f:
        f.write(t.replace('path = "/repo"', 'path = "%s"' % repo).replace('path="/repo"', 'path="%s"' % repo))
    return repo, v


def worker(k, jobs, log, lock):
    repo, v = setup(k)
    env = dict(os.environ, VERIF_REPO=repo, CARGO_NET_OFFLINE="true")
    for sid, props in jobs:
        patch = os.path.join(ROOT, "seeded", sid, "patch.diff")
        rc, out = (0, "") if sid == "NONE" else sh("git -C %s apply %s" % (repo, patch))
        if rc != 0:
            with lock:
                log.write("%s apply failed: %s\n" % (sid, out[:200]))
                log.flush()
            continue
        for p in props:
            rc, out = sh("./check %s --tier %s" % (p, os.environ.get("PAR_TIER", "quick")), cwd=v, env=env, timeout=7200)
            lines = [l for l in out.split("\n") if l.startswith("VIOLATION") or l.startswith("  ")]
            verdict = "VIOLATION" if rc == 1 and any(l.startswith("VIOLATION") for l in lines) else ("clean" if rc == 0 else "error rc=%d %s" % (rc, out[-300:].replace("\n", " ")))
            with lock:
                log.write("%s %s %s | %s\n" % (sid, p, verdict, " | ".join(l.strip() for l in lines[:2])[:300]))
                log.flush()
        sh("git -C %s checkout -- . && git -C %s clean -fdq" % (repo, repo))


def main():
    n = int(sys.argv[1])
    logp = sys.argv[2]
    jobs = []
    for a in sys.argv[3:]:
        if ":" in a:
            sid, ps = a.split(":")
            jobs.append((sid, ps.split(",")))
        else:
            jobs.append((a, ALL))
    # split long jobs per property so that workers stay busy
    flat = [(sid, ps[i : i + 5]) for sid, ps in jobs for i in range(0, len(ps), 5)]
    parts = [flat[i::n] for i in range(n)]
    lock = threading.Lock()
    with open(logp, "a") as log:
        ts = [threading.Thread(target=worker, args=(k, parts[k], log, lock)) for k in range(n) if parts[k]]
        for t in ts:
            t.start()
        for t in ts:
            t.join()
        log.write("DONE\n")
    for k in range(n):
        sh("git -C /repo worktree remove --force %s" % os.path.join(PAR, str(k), "repo"))
    shutil.rmtree(PAR, ignore_errors=True)
    sh("git -C /repo worktree prune")


if __name__ == "__main__":
    main()
