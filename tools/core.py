"""Build, run and compare: the plumbing shared by every property check."""
import concurrent.futures as cf
import fcntl
import hashlib
import json
import os
import shutil
import subprocess
import sys
import time

import canon

ROOT = os.path.dirname(os.path.dirname(os.path.abspath(__file__)))
CACHE = os.path.join(ROOT, ".cache")
COQ = os.path.join(ROOT, "coq")
REPO = os.environ.get("VERIF_REPO", "/repo")
TARGET = os.path.join(CACHE, "target")
OCAML = os.path.join(CACHE, "ocaml")
GUARD = "netflow_parser_verif"

ENV = dict(os.environ)
ENV.update({"CARGO_NET_OFFLINE": "true", "CARGO_TARGET_DIR": TARGET, "RUSTFLAGS": "--cfg " + GUARD})


def sh(cmd, timeout=1200, cwd=None, env=None, inp=None):
    t0 = time.time()
    try:
        p = subprocess.run(cmd, cwd=cwd, env=env or ENV, stdout=subprocess.PIPE, stderr=subprocess.STDOUT,
                           timeout=timeout, input=inp, shell=isinstance(cmd, str))
        return p.returncode, p.stdout.decode("utf-8", "replace"), time.time() - t0
    except subprocess.TimeoutExpired as e:
        return 124, (e.stdout or b"").decode("utf-8", "replace") + "\n[timeout]", time.time() - t0


class Lock:
    def __enter__(self):
        os.makedirs(CACHE, exist_ok=True)
        self.f = open(os.path.join(CACHE, "lock"), "w")
        fcntl.flock(self.f, fcntl.LOCK_EX)
        return self

    def __exit__(self, *a):
        fcntl.flock(self.f, fcntl.LOCK_UN)
        self.f.close()


def newest(paths):
    m = 0
    for p in paths:
        try:
            m = max(m, os.path.getmtime(p))
        except OSError:
            pass
    return m


def translate():
    rc, out, _ = sh([sys.executable, os.path.join(ROOT, "tools", "translate.py")], timeout=120)
    try:
        st = json.loads(out)
    except Exception:
        st = {"ok": False, "errors": ["translator crashed: " + out[-2000:]], "fn_hashes": {}}
    return st


def coq_make(targets, timeout=3000):
    """build the given .vo targets (and what they depend on); returns (ok, log)"""
    mk = os.path.join(COQ, "Makefile")
    proj = os.path.join(COQ, "_CoqProject")
    if not os.path.exists(mk) or os.path.getmtime(mk) < os.path.getmtime(proj):
        rc, out, _ = sh(["coq_makefile", "-f", "_CoqProject", "-o", "Makefile"], cwd=COQ, timeout=120)
        if rc != 0:
            return False, out
    rc, out, _ = sh(["make", "-j16", "-k"] + targets, cwd=COQ, timeout=timeout)
    return rc == 0, out


MODEL_VO = ["Model/Obs.vo"]


def build_model():
    """Model .vo files, extraction, OCaml driver.  returns (ok, log)"""
    ok, log = coq_make(MODEL_VO)
    if not ok:
        return False, log
    os.makedirs(OCAML, exist_ok=True)
    drv = os.path.join(OCAML, "driver")
    srcs = [os.path.join(COQ, "Model", f) for f in os.listdir(os.path.join(COQ, "Model")) if f.endswith(".vo")]
    srcs += [os.path.join(COQ, "Gen", f) for f in os.listdir(os.path.join(COQ, "Gen")) if f.endswith(".vo")]
    srcs += [os.path.join(COQ, "Extract.v"), os.path.join(ROOT, "ocaml", "driver.ml")]
    if os.path.exists(drv) and os.path.getmtime(drv) >= newest(srcs):
        return True, log
    shutil.copy(os.path.join(COQ, "Extract.v"), os.path.join(OCAML, "Extract.v"))
    rc, out, _ = sh(["coqc", "-Q", os.path.join(COQ, "Gen"), "NF", "-Q", os.path.join(COQ, "Model"), "NF", "Extract.v"], cwd=OCAML, timeout=300)
    log += out
    if rc != 0:
        return False, log
    shutil.copy(os.path.join(ROOT, "ocaml", "driver.ml"), os.path.join(OCAML, "driver.ml"))
    rc, out, _ = sh(["ocamlfind", "ocamlopt", "-O2", "-w", "-a", "model.mli", "model.ml", "driver.ml", "-o", "driver.new"], cwd=OCAML, timeout=600)
    log += out
    if rc != 0:
        return False, log
    os.replace(os.path.join(OCAML, "driver.new"), drv)
    return True, log


def build_harness(profile="debug", puf=True):
    hd = os.path.join(ROOT, "harness")
    lock_src = os.path.join(REPO, "Cargo.lock")
    lock_dst = os.path.join(hd, "Cargo.lock")
    if not os.path.exists(lock_dst):
        shutil.copy(lock_src, lock_dst)
    cmd = ["cargo", "build", "--offline", "--quiet"]
    if profile == "release":
        cmd.append("--release")
    env = dict(ENV)
    if not puf:
        cmd.append("--no-default-features")
        env["CARGO_TARGET_DIR"] = TARGET + "-nopuf"
    rc, out, _ = sh(cmd, cwd=hd, env=env, timeout=1800)
    if rc != 0 and "Cargo.lock" in out:
        # the repository's lock file changed: refresh the copy once
        shutil.copy(lock_src, lock_dst)
        rc, out, _ = sh(cmd, cwd=hd, env=env, timeout=1800)
    return rc == 0, out


def harness_bin(profile="debug", puf=True):
    return os.path.join(TARGET + ("" if puf else "-nopuf"), profile, "nfharness")


def driver_bin():
    return os.path.join(OCAML, "driver")


# ---------------------------------------------------------------- running ops

def parse_out(text):
    """-> (dict case_index -> list of observation dicts (or raw markers)), clean_end"""
    cases = {}
    cur = None
    pending = None
    clean = False
    for line in text.split("\n"):
        if not line:
            continue
        if line.startswith("CASE "):
            cur = int(line.split()[1])
            cases[cur] = []
            pending = None
        elif line.startswith("BEGIN "):
            pending = int(line.split()[1])
        elif line.startswith("END "):
            clean = True
        elif line.startswith("{") and cur is not None:
            try:
                cases[cur].append(canon.loads(line))
            except Exception as e:
                cases[cur].append(canon.Pairs([("UNPARSEABLE", line[:200] + " .. " + str(e))]))
            pending = None
    return cases, clean, (cur, pending)


def run_ops(binary, args_after, cases, workdir, tag, timeout):
    """run one shard; handles a crash in the middle by attributing it and resuming after it.
    cases: list of (index, Case).  returns dict index -> list of observations"""
    results = {}
    todo = list(cases)
    crashes = {}
    while todo:
        path = os.path.join(workdir, "%s.ops" % tag)
        with open(path, "w") as f:
            for idx, c in todo:
                f.write(c.text(idx))
        rc, out, _ = sh(["bash", "-c", "ulimit -s unlimited 2>/dev/null; exec \"$0\" \"$@\"", binary, "run", path] + args_after,
                        timeout=timeout, env=ENV)
        got, clean, (cur, pending) = parse_out(out)
        results.update(got)
        if clean and rc == 0:
            break
        # crashed or timed out: the culprit is case `cur`
        if cur is None:
            # nothing ran at all
            for idx, _c in todo:
                results.setdefault(idx, [])
                crashes[idx] = "harness did not start (rc=%d): %s" % (rc, out[-300:])
            break
        crashes[cur] = "TIMEOUT" if rc == 124 else "ABORT rc=%d" % rc
        results.setdefault(cur, []).append(canon.Pairs([("CRASH", crashes[cur]), ("op", pending)]))
        pos = [i for i, (idx, _c) in enumerate(todo) if idx == cur]
        todo = todo[pos[0] + 1 :] if pos else []
    return results, crashes


def run_both(cases, workdir, puf=True, profile="debug", shards=16, timeout=600, want_model=True, stack=None):
    """cases: list of Case.  returns list of (case, rust_obs, model_obs, rust_crash)"""
    os.makedirs(workdir, exist_ok=True)
    indexed = list(enumerate(cases))
    n = max(1, min(shards, len(indexed)))
    parts = [indexed[i::n] for i in range(n)]
    rust = {}
    model = {}
    rcrash = {}
    with cf.ThreadPoolExecutor(max_workers=16) as ex:
        futs = []
        for k, part in enumerate(parts):
            if not part:
                continue
            futs.append(("r", ex.submit(run_ops, harness_bin(profile, puf), [str(stack)] if stack else [], part, workdir, "r%d" % k, timeout)))
            mpart = [(i, c) for i, c in part if not c.meta.get("oracle_only")]
            if want_model and mpart:
                futs.append(("m", ex.submit(run_ops, driver_bin(), ["1" if puf else "0"], mpart, workdir, "m%d" % k, timeout)))
        for kind, f in futs:
            res, crashes = f.result()
            if kind == "r":
                rust.update(res)
                rcrash.update(crashes)
            else:
                model.update(res)
                for idx, why in crashes.items():
                    model.setdefault(idx, []).append(canon.Pairs([("MODELCRASH", why)]))
    return [(c, rust.get(i, []), model.get(i, []), rcrash.get(i)) for i, c in indexed]


def compare_case(rust_obs, model_obs, keys, panics_are_disagreements=True):
    """first disagreement between the crate's and the model's observations on the given keys.
    A panic or crash of the crate is C01's subject: the other properties skip such a case."""
    if not panics_are_disagreements:
        if any(canon.get(r, "PANIC") is not None or canon.get(r, "CRASH") is not None for r in rust_obs) or len(rust_obs) < len(model_obs):
            return None
    if len(rust_obs) != len(model_obs):
        return "number of observations: crate %d, model %d" % (len(rust_obs), len(model_obs))
    for k, (r, m) in enumerate(zip(rust_obs, model_obs)):
        if canon.get(r, "PANIC") is not None or canon.get(r, "CRASH") is not None:
            return "op %d: crate %s, model returns" % (k, "PANIC" if canon.get(r, "PANIC") is not None else canon.get(r, "CRASH"))
        if canon.get(m, "FUEL") is not None or canon.get(m, "MODELCRASH") is not None:
            return "op %d: model out of fuel / crashed" % k
        o = canon.get(m, "O")
        if o is None:
            return "op %d: model printed no observation" % k
        for key in keys:
            proj = None
            if key.endswith(":frame"):
                key = key[: -len(":frame")]
                proj = canon.skeleton
            elif key.endswith(":outcome"):
                key = key[: -len(":outcome")]
                proj = canon.outcomes
            mv = canon.get(o, key)
            rv = canon.get(r, key)
            if proj is not None:
                mv = proj(mv)
                rv = proj(rv)
            if mv is None and rv is None:
                continue
            if mv is None or rv is None:
                return "op %d: key %s present on one side only" % (k, key)
            d = canon.diff(mv, rv, key)
            if d:
                return "op %d: %s" % (k, d)
    return None


def sha(s):
    return hashlib.sha256(s.encode() if isinstance(s, str) else s).hexdigest()[:16]
