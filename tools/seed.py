#!/usr/bin/env python3
"""Evaluate a seeded change produced by an independent sub-agent.

  seed.py verify <src-dir> <seed-id> <property>   confirm in a scratch worktree: patched suite passes,
                                                  demo fails; unpatched demo passes; copy to seeded/<id>/
  seed.py run <seed-id> [props...]                apply seeded/<id>/patch.diff to /repo, run the checks,
                                                  undo; record which checks reported a violation
"""
import json
import os
import shutil
import subprocess
import sys
import time

ROOT = os.path.dirname(os.path.dirname(os.path.abspath(__file__)))
SCRATCH = "/tmp/mut/verify"
ENV = dict(os.environ, CARGO_NET_OFFLINE="true")


def sh(cmd, cwd=None, timeout=1800):
    p = subprocess.run(cmd, cwd=cwd, shell=True, stdout=subprocess.PIPE, stderr=subprocess.STDOUT, env=ENV, timeout=timeout)
    return p.returncode, p.stdout.decode("utf-8", "replace")


def scratch():
    if not os.path.isdir(SCRATCH):
        rc, out = sh("git -C /repo worktree add --detach %s HEAD" % SCRATCH)
        assert rc == 0, out
    sh("git checkout -q --detach $(git -C /repo rev-parse HEAD) && git checkout -- . && git clean -fdq -e target", cwd=SCRATCH)


def suite(cwd):
    rc, out = sh("(cargo test --offline --lib; cargo test --offline --doc) 2>&1 | grep -E '^test result|FAILED|error(\\[|:)' ", cwd=cwd)
    ok = "FAILED" not in out and "error" not in out and "45 passed" in out and "11 passed" in out
    return ok, out.strip()


def demo(cwd):
    rc, out = sh("cargo test --offline %s --test demo 2>&1 | tail -15" % os.environ.get("SEED_DEMO_FLAGS", ""), cwd=cwd)
    passed = rc == 0 and "test result: ok" in out
    return passed, out.strip()


def verify(src, sid, prop):
    scratch()
    patch = os.path.join(src, "patch.diff")
    rc, out = sh("git apply --check %s" % patch, cwd=SCRATCH)
    if rc != 0:
        print("patch does not apply:", out)
        return 1
    os.makedirs(os.path.join(SCRATCH, "tests"), exist_ok=True)
    shutil.copy(os.path.join(src, "demo.rs"), os.path.join(SCRATCH, "tests", "demo.rs"))
    ok_demo_clean, o1 = demo(SCRATCH)
    sh("git apply %s" % patch, cwd=SCRATCH)
    ok_suite, o2 = suite(SCRATCH)
    ok_demo_patched, o3 = demo(SCRATCH)
    sh("git checkout -- . && rm -rf tests", cwd=SCRATCH)
    res = {"demo_passes_unpatched": ok_demo_clean, "suite_passes_patched": ok_suite, "demo_fails_patched": not ok_demo_patched}
    print(sid, res)
    if not (ok_demo_clean and ok_suite and not ok_demo_patched):
        print(o1[-600:], "\n--\n", o2[-600:], "\n--\n", o3[-600:])
        return 1
    d = os.path.join(ROOT, "seeded", sid)
    os.makedirs(d, exist_ok=True)
    shutil.copy(patch, os.path.join(d, "patch.diff"))
    shutil.copy(os.path.join(src, "demo.rs"), os.path.join(d, "demo.rs"))
    readme = os.path.join(src, "README.md")
    if os.path.exists(readme):
        shutil.copy(readme, os.path.join(d, "README.md"))
    needs = ""
    if os.path.exists(readme):
        with open(readme) as f:
            needs = f.read()[:1500]
    meta = {"id": sid, "breaks_property": prop, "source": "independent sub-agent given only the property text and a scratch worktree",
            "needs_to_manifest": needs,
            "confirmed": {"repo_commit": sh("git -C /repo rev-parse --short HEAD")[1].strip(),
                          "suite_with_patch": "cargo test --offline --lib --doc: passes (45 unit + 11 doc)",
                          "demo_with_patch": "cargo test --offline --test demo: FAILS",
                          "demo_without_patch": "cargo test --offline --test demo: passes"},
            "checks": {}}
    with open(os.path.join(d, "meta.json"), "w") as f:
        json.dump(meta, f, indent=1)
    return 0


def run(sid, props):
    d = os.path.join(ROOT, "seeded", sid)
    with open(os.path.join(d, "meta.json")) as f:
        meta = json.load(f)
    if not props:
        props = [meta["breaks_property"]]
    rc, out = sh("git -C /repo status --porcelain")
    if out.strip():
        print("/repo is not clean")
        return 1
    rc, out = sh("git -C /repo apply %s" % os.path.join(d, "patch.diff"))
    if rc != 0:
        print("apply failed", out)
        return 1
    # the checks rewrite evidence/<id>.json: keep the evidence of the unchanged tree
    saved = {}
    for p in props:
        ev = os.path.join(ROOT, "evidence", p + ".json")
        if os.path.exists(ev):
            with open(ev) as f:
                saved[ev] = f.read()
    try:
        for p in props:
            t0 = time.time()
            rc, out = sh("./check %s --tier quick" % p, cwd=ROOT, timeout=3000)
            lines = [l for l in out.split("\n") if l.startswith("VIOLATION") or l.startswith("  ")]
            verdict = "VIOLATION" if rc == 1 and any(l.startswith("VIOLATION") for l in lines) else ("clean" if rc == 0 else "error rc=%d" % rc)
            meta["checks"][p] = {"verdict": verdict, "detail": " | ".join(l.strip() for l in lines[:3])[:400], "wall_s": round(time.time() - t0, 1)}
            print(sid, p, verdict, meta["checks"][p]["detail"][:200])
    finally:
        sh("git -C /repo checkout -- . && git -C /repo clean -fdq -e target")
        for ev, text in saved.items():
            with open(ev, "w") as f:
                f.write(text)
        sh("python3 %s" % os.path.join(ROOT, "tools", "translate.py"))
    with open(os.path.join(d, "meta.json"), "w") as f:
        json.dump(meta, f, indent=1)
    return 0


if __name__ == "__main__":
    if sys.argv[1] == "verify":
        sys.exit(verify(sys.argv[2], sys.argv[3], sys.argv[4]))
    sys.exit(run(sys.argv[2], sys.argv[3:]))
