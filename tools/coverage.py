#!/usr/bin/env python3
"""Development tool (not a check): which lines of /repo/src do the cases of the 17 checks execute?

    python3 tools/coverage.py [seed] [quick|thorough]

Builds the observation harness with `-C instrument-coverage` (nightly toolchain, whose llvm-tools
carry llvm-profdata / llvm-cov) in a scratch directory, runs the corpus and the generated cases of
every property through it, prints llvm-cov's report for /repo/src and the lines never executed, and
removes the scratch directory.  Generator quality bounds the correspondence check (DESIGN II.5); this
measures it on the code rather than on the inputs."""
import json, os, random, shutil, subprocess, sys, tempfile

ROOT = os.path.dirname(os.path.dirname(os.path.abspath(__file__)))
sys.path.insert(0, os.path.join(ROOT, "tools"))
import core, gen, props  # noqa: E402


def main():
    seed = int(sys.argv[1]) if len(sys.argv) > 1 else 20260930
    tier = sys.argv[2] if len(sys.argv) > 2 else "quick"
    tc = os.path.expanduser("~/.rustup/toolchains/nightly-x86_64-unknown-linux-gnu/lib/rustlib/x86_64-unknown-linux-gnu/bin")
    if not os.path.exists(os.path.join(tc, "llvm-cov")):
        sys.exit("llvm-tools of the nightly toolchain not found")
    tb = os.path.join(core.CACHE, "tables.rust.txt")
    if not os.path.exists(tb):
        sys.exit("run ./check --setup first")
    tables = gen.Tables(tb)
    d = tempfile.mkdtemp(prefix="nfcov-")
    try:
        shutil.copytree(os.path.join(ROOT, "harness"), os.path.join(d, "harness"), ignore=shutil.ignore_patterns("target"))
        env = dict(os.environ, RUSTFLAGS="-C instrument-coverage", CARGO_NET_OFFLINE="true", CARGO_TARGET_DIR=os.path.join(d, "target"),
                   LLVM_PROFILE_FILE=os.path.join(d, "build-%p.profraw.ignore"))   # proc macros and build scripts are instrumented too
        p = subprocess.run(["cargo", "+nightly", "build", "--offline"], cwd=os.path.join(d, "harness"), env=env,
                           stdout=subprocess.PIPE, stderr=subprocess.STDOUT)
        if p.returncode != 0:
            sys.exit(p.stdout.decode()[-2000:])
        binary = os.path.join(d, "target", "debug", "nfharness")
        procs = []
        total = 0
        for pid in sorted(props.ALL):
            P = props.ALL[pid]
            cases = list(P.corpus(tables)) + list(P.cases(random.Random(seed), tables, P.budget(tier), tier))
            total += len(cases)
            path = os.path.join(d, pid + ".ops")
            with open(path, "w") as f:
                for i, c in enumerate(cases):
                    f.write(c.text(i))
            e = dict(os.environ, LLVM_PROFILE_FILE=os.path.join(d, "prof-%s-%%p.profraw" % pid))
            procs.append(subprocess.Popen(["bash", "-c", "ulimit -s unlimited 2>/dev/null; exec \"$0\" run \"$1\"", binary, path],
                                          env=e, stdout=subprocess.DEVNULL, stderr=subprocess.DEVNULL))
        # the exhaustive table sweep every check runs (all of u8 / u16 through the four lookup tables)
        procs.append(subprocess.Popen([binary, "tables"], env=dict(os.environ, LLVM_PROFILE_FILE=os.path.join(d, "prof-tables-%p.profraw")),
                                      stdout=subprocess.DEVNULL, stderr=subprocess.DEVNULL))
        for q in procs:
            q.wait()
        raws = [os.path.join(d, f) for f in os.listdir(d) if f.endswith(".profraw")]
        subprocess.check_call([os.path.join(tc, "llvm-profdata"), "merge", "-sparse"] + raws + ["-o", os.path.join(d, "all.profdata")])
        common = [binary, "-instr-profile=" + os.path.join(d, "all.profdata"), "--ignore-filename-regex=(registry|rustc|harness)"]
        print("%d cases (seed %d, %s tier)" % (total, seed, tier))
        print(subprocess.run([os.path.join(tc, "llvm-cov"), "report"] + common, stdout=subprocess.PIPE, stderr=subprocess.DEVNULL).stdout.decode())
        exp = json.loads(subprocess.run([os.path.join(tc, "llvm-cov"), "export"] + common, stdout=subprocess.PIPE, stderr=subprocess.DEVNULL).stdout)
        for f in exp["data"][0]["files"]:
            src = open(f["filename"]).read().split("\n")
            hit = {}
            for seg in f["segments"]:
                line, _col, count, has = seg[:4]
                if has:
                    hit[line] = max(hit.get(line, 0), count)
            zero = sorted(l for l, c in hit.items() if c == 0)
            if zero:
                print("%s: %d lines whose regions never ran" % (f["filename"], len(zero)))
                for l in zero[:60]:
                    print("   %4d| %s" % (l, src[l - 1].strip()[:100]))
    finally:
        shutil.rmtree(d, ignore_errors=True)


if __name__ == "__main__":
    main()
