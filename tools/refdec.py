"""An independent reference decoder for RFC 3954 (NetFlow V9) and RFC 7011 (IPFIX) export streams,
written from the RFCs, used by the C04/C05/C13 oracles.  It decodes *conformant* streams only
and raises NotConformant on anything else (the oracle then skips the case).  The only thing it
takes from the crate is the table "field type number -> data type" (the properties say: the
value is the big-endian interpretation *in the type the library assigns to that field*).
"""
import ipaddress
import struct


class NotConformant(Exception):
    pass


def u(b):
    return int.from_bytes(b, "big")


def s_(b):
    return int.from_bytes(b, "big", signed=True)


SUPPORTED_NUM = (1, 2, 3, 4, 8, 16)


def value(dtype, b, proto_names):
    """expected serde JSON of one field value (as plain Python), or raise NotConformant"""
    n = len(b)
    if dtype == "UnsignedDataNumber":
        if n not in SUPPORTED_NUM:
            raise NotConformant("width %d" % n)
        return {"DataNumber": u(b)}
    if dtype == "SignedDataNumber":
        if n not in SUPPORTED_NUM:
            raise NotConformant("width %d" % n)
        return {"DataNumber": s_(b)}
    if dtype == "String":
        try:
            return {"String": b.decode("utf-8")}
        except UnicodeDecodeError:
            raise NotConformant("invalid utf-8")
    if dtype == "Ip4Addr":
        if n != 4:
            raise NotConformant("ip4 width")
        return {"Ip4Addr": str(ipaddress.IPv4Address(b))}
    if dtype == "Ip6Addr":
        if n != 16:
            raise NotConformant("ip6 width")
        return {"Ip6Addr": ("ip6", u(b))}
    if dtype == "MacAddr":
        if n != 6:
            raise NotConformant("mac width")
        return {"MacAddr": ":".join("%02X" % x for x in b)}
    if dtype.startswith("Duration"):
        if n not in SUPPORTED_NUM:
            raise NotConformant("width %d" % n)
        v = u(b) % (1 << 64)
        unit = {"DurationSeconds": 1, "DurationMillis": 10 ** 3, "DurationMicros": 10 ** 6, "DurationNanos": 10 ** 9}[dtype]
        return {"Duration": {"secs": v // unit, "nanos": (v % unit) * (10 ** 9 // unit)}}
    if dtype == "ProtocolType":
        if n != 1:
            raise NotConformant("proto width")
        # a number IANA has not assigned (146..252) or an experimental one is still a valid value of
        # a conformant record: the library's type for it is the name Unknown.  (Until the repair of
        # the unnamed-protocol defect this said "not conformant" and the generator never sent one:
        # the same mistake as with multi-record options data, II.3.)
        return {"ProtocolType": proto_names.get(b[0], "Unknown")}
    if dtype == "Float64":
        if n != 8:
            raise NotConformant("float width")
        return {"Float64": ("f64", u(b))}
    if dtype in ("Vec", "Unknown"):
        return {"Vec": list(b)}
    raise NotConformant("dtype " + dtype)


class RefDecoder:
    """one collector: template caches per protocol, last definition wins"""

    def __init__(self, tables, proto_names, unknown_ok=True):
        self.t = tables
        self.proto_names = proto_names
        self.v9_t = {}
        self.v9_o = {}
        self.ix_t = {}
        self.ix_o = {}
        self.unknown_ok = unknown_ok
        self.notes = set()
        self.kind_changed_v9 = set()    # ids redefined from template to options template or back
        self.kind_changed_ix = set()

    # ---- V9 (RFC 3954)
    def v9(self, p):
        """p: one whole packet -> expected (header dict, [flowset]) where flowset =
        ('T', [(id, [(num,len)])], pad) | ('O', [(id, scope, opts)], pad) | ('D', id, [[(num, value)]], pad)
        | ('OD', id, scope_bytes, opt_bytes, pad)"""
        if len(p) < 20 or u(p[:2]) != 9:
            raise NotConformant("v9 header")
        hdr = {"version": 9, "count": u(p[2:4]), "sys_up_time": u(p[4:8]), "unix_secs": u(p[8:12]),
               "sequence_number": u(p[12:16]), "source_id": u(p[16:20])}
        pos = 20
        out = []
        while pos < len(p):
            if pos + 4 > len(p):
                raise NotConformant("flowset header")
            fid = u(p[pos : pos + 2])
            ln = u(p[pos + 2 : pos + 4])
            if ln < 4 or pos + ln > len(p):
                raise NotConformant("flowset length")
            body = p[pos + 4 : pos + ln]
            if fid == 0:
                ts = []
                q = 0
                while len(body) - q >= 4:
                    tid = u(body[q : q + 2])
                    cnt = u(body[q + 2 : q + 4])
                    if len(body) - q - 4 < 4 * cnt:
                        raise NotConformant("template record")
                    if tid < 256:
                        raise NotConformant("template id < 256")
                    fs = [(u(body[q + 4 + 4 * i : q + 6 + 4 * i]), u(body[q + 6 + 4 * i : q + 8 + 4 * i])) for i in range(cnt)]
                    ts.append((tid, fs))
                    self.v9_t[tid] = fs
                    # an id names ONE template: a definition of either kind supersedes the previous one
                    if self.v9_o.pop(tid, None) is not None:
                        self.kind_changed_v9.add(tid)
                    q += 4 + 4 * cnt
                pad = body[q:]
                if len(pad) > 3 or any(pad):
                    raise NotConformant("template flowset padding")
                out.append(("T", fid, ln, ts, pad))
            elif fid == 1:
                ts = []
                q = 0
                while len(body) - q >= 6:
                    tid = u(body[q : q + 2])
                    sl = u(body[q + 2 : q + 4])
                    ol = u(body[q + 4 : q + 6])
                    if sl % 4 or ol % 4 or len(body) - q - 6 < sl + ol or tid < 256:
                        raise NotConformant("options template record")
                    sc = [(u(body[q + 6 + 4 * i : q + 8 + 4 * i]), u(body[q + 8 + 4 * i : q + 10 + 4 * i])) for i in range(sl // 4)]
                    q2 = q + 6 + sl
                    op = [(u(body[q2 + 4 * i : q2 + 2 + 4 * i]), u(body[q2 + 2 + 4 * i : q2 + 4 + 4 * i])) for i in range(ol // 4)]
                    ts.append((tid, sl, ol, sc, op))
                    self.v9_o[tid] = (sc, op)
                    if self.v9_t.pop(tid, None) is not None:
                        self.kind_changed_v9.add(tid)
                    q = q2 + ol
                pad = body[q:]
                if len(pad) > 3 or any(pad):
                    raise NotConformant("options template flowset padding")
                out.append(("O", fid, ln, ts, pad))
            elif fid < 256:
                raise NotConformant("reserved flowset id")
            elif fid in self.v9_t:
                fs = self.v9_t[fid]
                size = sum(l for _, l in fs)
                if size == 0:
                    raise NotConformant("zero-size template")
                nrec = len(body) // size
                recs = []
                q = 0
                for _ in range(nrec):
                    rec = []
                    for num, l in fs:
                        dt = self.t.v9[num][2]
                        if dt == "Unknown" and not self.unknown_ok:
                            raise NotConformant("unknown field")
                        rec.append((num, value(dt, body[q : q + l], self.proto_names)))
                        q += l
                    recs.append(rec)
                pad = body[q:]
                if len(pad) > 3:
                    self.notes.add("padding>3")
                out.append(("D", fid, ln, recs, pad))
            elif fid in self.v9_o:
                sc, op = self.v9_o[fid]
                size = sum(l for _, l in sc) + sum(l for _, l in op)
                if size == 0 or any(l == 0 for _, l in sc + op):
                    raise NotConformant("zero-length option field")
                if any(n not in (1, 2, 3, 4, 5) for n, _ in sc):
                    raise NotConformant("scope type")
                nrec = len(body) // size
                if nrec < 1:
                    raise NotConformant("options data without a record")
                # RFC 3954 6.2: an options data flowset holds one or more options data records
                q = 0
                recs = []
                for _ in range(nrec):
                    scv = []
                    for n, l in sc:
                        scv.append((n, body[q : q + l]))
                        q += l
                    opv = []
                    for n, l in op:
                        opv.append((n, body[q : q + l]))
                        q += l
                    recs.append((scv, opv))
                # (kind, id, length, scope of record 0, options of record 0, padding, all records)
                out.append(("OD", fid, ln, recs[0][0], recs[0][1], body[q:], recs))
            else:
                raise NotConformant("data without template")
            pos += ln
        return hdr, out

    # ---- IPFIX (RFC 7011)
    def ipfix_fields(self, body, q, cnt):
        fs = []
        for _ in range(cnt):
            if len(body) - q < 4:
                raise NotConformant("field specifier")
            num = u(body[q : q + 2])
            ln = u(body[q + 2 : q + 4])
            q += 4
            ent = None
            if num & 0x8000:
                if len(body) - q < 4:
                    raise NotConformant("enterprise number")
                ent = u(body[q : q + 4])
                q += 4
                num &= 0x7FFF
            fs.append((num, ln, ent))
        return fs, q

    def ipfix(self, p):
        if len(p) < 16 or u(p[:2]) != 10 or u(p[2:4]) != len(p):
            raise NotConformant("ipfix header")
        hdr = {"version": 10, "length": u(p[2:4]), "export_time": u(p[4:8]), "sequence_number": u(p[8:12]),
               "observation_domain_id": u(p[12:16])}
        pos = 16
        out = []
        while pos < len(p):
            if pos + 4 > len(p):
                raise NotConformant("set header")
            sid = u(p[pos : pos + 2])
            ln = u(p[pos + 2 : pos + 4])
            if ln < 4 or pos + ln > len(p):
                raise NotConformant("set length")
            body = p[pos + 4 : pos + ln]
            if sid == 2:
                ts = []
                q = 0
                while len(body) - q >= 4:
                    tid = u(body[q : q + 2])
                    cnt = u(body[q + 2 : q + 4])
                    if cnt == 0:
                        raise NotConformant("template withdrawal")
                    if tid < 256:
                        raise NotConformant("template id")
                    fs, q = self.ipfix_fields(body, q + 4, cnt)
                    ts.append((tid, cnt, fs))
                    self.ix_t[tid] = fs
                    if self.ix_o.pop(tid, None) is not None:
                        self.kind_changed_ix.add(tid)
                pad = body[q:]
                if any(pad):
                    raise NotConformant("template set padding")
                out.append(("T", sid, ln, ts, pad))
            elif sid == 3:
                ts = []
                q = 0
                while len(body) - q >= 6:
                    tid = u(body[q : q + 2])
                    cnt = u(body[q + 2 : q + 4])
                    sc = u(body[q + 4 : q + 6])
                    if cnt == 0 or sc > cnt or tid < 256:
                        raise NotConformant("options template record")
                    fs, q = self.ipfix_fields(body, q + 6, cnt)
                    ts.append((tid, cnt, sc, fs))
                    self.ix_o[tid] = fs
                    if self.ix_t.pop(tid, None) is not None:
                        self.kind_changed_ix.add(tid)
                pad = body[q:]
                if any(pad):
                    raise NotConformant("options template set padding")
                out.append(("O", sid, ln, ts, pad))
            elif sid < 256:
                raise NotConformant("reserved set id")
            elif sid in self.ix_t or sid in self.ix_o:
                kind = "D" if sid in self.ix_t else "OD"
                fs = self.ix_t[sid] if sid in self.ix_t else self.ix_o[sid]
                minrec = sum((1 if l == 65535 else l) for _, l, _ in fs)
                if minrec == 0:
                    raise NotConformant("zero-size template")
                recs = []
                q = 0
                while len(body) - q >= minrec:
                    rec = []
                    q0 = q
                    try:
                        for num, l, ent in fs:
                            if l == 65535:
                                if len(body) - q < 1:
                                    raise IndexError
                                l = body[q]
                                q += 1
                                if l == 255:
                                    if len(body) - q < 2:
                                        raise IndexError
                                    l = u(body[q : q + 2])
                                    q += 2
                            if len(body) - q < l:
                                raise IndexError
                            dt = "Vec" if ent is not None else self.t.ipfix[num][2]
                            if dt == "Unknown" and not self.unknown_ok:
                                raise NotConformant("unknown field")
                            rec.append((num, ent, value(dt, body[q : q + l], self.proto_names)))
                            q += l
                    except IndexError:
                        q = q0
                        break
                    recs.append(rec)
                if not recs:
                    raise NotConformant("empty data set")
                pad = body[q:]
                out.append((kind, sid, ln, recs, pad))
            else:
                raise NotConformant("data without template")
            pos += ln
        return hdr, out
