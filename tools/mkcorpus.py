#!/usr/bin/env python3
"""Build corpus/<property>/<seed>.ops from the seeded changes: apply each breaking seed to /repo,
run its property's quick check, keep the failing case the check reports (it carries the case's
meta), undo.  The corpus runs first in every check (DESIGN.md II.5).  Development tool."""
import json
import os
import re
import shutil
import subprocess
import sys

ROOT = os.path.dirname(os.path.dirname(os.path.abspath(__file__)))


def sh(cmd, cwd=None):
    p = subprocess.run(cmd, cwd=cwd, shell=True, stdout=subprocess.PIPE, stderr=subprocess.STDOUT)
    return p.returncode, p.stdout.decode("utf-8", "replace")


def main():
    only = sys.argv[1:]
    assert not sh("git -C /repo status --porcelain")[1].strip(), "/repo not clean"
    for sid in sorted(os.listdir(os.path.join(ROOT, "seeded"))):
        d = os.path.join(ROOT, "seeded", sid)
        with open(os.path.join(d, "meta.json")) as f:
            prop = json.load(f).get("breaks_property")
        if not prop or (only and sid not in only):
            continue
        dst = os.path.join(ROOT, "corpus", prop, sid + ".ops")
        if os.path.exists(dst) and not only:
            continue
        saved = open(os.path.join(ROOT, "evidence", prop + ".json")).read()
        rc, out = sh("git -C /repo apply %s" % os.path.join(d, "patch.diff"))
        try:
            rc, out = sh("./check %s --tier quick" % prop, cwd=ROOT)
        finally:
            sh("git -C /repo checkout -- . && git -C /repo clean -fdq -e target")
            open(os.path.join(ROOT, "evidence", prop + ".json"), "w").write(saved)
        m = re.search(r"VIOLATION property=%s replay=(\S+\.ops)" % prop, out)
        if not m:
            print(sid, prop, "no failing case to keep:", [l for l in out.split("\n") if "VIOLATION" in l][:1])
            continue
        os.makedirs(os.path.dirname(dst), exist_ok=True)
        with open(os.path.join(ROOT, m.group(1))) as f:
            text = f.read()
        with open(dst, "w") as f:
            f.write("# failing case found by ./check %s with seeded change %s applied; passes on the unchanged tree\n" % (prop, sid) + text)
        print(sid, prop, "kept", m.group(1))
    sh("python3 %s" % os.path.join(ROOT, "tools", "translate.py"))


if __name__ == "__main__":
    main()
