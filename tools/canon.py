"""Canonicalisation and tree comparison of observations (DESIGN.md §5).

Both sides print JSON.  The model prints floats, IP addresses and nom messages as marker
objects ({"$f64": bits}, {"$ip4": n}, {"$ip6": n}, {"$msg": kind}); the crate prints what serde
prints.  Comparison is model-directed at exactly those leaves and exact everywhere else,
including key order (objects are compared as lists of pairs) and number values (Python ints
are unbounded, so u128 is exact).
"""
import ipaddress
import json
import struct


class Pairs(list):
    """a JSON object as an ordered list of (key, value) pairs"""


def loads(text):
    return json.loads(text, object_pairs_hook=Pairs)


def f64_bits(x):
    return struct.unpack(">Q", struct.pack(">d", float(x)))[0]


def marker(m):
    if isinstance(m, Pairs) and len(m) == 1 and isinstance(m[0][0], str) and m[0][0].startswith("$"):
        return m[0]
    return None


def diff(model, rust, path=""):
    """None if equal, else a string describing the first difference"""
    mk = marker(model)
    if mk is not None:
        k, v = mk
        if k == "$f64":
            exp = (v >> 52) & 0x7FF
            if exp == 0x7FF:
                return None if rust is None else "%s: model non-finite f64 bits %d, crate %r" % (path, v, rust)
            if isinstance(rust, bool) or not isinstance(rust, (int, float)):
                return "%s: model f64 bits %d, crate %r" % (path, v, rust)
            return None if f64_bits(rust) == v else "%s: model f64 bits %d, crate %r (bits %d)" % (path, v, rust, f64_bits(rust))
        if k == "$ip4":
            try:
                r = int(ipaddress.IPv4Address(rust))
            except Exception:
                return "%s: model ip4 %d, crate %r" % (path, v, rust)
            return None if r == v else "%s: model ip4 %d, crate %r" % (path, v, rust)
        if k == "$ip6":
            try:
                r = int(ipaddress.IPv6Address(rust))
            except Exception:
                return "%s: model ip6 %d, crate %r" % (path, v, rust)
            return None if r == v else "%s: model ip6 %d, crate %r" % (path, v, rust)
        if k == "$msg":
            if not isinstance(rust, str):
                return "%s: model message(%s), crate %r" % (path, v, rust)
            want = {"incomplete": "Parsing requires", "error": "Parsing Error"}.get(v)
            if want is None or not rust.startswith(want):
                return "%s: model message kind %s, crate %r" % (path, v, rust[:60])
            return None
        return "%s: unknown marker %s" % (path, k)
    if isinstance(model, Pairs):
        if not isinstance(rust, Pairs):
            return "%s: model object, crate %s" % (path, type(rust).__name__)
        mkeys = [k for k, _ in model]
        rkeys = [k for k, _ in rust]
        if mkeys != rkeys:
            return "%s: keys differ: model %r crate %r" % (path, mkeys[:12], rkeys[:12])
        for (k, a), (_, b) in zip(model, rust):
            d = diff(a, b, path + "." + k)
            if d:
                return d
        return None
    if isinstance(model, list):
        if not isinstance(rust, list) or isinstance(rust, Pairs):
            return "%s: model array, crate %s" % (path, type(rust).__name__)
        if len(model) != len(rust):
            return "%s: array length model %d crate %d" % (path, len(model), len(rust))
        for i, (a, b) in enumerate(zip(model, rust)):
            d = diff(a, b, "%s[%d]" % (path, i))
            if d:
                return d
        return None
    if isinstance(model, bool) or isinstance(rust, bool):
        return None if (model is rust) else "%s: model %r crate %r" % (path, model, rust)
    if isinstance(model, int) and isinstance(rust, int):
        return None if model == rust else "%s: model %d crate %d" % (path, model, rust)
    if type(model) is not type(rust):
        return "%s: model %r crate %r" % (path, model, rust)
    return None if model == rust else "%s: model %r crate %r" % (path, str(model)[:80], str(rust)[:80])


def get(p, key, default=None):
    if isinstance(p, Pairs):
        for k, v in p:
            if k == key:
                return v
    return default


def plain(x):
    """Pairs -> dict (for oracles that do not care about order)"""
    if isinstance(x, Pairs):
        return {k: plain(v) for k, v in x}
    if isinstance(x, list):
        return [plain(v) for v in x]
    return x


def skeleton(R):
    """the framing of a result list: element kinds, the header fields that delimit packets and
    flowsets, how many records / values each data flowset holds, and error elements in full.
    Properties about framing, chaining, filtering and caches are compared on this projection so
    that a change confined to value decoding does not make them "no longer shown"."""
    if not isinstance(R, list) or isinstance(R, Pairs):
        return R
    out = []
    for e in R:
        if not (isinstance(e, Pairs) and len(e) == 1):
            out.append(e)
            continue
        kind, body = e[0]
        if kind == "Error":
            out.append(e)
        elif kind in ("V5", "V7"):
            h = get(body, "header")
            out.append(Pairs([(kind, Pairs([("count", get(h, "count")), ("records", len(get(body, "flowsets") or []))]))]))
        elif kind in ("V9", "IPFix"):
            h = get(body, "header")
            sets = []
            for fs in get(body, "flowsets") or []:
                fh = get(fs, "header")
                b = get(fs, "body")
                bk = b[0][0] if isinstance(b, Pairs) and b else None
                inner = b[0][1] if bk else None
                n = None
                if bk in ("Data", "OptionsData") and get(inner, "fields") is not None:
                    n = len(get(inner, "fields"))
                elif bk in ("Template", "OptionsTemplate"):
                    ts = get(inner, "templates")
                    n = len(ts) if ts is not None else 1
                sets.append(Pairs([("id", get(fh, "flowset_id", get(fh, "header_id"))), ("length", get(fh, "length")), ("kind", bk), ("n", n)]))
            out.append(Pairs([(kind, Pairs([("count", get(h, "count")), ("length", get(h, "length")), ("sets", sets)]))]))
        else:
            out.append(e)
    return out


def outcomes(L):
    """per element: did the consumer return a value, an error, or panic (C01 compares only this)"""
    if not isinstance(L, list) or isinstance(L, Pairs):
        return L
    return [x if x in ("PANIC", "ERR", None) else "ok" for x in L]
