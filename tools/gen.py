"""Generators for the correspondence check (DESIGN.md §5).  Every random choice comes from one
random.Random(seed); a case records its generator so a disagreement replays exactly."""
import random

NATURAL = {"Ip4Addr": [4], "Ip6Addr": [16], "MacAddr": [6], "ProtocolType": [1], "Float64": [8],
           "UnsignedDataNumber": [1, 2, 3, 4, 8, 16], "SignedDataNumber": [1, 2, 3, 4, 8, 16],
           "DurationSeconds": [1, 2, 3, 4, 8, 16], "DurationMillis": [1, 2, 3, 4, 8, 16],
           "DurationMicros": [1, 2, 3, 4, 8, 16], "DurationNanos": [1, 2, 3, 4, 8, 16]}


def be(n, w):
    return (int(n) & ((1 << (8 * w)) - 1)).to_bytes(w, "big")


class Tables:
    """the compiled crate's own tables (harness `tables` dump)"""

    def __init__(self, path):
        self.v9 = {}
        self.ipfix = {}
        self.proto_parse_ok = set()
        self.proto = {}
        with open(path) as f:
            for line in f:
                t = line.split()
                if t[0] == "v9":
                    self.v9[int(t[1])] = (t[2], int(t[3]), t[4])
                elif t[0] == "ipfix":
                    self.ipfix[int(t[1])] = (t[2], int(t[3]), t[4])
                elif t[0] == "proto":
                    self.proto[int(t[1])] = (t[2], int(t[3]), t[4])
                    if t[4] != "-":
                        self.proto_parse_ok.add(int(t[1]))
        self.v9_known = sorted(n for n, v in self.v9.items() if v[2] != "Unknown")
        self.ipfix_known = sorted(n for n, v in self.ipfix.items() if v[2] != "Unknown" and n < 32768)
        self.v9_by_dtype = {}
        for n in self.v9_known:
            self.v9_by_dtype.setdefault(self.v9[n][2], []).append(n)
        self.ipfix_by_dtype = {}
        for n in self.ipfix_known:
            self.ipfix_by_dtype.setdefault(self.ipfix[n][2], []).append(n)


BOUNDARY16 = [0, 1, 2, 3, 4, 5, 6, 7, 15, 16, 17, 19, 20, 21, 254, 255, 256, 257, 258, 259, 32767, 32768, 65534, 65535]


def rand_value(rng, dtype, length, proto_ok):
    """length bytes for one field value; boundary patterns over-represented"""
    if dtype == "ProtocolType" and length >= 1:
        b0 = rng.choice(sorted(proto_ok)) if rng.random() < 0.8 else rng.choice([145, 146, 200, 252, 253, 254, 255, rng.randrange(256)])
        return bytes([b0]) + rng.randbytes(length - 1)
    k = rng.random()
    if k < 0.15:
        return bytes(length)
    if k < 0.3:
        return b"\xff" * length
    if k < 0.4:
        return (b"\x80" + bytes(max(0, length - 1)))[:length]
    if k < 0.5:
        return (b"\x7f" + b"\xff" * max(0, length - 1))[:length]
    if dtype == "String" and k < 0.8:
        pool = [b"abc", b"\"q\\", b"\x01\x1f", "é".encode(), "€".encode(), "𝄞".encode(), b"\xc3", b"\xe2\x82", b"\xf0\x9f\x98",
                b"\xff", b"\xc0\x80", b"\xed\xa0\x80", b"\xf4\x90\x80\x80", b"\x80", b" "]
        out = b""
        while len(out) < length:
            out += rng.choice(pool)
        return out[:length]
    if dtype == "Ip6Addr" and k < 0.75 and length == 16:
        # forms an address library may treat specially: v4-mapped, v4-compatible, NAT64, loopback, 6to4
        v4 = rng.choice([bytes([10, 0, 0, 1]), bytes([192, 0, 2, 1]), bytes([255, 255, 255, 255]), bytes(4), rng.randbytes(4)])
        return rng.choice([bytes(10) + b"\xff\xff" + v4, bytes(12) + v4, bytes.fromhex("0064ff9b") + bytes(8) + v4,
                           bytes(15) + b"\x01", bytes.fromhex("2002") + v4 + bytes(10), bytes.fromhex("20010db8") + bytes(8) + b"\xff\xff" + v4[:2]])
    if dtype == "Ip4Addr" and k < 0.65 and length == 4:
        return rng.choice([bytes([127, 0, 0, 1]), bytes([10, 0, 0, 1]), bytes([224, 0, 0, 1]), bytes([169, 254, 1, 1]), bytes([192, 168, 1, 1])])
    if dtype == "Float64" and k < 0.8 and length == 8:
        return rng.choice([bytes.fromhex(h) for h in ("7ff0000000000000", "fff0000000000000", "7ff8000000000001", "3ff0000000000000",
                                                       "8000000000000000", "0000000000000001", "7fefffffffffffff", "400921fb54442d18", "3fb999999999999a")])
    return rng.randbytes(length)


# ---------------------------------------------------------------- fixed versions

V5_REC = [4, 4, 4, 2, 2, 4, 4, 4, 4, 2, 2, 1, 1, 1, 1, 2, 2, 1, 1, 2]
V7_REC = V5_REC + [4]
V5_HDR = [2, 4, 4, 4, 4, 1, 1, 2]   # after the version word: count … sampling_interval
V7_HDR = [2, 4, 4, 4, 4, 4]


def rand_fields(rng, widths):
    out = []
    for w in widths:
        k = rng.random()
        if k < 0.15:
            out.append(0)
        elif k < 0.3:
            out.append((1 << (8 * w)) - 1)
        elif k < 0.4:
            out.append(1 << (8 * w - 1))
        else:
            out.append(rng.getrandbits(8 * w))
    return out


def fixed_packet(rng, ver, nrec=None, count=None):
    hw, rw = (V5_HDR, V5_REC) if ver == 5 else (V7_HDR, V7_REC)
    if nrec is None:
        nrec = rng.choice([0, 1, 1, 2, 3, 5, 30, 31, 40]) if rng.random() < 0.97 else rng.choice([127, 128, 129, 255, 256, 257])
    h = rand_fields(rng, hw)
    h[0] = nrec if count is None else count
    recs = []
    for _ in range(nrec):
        r = rand_fields(rng, rw)
        if rng.random() < 0.7:
            r[13] = rng.randrange(256)
        recs.append(r)
    b = be(ver, 2) + b"".join(be(v, w) for v, w in zip(h, hw))
    for r in recs:
        b += b"".join(be(v, w) for v, w in zip(r, rw))
    return b, {"ver": ver, "hdr": h, "recs": recs}


# ---------------------------------------------------------------- V9

class Exporter:
    """a random exporter: template ids, current definitions, for V9 and IPFIX"""

    def __init__(self, rng, tables, conformant=True):
        self.rng = rng
        self.t = tables
        self.conformant = conformant
        self.v9_t = {}      # id -> [(num, len)]
        self.v9_o = {}      # id -> ([(num,len)] scope, [(num,len)] opts)
        self.ix_t = {}      # id -> [(num, len, ent|None)]
        self.ix_o = {}      # id -> (scope_count, [(num,len,ent)])
        self.ids = [256, 257, 258, 300, 1000, 65535]
        self.kind_reuse = False     # may an id be redefined from template to options template and back?

    # -- V9 templates
    def v9_field(self):
        rng = self.rng
        k = rng.random()
        if k < 0.25:
            # every data type equally often, however few elements have it
            num = rng.choice(self.t.v9_by_dtype[rng.choice(sorted(self.t.v9_by_dtype))])
        elif k < 0.75:
            num = rng.choice(self.t.v9_known)
        elif k < 0.9:
            num = rng.choice([43, 51, 59, 65, 97, 101, 105, 150, 283, 284, 300, 40000, 65535, 0])
        else:
            num = rng.randrange(65536)
        dt = self.t.v9[num][2]
        if dt in NATURAL:
            ln = rng.choice(NATURAL[dt])
        else:
            ln = rng.choice([1, 2, 3, 4, 5, 7, 8, 16, 20, 33]) if self.conformant else rng.choice([0, 1, 2, 5, 33])
        if not self.conformant and rng.random() < 0.25:
            ln = rng.choice([0, 1, 2, 3, 4, 5, 6, 7, 8, 9, 16, 17, 255, 65535])
        return (num, ln)

    def v9_template(self, tid=None):
        rng = self.rng
        tid = tid if tid is not None else rng.choice(self.ids)
        n = rng.choice([1, 1, 2, 3, 4, 6, 10]) if self.conformant else rng.choice([0, 1, 2, 3, 8])
        if rng.random() < 0.02:
            n = rng.choice([255, 256, 257])
        fs = [self.v9_field() for _ in range(n)]
        if fs and rng.random() < 0.1:
            fs.insert(rng.randrange(len(fs) + 1), rng.choice(fs))      # the same element twice in one template
        if rng.random() < 0.25:
            # make sure the projected fields of the common view are exercised
            extra = [(8, 4), (12, 4), (7, 2), (11, 2), (4, 1), (22, 4), (21, 4), (56, 6), (80, 6), (27, 16), (28, 16)]
            rng.shuffle(extra)
            fs = extra[: rng.randrange(1, len(extra) + 1)] + fs[: rng.randrange(0, 3)]
            rng.shuffle(fs)
        old = self.v9_t.get(tid)
        if old and len(set(old)) > 1 and rng.random() < 0.35:
            # a redefinition that keeps the number of fields and the record length: the same fields
            # in another order, or other elements of the same widths
            fs = list(old)
            while fs == old:
                rng.shuffle(fs)
            if rng.random() < 0.5:
                swap = {4: [1, 2, 8, 12, 10], 2: [7, 11, 14], 1: [4, 5, 6], 16: [27, 28], 6: [56, 80]}
                fs = [(rng.choice(swap[l]) if l in swap else n, l) for n, l in fs]
                if fs == old:
                    rng.shuffle(fs)
        return tid, fs

    def v9_template_record(self, tid, fs, count=None):
        return be(tid, 2) + be(len(fs) if count is None else count, 2) + b"".join(be(n, 2) + be(l, 2) for n, l in fs)

    def v9_otemplate(self, tid=None):
        rng = self.rng
        tid = tid if tid is not None else rng.choice(self.ids)
        ns = rng.choice([1, 1, 2])
        no = rng.choice([0, 1, 2, 3])
        scope = [(rng.choice([1, 2, 3, 4, 5]) if self.conformant or rng.random() < 0.8 else rng.choice([0, 6, 7, 255]),
                  rng.choice([1, 2, 4]) if self.conformant or rng.random() < 0.8 else 0) for _ in range(ns)]
        opts = [(rng.choice(self.t.v9_known), rng.choice([1, 2, 4, 8]) if self.conformant or rng.random() < 0.8 else 0) for _ in range(no)]
        return tid, scope, opts

    def v9_otemplate_record(self, tid, scope, opts):
        # the two lengths are in bytes; a parser that divides by 4 accepts 4k+1..4k+3 for k
        # specifiers: such a record must still come back as it was sent
        rs = self.rng.choice([1, 2, 3]) if (not self.conformant and self.rng.random() < 0.3) else 0
        ro = self.rng.choice([1, 2, 3]) if (not self.conformant and self.rng.random() < 0.3) else 0
        return (be(tid, 2) + be(4 * len(scope) + rs, 2) + be(4 * len(opts) + ro, 2)
                + b"".join(be(n, 2) + be(l, 2) for n, l in scope) + b"".join(be(n, 2) + be(l, 2) for n, l in opts))

    def v9_record(self, fs):
        out = b""
        for num, ln in fs:
            out += rand_value(self.rng, self.t.v9[num][2], ln, self.t.proto_parse_ok)
        return out

    def flowset(self, fid, body, pad=None, length=None):
        rng = self.rng
        if pad is None:
            pad = (-len(body)) % 4 if rng.random() < 0.6 else rng.randrange(0, 4)
        body = body + bytes(pad)
        return be(fid, 2) + be(4 + len(body) if length is None else length, 2) + body

    def v9_flowsets(self, n):
        """n random flowsets (bytes, description) in exporter order"""
        rng = self.rng
        out = []
        for _ in range(n):
            k = rng.random()
            have_t = list(self.v9_t)
            have_o = list(self.v9_o)
            if not self.conformant and rng.random() < 0.1:
                # a flowset header whose length field is below its own 4 bytes: the parser takes an
                # empty body and moves on; the packet still occupies those 4 bytes
                fid = rng.choice([0, 1] + have_t + have_o)
                out.append((be(fid, 2) + be(rng.choice([0, 1, 2, 3]), 2), ("S", fid)))
                continue
            if k < 0.3 or not (have_t or have_o):
                m = rng.choice([1, 1, 2, 3])
                body = b""
                desc = []
                for _ in range(m):
                    tid, fs = self.v9_template()
                    if tid in self.v9_o:
                        if self.kind_reuse:
                            del self.v9_o[tid]        # the new definition supersedes the options template
                        elif self.conformant:
                            continue
                    body += self.v9_template_record(tid, fs)
                    self.v9_t[tid] = fs
                    desc.append((tid, fs))
                if not desc:
                    continue
                out.append((self.flowset(0, body, pad=rng.choice([0, 0, 0, 1, 2, 3]) if not self.conformant else 0), ("T", desc)))
            elif k < 0.4:
                body = b""
                desc = []
                for _ in range(rng.choice([1, 1, 2, 3])):
                    tid, scope, opts = self.v9_otemplate()
                    # V9 looks ids up in the options map first: keep the two id spaces apart in
                    # conformant streams (RFC 3954: an id names one template)
                    if tid in self.v9_t:
                        if self.kind_reuse:
                            del self.v9_t[tid]
                        elif self.conformant:
                            continue
                    self.v9_o[tid] = (scope, opts)
                    body += self.v9_otemplate_record(tid, scope, opts)
                    desc.append((tid, scope, opts))
                if not desc:
                    continue
                out.append((self.flowset(1, body, pad=(-len(body)) % 4 if self.conformant else None), ("O", desc)))
            elif k < 0.5 and have_o:
                tid = rng.choice(have_o)
                scope, opts = self.v9_o[tid]
                nrec = rng.choice([1, 1, 1, 2, 3])
                body = b"".join(b"".join(rng.randbytes(l) for _, l in scope) + b"".join(rng.randbytes(l) for _, l in opts) for _ in range(nrec))
                out.append((self.flowset(tid, body), ("OD", tid, nrec)))
            elif have_t:
                tid = rng.choice(have_t)
                if self.conformant and tid in self.v9_o:
                    continue
                fs = self.v9_t[tid]
                nrec = rng.choice([0, 1, 1, 2, 3, 5, 12, 40]) if rng.random() < 0.97 else rng.choice([255, 256, 257])
                size = sum(l for _, l in fs)
                if size * nrec > 8000:
                    nrec = 8000 // max(1, size)
                recs = [self.v9_record(fs) for _ in range(nrec)]
                out.append((self.flowset(tid, b"".join(recs)), ("D", tid, nrec)))
        return out

    def v9_packet(self, nsets=None, count=None):
        rng = self.rng
        nsets = nsets if nsets is not None else rng.choice([1, 1, 2, 3, 4, 6])
        sets = self.v9_flowsets(nsets)
        hdr = be(9, 2) + be(len(sets) if count is None else count, 2) + be(rng.getrandbits(32), 4) + be(rng.getrandbits(32), 4) \
            + be(rng.getrandbits(32), 4) + be(rng.getrandbits(32), 4)
        return hdr + b"".join(s for s, _ in sets), [d for _, d in sets]

    # -- IPFIX
    def ix_field(self):
        rng = self.rng
        k = rng.random()
        ent = None
        if k < 0.25:
            num = rng.choice(self.t.ipfix_by_dtype[rng.choice(sorted(self.t.ipfix_by_dtype))])
        elif k < 0.7:
            num = rng.choice(self.t.ipfix_known)
        elif k < 0.8:
            num = rng.choice([0, 105, 106, 491, 492, 503, 504, 1000, 32767])
        elif k < 0.93:
            num = rng.choice([0, 1, 32767, rng.randrange(32768), rng.randrange(32768)])
            ent = rng.choice([0, 1, 9, 29305, 0xFFFFFFFF])
        else:
            num = rng.randrange(32768)
        dt = self.t.ipfix[num][2] if ent is None else "Vec"
        if dt in NATURAL:
            ln = rng.choice(NATURAL[dt])
        else:
            ln = rng.choice([1, 2, 3, 4, 5, 8, 16, 20, 65535, 65535])
        if not self.conformant and rng.random() < 0.25:
            ln = rng.choice([0, 0, 1, 2, 3, 4, 5, 6, 7, 8, 9, 16, 17, 255, 65535])
        return (num, ln, ent)

    def ix_fspec(self, f):
        num, ln, ent = f
        return be(num | 0x8000, 2) + be(ln, 2) + be(ent, 4) if ent is not None else be(num, 2) + be(ln, 2)

    def ix_template(self, tid=None):
        rng = self.rng
        tid = tid if tid is not None else rng.choice(self.ids)
        n = rng.choice([1, 1, 2, 3, 4, 6, 10]) if self.conformant else rng.choice([0, 1, 2, 3, 8])
        if rng.random() < 0.02:
            n = rng.choice([255, 256, 257])
        fs = [self.ix_field() for _ in range(n)]
        if fs and rng.random() < 0.1:
            fs.insert(rng.randrange(len(fs) + 1), rng.choice(fs))
        if rng.random() < 0.25:
            extra = [(8, 4, None), (12, 4, None), (7, 2, None), (11, 2, None), (4, 1, None), (22, 4, None), (21, 4, None),
                     (56, 6, None), (80, 6, None), (27, 16, None), (28, 16, None)]
            rng.shuffle(extra)
            fs = extra[: rng.randrange(1, len(extra) + 1)] + fs[: rng.randrange(0, 3)]
            rng.shuffle(fs)
        if self.conformant and fs and rng.random() < 0.06:
            # a zero-length field (RFC 7011 allows it; an octet array or string of no bytes), last
            # in the template half of the time: the record loop must not take it for "no progress"
            zf = (rng.choice(self.t.ipfix_by_dtype.get("String", [82]) + self.t.ipfix_by_dtype.get("Vec", [])), 0, None)
            fs.insert(len(fs) if rng.random() < 0.5 else rng.randrange(len(fs) + 1), zf)
        if self.conformant and all(l == 0 for _, l, _ in fs):
            fs.append((1, 4, None))
        old = self.ix_t.get(tid)
        if old and len(set(old)) > 1 and rng.random() < 0.35:
            fs = list(old)
            while fs == old:
                rng.shuffle(fs)
        return tid, fs

    def ix_value(self, f):
        rng = self.rng
        num, ln, ent = f
        dt = self.t.ipfix[num][2] if ent is None else "Vec"
        if ln == 65535:
            n = rng.choice([0, 1, 2, 5, 20, 253, 254, 255, 256, 300]) if dt not in NATURAL else rng.choice(NATURAL[dt])
            val = rand_value(rng, dt, n, self.t.proto_parse_ok)
            if n < 255 and rng.random() < 0.8:
                return be(n, 1) + val
            return b"\xff" + be(n, 2) + val
        return rand_value(rng, dt, ln, self.t.proto_parse_ok)

    def ix_set(self, sid, body, pad=None, length=None):
        if pad is None:
            pad = 0
        body = body + bytes(pad)
        return be(sid, 2) + be(4 + len(body) if length is None else length, 2) + body

    def ix_sets(self, n):
        rng = self.rng
        out = []
        for _ in range(n):
            k = rng.random()
            have_t = list(self.ix_t)
            have_o = list(self.ix_o)
            if k < 0.3 or not (have_t or have_o):
                tid, fs = self.ix_template()
                if tid in self.ix_o:
                    if self.kind_reuse:
                        del self.ix_o[tid]
                    elif self.conformant:
                        continue
                self.ix_t[tid] = fs
                body = be(tid, 2) + be(len(fs), 2) + b"".join(self.ix_fspec(f) for f in fs)
                out.append((self.ix_set(2, body, pad=0 if self.conformant else rng.choice([0, 0, 1, 2, 3])), ("T", [(tid, fs)])))
            elif k < 0.4:
                tid, fs = self.ix_template()
                if tid in self.ix_t:
                    if self.kind_reuse:
                        del self.ix_t[tid]
                    elif self.conformant:
                        continue
                sc = rng.randrange(0, len(fs) + 1) if fs else 0
                self.ix_o[tid] = (sc, fs)
                body = be(tid, 2) + be(len(fs), 2) + be(sc, 2) + b"".join(self.ix_fspec(f) for f in fs)
                out.append((self.ix_set(3, body, pad=0 if self.conformant else rng.choice([0, 0, 1, 2, 3])), ("O", [(tid, sc, fs)])))
            else:
                pool = [("t", i) for i in have_t] + [("o", i) for i in have_o]
                kind, tid = rng.choice(pool)
                fs = self.ix_t[tid] if kind == "t" else self.ix_o[tid][1]
                nrec = rng.choice([1, 1, 2, 3, 5, 12, 40]) if rng.random() < 0.97 else rng.choice([255, 256, 257])
                body = b""
                for _ in range(nrec):
                    if len(body) > 8000:
                        break
                    body += b"".join(self.ix_value(f) for f in fs)
                if not body:
                    continue
                if not self.conformant and rng.random() < 0.2 and len(body) > 1:
                    # a data set that stops in the middle of a record (inside a value, right after
                    # a length prefix, between the 0xff marker and its 16-bit length): the set and
                    # message lengths stay consistent, so the decoder gets all the way there
                    cut = rng.randrange(1, len(body))
                    body = body[:cut] + (b"\xff" if rng.random() < 0.3 else b"") + (b"\x00" if rng.random() < 0.2 else b"")
                minrec = sum((1 if l == 65535 else l) for _, l, _ in fs)
                # RFC 7011 3.3.2: padding is shorter than any allowable record (not only 0-3 octets)
                pad = rng.randrange(0, min(16, max(1, minrec))) if rng.random() < 0.4 else 0
                out.append((self.ix_set(tid, body, pad=pad), ("D" if kind == "t" else "OD", tid, nrec)))
        return out

    def ix_message(self, nsets=None, length=None):
        rng = self.rng
        nsets = nsets if nsets is not None else rng.choice([1, 1, 2, 3, 4, 6])
        sets = self.ix_sets(nsets)
        if rng.random() < 0.05:
            # RFC 7011 8.1 template withdrawal: a template record with field count 0; id 2 in set 2
            # (id 3 in set 3) withdraws all (options) templates.  Last in the message.
            sid = rng.choice([2, 2, 3])
            tid = rng.choice([sid, sid] + list(self.ix_t) + list(self.ix_o) + [256])
            sets.append((self.ix_set(sid, be(tid, 2) + be(0, 2)), ("W", sid, tid)))
        body = b"".join(s for s, _ in sets)
        hdr = be(10, 2) + be(16 + len(body) if length is None else length, 2) + be(rng.getrandbits(32), 4) \
            + be(rng.getrandbits(32), 4) + be(rng.getrandbits(32), 4)
        return hdr + body, [d for _, d in sets]


def minimal_packet(rng, v):
    """the shortest valid packet of a version: header only"""
    if v in (5, 7):
        return be(v, 2) + be(0, 2) + rng.randbytes(20)
    if v == 9:
        return be(9, 2) + be(0, 2) + rng.randbytes(16)
    return be(10, 2) + be(16, 2) + rng.randbytes(12)


def rand_packet(rng, ex, versions=(5, 7, 9, 10)):
    v = rng.choice(versions)
    if rng.random() < 0.06:
        return minimal_packet(rng, v), ("V%d" % v if v != 10 else "IPFIX", "minimal")
    if v in (5, 7):
        b, d = fixed_packet(rng, v)
        return b, ("V%d" % v, d)
    if v == 9:
        b, d = ex.v9_packet()
        return b, ("V9", d)
    b, d = ex.ix_message()
    return b, ("IPFIX", d)


def partition(rng, packets):
    """random partition of a packet list into calls (list of lists)"""
    calls = [[]]
    for p in packets:
        if calls[-1] and rng.random() < 0.5:
            calls.append([])
        calls[-1].append(p)
    return [c for c in calls if c]


def hexs(b):
    return b.hex() if b else "-"


class Case:
    def __init__(self, gen, ops, meta=None):
        self.gen = gen
        self.ops = ops          # list of op lines (without CASE)
        self.meta = meta or {}

    def text(self, idx):
        return "CASE %d %s\n%s\n" % (idx, self.gen, "\n".join(self.ops))


# ---------------------------------------------------------------- case streams

def conformant_stream(rng, tables, versions=(5, 7, 9, 10), npk=None, parsers=1, allowed=None, few_ids=False, kind_reuse=False):
    ex = [Exporter(rng, tables, True) for _ in range(parsers)]
    if few_ids:
        for e in ex:
            e.ids = [256, 257]
            e.kind_reuse = kind_reuse
    npk = npk if npk is not None else rng.choice([1, 2, 3, 4, 6, 8])
    ops = []
    pk = []
    for k in range(parsers):
        ops.append("P %d" % k)
        if allowed is not None:
            ops.append("A %d %s" % (k, ",".join(map(str, allowed)) if allowed else "-"))
    seq = []
    for _ in range(npk):
        k = rng.randrange(parsers)
        b, d = rand_packet(rng, ex[k], versions)
        seq.append((k, b, d))
    # group consecutive packets of the same parser into calls at random
    i = 0
    while i < len(seq):
        k = seq[i][0]
        buf = seq[i][1]
        j = i + 1
        while j < len(seq) and seq[j][0] == k and rng.random() < 0.5:
            buf += seq[j][1]
            j += 1
        ops.append("B %d %s" % (k, hexs(buf)))
        i = j
    return Case("conformant", ops, {"packets": [(k, b.hex(), d) for k, b, d in seq]})


def mutate(rng, b):
    """near-valid mutation of one packet's bytes"""
    b = bytearray(b)
    k = rng.random()
    if not b:
        return bytes(b)
    if k < 0.25:
        return bytes(b[: rng.randrange(0, len(b))])
    if k < 0.35:
        return bytes(b) + rng.randbytes(rng.choice([1, 2, 3]))
    if k < 0.7:
        # a 16-bit field at an even offset set to a boundary value or +-1
        off = rng.randrange(0, max(1, len(b) - 1)) & ~1
        if rng.random() < 0.35:
            # the fields every packet has: count / message length (offset 2), the first set's id and
            # length (IPFIX 16/18, V9 20/22); a random offset rarely lands on them in a long packet
            ver = int.from_bytes(b[:2], "big")
            off = rng.choice([2, 2, 2, 16, 18] if ver == 10 else [2, 2, 2, 20, 22] if ver == 9 else [2])
        if off + 2 <= len(b):
            cur = int.from_bytes(b[off : off + 2], "big")
            new = rng.choice(BOUNDARY16 + [(cur + 1) & 0xFFFF, (cur - 1) & 0xFFFF, (cur + 4) & 0xFFFF, (cur - 4) & 0xFFFF])
            b[off : off + 2] = be(new, 2)
        return bytes(b)
    if k < 0.85:
        i = rng.randrange(len(b))
        b[i] = rng.choice([0, 1, 0x7F, 0x80, 0xFF, b[i] ^ (1 << rng.randrange(8))])
        return bytes(b)
    i = rng.randrange(len(b))
    j = min(len(b), i + rng.choice([1, 2, 4, 8]))
    if rng.random() < 0.5:
        del b[i:j]
    else:
        b[i:i] = b[i:j]
    return bytes(b)


def header_field_case(rng, tables, versions=(5, 7, 9, 10)):
    """2-4 conformant packets in one buffer or one per call; in one of them the count / length
    field of the header (offset 2) or of the first set is a small or off-by-one value"""
    ex = Exporter(rng, tables, True)
    pk = [rand_packet(rng, ex, versions)[0] for _ in range(rng.choice([2, 3, 4]))]
    i = rng.randrange(len(pk))
    b = bytearray(pk[i])
    ver = int.from_bytes(b[:2], "big")
    off = rng.choice([2, 2, 18] if ver == 10 else [2, 2, 22] if ver == 9 else [2])
    if off + 2 <= len(b):
        cur = int.from_bytes(b[off : off + 2], "big")
        new = rng.choice(list(range(0, 21)) + [(cur + d) & 0xFFFF for d in (-2, -1, 1, 2, 3, 4)])
        b[off : off + 2] = be(new, 2)
    pk[i] = bytes(b)
    if rng.random() < 0.5:
        ops = ["P 0", "B 0 %s" % hexs(b"".join(pk))]
    else:
        ops = ["P 0"] + ["B 0 %s" % hexs(x) for x in pk]
    return Case("header-field", ops)


def length_sweep_case():
    """every small value of the count / length field of a header, each followed by a complete V5
    packet in the same buffer: what the first packet consumed decides where the second one starts"""
    v5 = be(5, 2) + be(1, 2) + bytes(20) + bytes(48)
    ops = ["P 0"]
    for L in range(0, 26):
        ops.append("B 0 " + hexs(be(10, 2) + be(L, 2) + bytes(12) + bytes(max(0, L - 16)) + v5))     # IPFIX message length
    for L in range(0, 10):
        ops.append("B 0 " + hexs(ipfix_msg([be(300, 2) + be(L, 2) + bytes(max(0, L - 4))]) + v5))       # IPFIX set length
        ops.append("B 0 " + hexs(v9_pkt([be(300, 2) + be(L, 2) + bytes(max(0, L - 4))]) + v5))          # V9 flowset length
    for c in range(0, 4):
        ops.append("B 0 " + hexs(be(9, 2) + be(c, 2) + bytes(16) + v5))                                  # V9 count, no flowsets present
    return Case("length-sweep", ops)


def mutated_stream(rng, tables, versions=(5, 7, 9, 10), conformant_templates=False):
    ex = Exporter(rng, tables, conformant_templates)
    npk = rng.choice([1, 2, 3, 4, 6])
    ops = ["P 0"]
    for _ in range(npk):
        b, _d = rand_packet(rng, ex, versions)
        if rng.random() < 0.6:
            b = mutate(rng, b)
        if rng.random() < 0.3:
            b2, _ = rand_packet(rng, ex, versions)
            b = b + b2
        ops.append("B 0 %s" % hexs(b))
    return Case("mutated", ops)


def malformed(rng):
    k = rng.random()
    if k < 0.1:
        b = b""
    elif k < 0.2:
        b = rng.randbytes(1)
    elif k < 0.7:
        b = be(rng.choice([5, 7, 9, 10]), 2) + rng.randbytes(rng.choice([0, 1, 2, 3, 10, 18, 20, 22, 30, 47, 48, 100, 300]))
    elif k < 0.8:
        b = be(rng.choice([0, 1, 4, 6, 8, 11, 255, 256, 65535]), 2) + rng.randbytes(rng.choice([0, 5, 40]))
    else:
        b = rng.randbytes(rng.choice([2, 3, 16, 64, 200]))
    return Case("malformed", ["P 0", "B 0 %s" % hexs(b)])


# ---------------------------------------------------------------- packet sequences (C11, C12, C14, C06)

def packet_sequence(rng, tables, npk=None, versions=(5, 7, 9, 10), conformant=True, ex=None):
    """-> list of (bytes, version, description), one exporter"""
    ex = ex or Exporter(rng, tables, conformant)
    npk = npk if npk is not None else rng.choice([1, 2, 3, 4, 5, 6])
    out = []
    for _ in range(npk):
        b, d = rand_packet(rng, ex, versions)
        ver = int.from_bytes(b[:2], "big")
        out.append((b, ver, d))
    return out


def all_partitions(seq):
    """all 2^(n-1) ways of cutting seq into consecutive non-empty groups"""
    n = len(seq)
    out = []
    for mask in range(1 << (n - 1)):
        groups = [[seq[0]]]
        for i in range(1, n):
            if mask >> (i - 1) & 1:
                groups.append([])
            groups[-1].append(seq[i])
        out.append(groups)
    return out


def v9_boundaries(p):
    """offsets in a V9 packet at which a cut leaves whole flowsets only"""
    out = {20}
    pos = 20
    while pos + 4 <= len(p):
        ln = int.from_bytes(p[pos + 2 : pos + 4], "big")
        pos += max(ln, 4)
        out.add(pos)
    return out


# ---------------------------------------------------------------- stress families (C01, C15)

def ipfix_msg(sets):
    body = b"".join(sets)
    return be(10, 2) + be(16 + len(body), 2) + bytes(12) + body


def ipfix_set(sid, body):
    return be(sid, 2) + be(4 + len(body), 2) + body


def v9_pkt(flowsets, count=None):
    return be(9, 2) + be(len(flowsets) if count is None else count, 2) + bytes(16) + b"".join(flowsets)


def v9_fs(fid, body):
    return be(fid, 2) + be(4 + len(body), 2) + body


def stress_cases(rng, big=False):
    out = []
    # one IPFIX data set with very many one-byte records (W2)
    n = 60000 if big else 20000
    tmpl = ipfix_set(2, be(256, 2) + be(1, 2) + be(4, 2) + be(1, 2))
    out.append(Case("stress:ipfix-records", ["P 0", "B 0 " + hexs(ipfix_msg([tmpl])), "B 0 " + hexs(ipfix_msg([ipfix_set(256, bytes([6]) * n)]))]))
    # very many minimal messages chained in one buffer (W3)
    n = 4095 if big else 1500
    out.append(Case("stress:chained-ipfix", ["P 0", "B 0 " + hexs((be(10, 2) + be(16, 2) + bytes(12)) * n)]))
    out.append(Case("stress:chained-v5", ["P 0", "B 0 " + hexs((be(5, 2) + be(0, 2) + bytes(20)) * (2700 if big else 900))]))
    out.append(Case("stress:chained-v9", ["P 0", "B 0 " + hexs((be(9, 2) + be(0, 2) + bytes(16)) * (3200 if big else 900))]))
    # V9 template of total size 0, then data (W1); template with no fields
    out.append(Case("stress:v9-zero-template", ["P 0", "B 0 000900020000000000000000000000000000000000000008010000000100000801020304"]))
    out.append(Case("stress:v9-zero-len-fields", ["P 0", "B 0 " + hexs(v9_pkt([v9_fs(0, be(300, 2) + be(3, 2) + (be(1, 2) + be(0, 2)) * 3), v9_fs(300, bytes(40))]))]))
    # count / length fields far beyond the bytes present
    out.append(Case("stress:v5-count-65535", ["P 0", "B 0 " + hexs(be(5, 2) + be(65535, 2) + bytes(20) + bytes(48 * 3))]))
    out.append(Case("stress:v9-count-65535", ["P 0", "B 0 " + hexs(v9_pkt([v9_fs(0, be(256, 2) + be(65535, 2) + be(1, 2) + be(4, 2))], count=65535))]))
    out.append(Case("stress:ipfix-length-65535", ["P 0", "B 0 " + hexs(be(10, 2) + be(65535, 2) + bytes(12) + bytes(100))]))
    out.append(Case("stress:set-length-0", ["P 0", "B 0 " + hexs(ipfix_msg([be(2, 2) + be(0, 2)] * 50)), "B 0 " + hexs(v9_pkt([be(0, 2) + be(0, 2)] * 50))]))
    # many templates per flowset, many fields per template
    nt = 8000 if big else 2000
    out.append(Case("stress:v9-many-templates", ["P 0", "B 0 " + hexs(v9_pkt([v9_fs(0, b"".join(be(256 + i, 2) + be(1, 2) + be(1, 2) + be(4, 2) for i in range(nt)))]))]))
    nf = 14000 if big else 3000
    out.append(Case("stress:v9-many-fields", ["P 0", "B 0 " + hexs(v9_pkt([v9_fs(0, be(256, 2) + be(nf, 2) + (be(1, 2) + be(1, 2)) * nf)])), "B 0 " + hexs(v9_pkt([v9_fs(256, bytes(nf + 10))]))]))
    out.append(Case("stress:ipfix-many-fields", ["P 0", "B 0 " + hexs(ipfix_msg([ipfix_set(2, be(256, 2) + be(nf, 2) + (be(1, 2) + be(1, 2)) * nf)])), "B 0 " + hexs(ipfix_msg([ipfix_set(256, bytes(nf + 10))]))]))
    # V9 options template with a zero-length scope field, then options data (many0 progress error)
    out.append(Case("stress:v9-zero-scope", ["P 0", "B 0 " + hexs(v9_pkt([v9_fs(1, be(260, 2) + be(4, 2) + be(4, 2) + be(1, 2) + be(0, 2) + be(1, 2) + be(4, 2)), v9_fs(260, bytes(8))]))]))
    # variable-length fields with lying prefixes
    out.append(Case("stress:ipfix-varlen", ["P 0", "B 0 " + hexs(ipfix_msg([ipfix_set(2, be(256, 2) + be(2, 2) + be(82, 2) + be(65535, 2) + be(1, 2) + be(4, 2))])),
                                            "B 0 " + hexs(ipfix_msg([ipfix_set(256, b"\xff\xff\xff" + bytes(50))])), "B 0 " + hexs(ipfix_msg([ipfix_set(256, b"\xff\x00\x02ab" + bytes(4) + b"\x00" + bytes(4) + b"\xfe" + bytes(10))])),
                                            # the set ends on the 0xff marker, one byte after it, on a length byte with nothing behind it
                                            "B 0 " + hexs(ipfix_msg([ipfix_set(256, b"\x02ab" + bytes(4) + b"\xff")])), "B 0 " + hexs(ipfix_msg([ipfix_set(256, b"\xff")])),
                                            "B 0 " + hexs(ipfix_msg([ipfix_set(256, b"\xff\x00")])), "B 0 " + hexs(ipfix_msg([ipfix_set(256, b"\x05ab")])),
                                            "B 0 " + hexs(ipfix_msg([ipfix_set(256, b"\x00" + bytes(4) + b"\x03")]))]))
    # a large cache from history, then many small packets that need no template at all: cost must
    # not depend on what the parser holds
    nf = 12000 if big else 4000
    chain = 400 if big else 200
    out.append(Case("stress:ipfix-big-cache-then-chain",
                    ["P 0", "B 0 " + hexs(ipfix_msg([ipfix_set(2, be(256, 2) + be(nf, 2) + (be(1, 2) + be(1, 2)) * nf)])),
                     "B 0 " + hexs((be(10, 2) + be(16, 2) + bytes(12)) * chain),
                     "B 0 " + hexs(ipfix_msg([ipfix_set(2, be(257, 2) + be(1, 2) + be(4, 2) + be(1, 2))]) + ipfix_msg([ipfix_set(257, bytes([6]) * 4)]) * chain)]))
    out.append(Case("stress:v9-big-cache-then-chain",
                    ["P 0", "B 0 " + hexs(v9_pkt([v9_fs(0, be(256, 2) + be(nf, 2) + (be(1, 2) + be(1, 2)) * nf)])),
                     "B 0 " + hexs((be(9, 2) + be(0, 2) + bytes(16)) * chain),
                     "B 0 " + hexs(v9_pkt([v9_fs(0, be(257, 2) + be(1, 2) + be(4, 2) + be(1, 2))]) + v9_pkt([v9_fs(257, bytes([6]) * 4)]) * chain)]))
    # one 1-byte field plus many zero-length fields that cannot be decoded from 0 bytes (unsigned
    # counters): every record fails, nothing is output, so nothing may be allocated for it
    nz = 200
    body = bytes(60000 if big else 20000)
    out.append(Case("stress:ipfix-zero-len-undecodable",
                    ["P 0", "B 0 " + hexs(ipfix_msg([ipfix_set(2, be(256, 2) + be(nz + 1, 2) + be(4, 2) + be(1, 2) + (be(1, 2) + be(0, 2)) * nz)])),
                     "B 0 " + hexs(ipfix_msg([ipfix_set(256, body)]))]))
    out.append(Case("stress:v9-zero-len-undecodable",
                    ["P 0", "B 0 " + hexs(v9_pkt([v9_fs(0, be(256, 2) + be(nz + 1, 2) + be(4, 2) + be(1, 2) + (be(1, 2) + be(0, 2)) * nz)])),
                     "B 0 " + hexs(v9_pkt([v9_fs(256, body)]))]))
    # exact 16-bit boundaries: an IPFIX message of exactly 65,535 bytes (the largest its length field
    # can say), the same followed by another message (buffer > 64 KiB), a V9 flowset of length 65,535
    t1 = ipfix_set(2, be(256, 2) + be(1, 2) + be(4, 2) + be(1, 2))
    full = be(10, 2) + be(65535, 2) + bytes(12) + be(256, 2) + be(65535 - 16, 2) + bytes([6]) * (65535 - 20)
    out.append(Case("stress:ipfix-message-65535", ["P 0", "B 0 " + hexs(ipfix_msg([t1])), "B 0 " + hexs(full), "B 0 " + hexs(full + ipfix_msg([ipfix_set(256, bytes([17]) * 3)]))]))
    out.append(Case("stress:v9-flowset-65535", ["P 0", "B 0 " + hexs(v9_pkt([v9_fs(0, be(256, 2) + be(1, 2) + be(4, 2) + be(1, 2))])),
                                                 "B 0 " + hexs(be(9, 2) + be(1, 2) + bytes(16) + be(256, 2) + be(65535, 2) + bytes([6]) * (65535 - 4))]))
    # durations of 8 and 16 bytes (export Err), 24-bit numbers
    out.append(Case("stress:durations", ["P 0", "B 0 " + hexs(v9_pkt([v9_fs(0, be(256, 2) + be(3, 2) + be(21, 2) + be(8, 2) + be(22, 2) + be(16, 2) + be(1, 2) + be(3, 2)), v9_fs(256, b"\xff" * 27)]))]))
    return out


# ---------------------------------------------------------------- data before template (C07)

def v9_template_then_data(rng, ex, tid=None):
    """-> (template packet, data packet, template id, number of records)"""
    tid, fs = ex.v9_template(tid)
    while sum(l for _, l in fs) == 0:
        tid, fs = ex.v9_template(tid)
    tp = v9_pkt([ex.flowset(0, ex.v9_template_record(tid, fs), pad=0)])
    nrec = rng.choice([1, 2, 5])
    dp_sets = []
    k = rng.random()
    if k < 0.5:
        # decodable flowsets before the one under test: a template for another id, and data for it
        oid = tid + 1 if tid < 65535 else 256
        _o, ofs = ex.v9_template(oid)
        dp_sets.append(ex.flowset(0, ex.v9_template_record(oid, ofs), pad=0))
        if sum(l for _, l in ofs) > 0 and k < 0.3:
            dp_sets.append(ex.flowset(oid, ex.v9_record(ofs)))
    dp_sets.append(ex.flowset(tid, b"".join(ex.v9_record(fs) for _ in range(nrec))))
    if rng.random() < 0.2:
        dp_sets.append(ex.flowset(0, ex.v9_template_record(tid + 2 if tid < 65530 else 300, [(1, 4)]), pad=0))
    dp = v9_pkt(dp_sets)
    return tp, dp, tid, nrec


def ix_template_then_data(rng, ex, tid=None):
    tid, fs = ex.ix_template(tid)
    tset = ex.ix_set(2, be(tid, 2) + be(len(fs), 2) + b"".join(ex.ix_fspec(f) for f in fs))
    nrec = rng.choice([1, 2, 5])
    body = b"".join(b"".join(ex.ix_value(f) for f in fs) for _ in range(nrec))
    if not body:
        body = b"\x00"
    dset = ex.ix_set(tid, body)
    if rng.random() < 0.5:
        # a decodable set before the one under test, in the same message
        oid = tid + 1 if tid < 65535 else 256
        _o, ofs = ex.ix_template(oid)
        dset = ex.ix_set(2, be(oid, 2) + be(len(ofs), 2) + b"".join(ex.ix_fspec(f) for f in ofs)) + dset
    return ipfix_msg([tset]), dset, tid, nrec


def many_templates_case(n=1100, twins=True):
    """more template ids than any plausible cache cap, then data for every id, on twin parsers"""
    tmpl = b"".join(be(256 + i, 2) + be(1, 2) + be(1, 2) + be(4, 2) for i in range(n))
    ops = ["P 0", "P 1"] if twins else ["P 0"]
    pk = [v9_pkt([v9_fs(0, tmpl)])]
    for lo in range(0, n, 400):
        pk.append(v9_pkt([v9_fs(256 + i, be(i, 4)) for i in range(lo, min(n, lo + 400))]))
    for p in pk:
        ops.append("B 0 " + hexs(p))
        if twins:
            ops.append("B 1 " + hexs(p))
    return Case("stress:many-template-ids", ops, {"twins": twins})


def fill_caches_case():
    """EVERY template id there is (256..65535), for V9 and for IPFIX, in one buffer each; then data
    for ids at the ends and in the middle.  No cache may refuse, drop or cap any of them.  The
    reference model keeps its caches in association lists (quadratic here), so this case is judged
    by the oracle on the crate's observations alone (meta oracle_only)."""
    ids = list(range(256, 65536))
    ops = ["P 0"]
    buf = b""
    for lo in range(0, len(ids), 8000):
        buf += v9_pkt([v9_fs(0, b"".join(be(i, 2) + be(1, 2) + be(1, 2) + be(4, 2) for i in ids[lo : lo + 8000]))])
    ops.append("B 0 " + hexs(buf))
    probe = [256, 257, 16383, 16384, 16385, 32767, 32768, 40000, 65534, 65535]
    ops.append("B 0 " + hexs(v9_pkt([v9_fs(i, be(i, 4)) for i in probe])))
    buf = b""
    for lo in range(0, len(ids), 4000):
        buf += ipfix_msg([ipfix_set(2, be(i, 2) + be(1, 2) + be(1, 2) + be(4, 2)) for i in ids[lo : lo + 4000]])
    ops.append("B 0 " + hexs(buf))
    ops.append("B 0 " + hexs(ipfix_msg([ipfix_set(i, be(i, 4)) for i in probe])))
    return Case("stress:fill-caches", ops, {"oracle_only": True})


def large_buffer_case(rng, tables, minimum=70000):
    """one call with more than 64 KiB of ordinary chained packets, and the same packets one per call"""
    ex = Exporter(rng, tables, True)
    pk = []
    total = 0
    while total < minimum:
        b, _d = rand_packet(rng, ex)
        pk.append(b)
        total += len(b)
    ops = ["P 0", "B 0 " + hexs(b"".join(pk)), "P 1"] + ["B 1 " + hexs(b) for b in pk]
    return Case("large-buffer", ops, {"n": len(pk)})


def many_packets_case(rng, tables, n=None):
    """hundreds of small packets chained in one call (more than any 8-bit counter holds), and the
    same packets one per call"""
    n = n or rng.choice([257, 300, 513])
    ex = Exporter(rng, tables, True)
    ex.ids = [256, 257]
    pk = []
    for i in range(n):
        k = rng.random()
        if k < 0.5:
            pk.append(minimal_packet(rng, rng.choice([5, 7, 9, 10])))
        elif k < 0.7:
            pk.append(fixed_packet(rng, rng.choice([5, 7]), nrec=1)[0])
        else:
            pk.append(rand_packet(rng, ex, (9, 10))[0])
    ops = ["P 0", "B 0 " + hexs(b"".join(pk)), "P 1"] + ["B 1 " + hexs(b) for b in pk]
    return Case("many-packets", ops, {"n": n})


def toggling_case(rng, tables):
    """one parser whose allowed_versions set is changed between calls: what was filtered must have
    left no trace, what was learned while allowed must still be there"""
    ex = Exporter(rng, tables, True)
    ex.ids = [256, 257, 300]
    ops = ["P 0"]
    for _ in range(rng.choice([4, 6, 10])):
        allowed = [v for v in (5, 7, 9, 10) if rng.random() < 0.6]
        ops.append("A 0 " + (",".join(map(str, allowed)) if allowed else "-"))
        buf = b"".join(rand_packet(rng, ex)[0] for _ in range(rng.choice([1, 2, 3])))
        ops.append("B 0 " + hexs(buf))
    return Case("toggling-allowed", ops)


def expiry_case(n=6000):
    """a template sent ONCE, then thousands of packets that neither use nor refresh it, then data for
    it: the template must still be there (no lifetime, no sweep, no count-based pruning), V9 and IPFIX"""
    ops = ["P 0",
           "B 0 " + hexs(v9_pkt([v9_fs(0, be(256, 2) + be(1, 2) + be(1, 2) + be(4, 2))])),
           "B 0 " + hexs(ipfix_msg([ipfix_set(2, be(256, 2) + be(1, 2) + be(1, 2) + be(4, 2))]))]
    other = v9_pkt([v9_fs(0, be(300, 2) + be(1, 2) + be(2, 2) + be(4, 2))])
    ops.append("B 0 " + hexs(other))
    ops.append("B 0 " + hexs(v9_pkt([v9_fs(300, be(7, 4))]) * n))
    ops.append("B 0 " + hexs(v9_pkt([v9_fs(256, be(1, 4))])))
    iother = ipfix_msg([ipfix_set(2, be(300, 2) + be(1, 2) + be(2, 2) + be(4, 2))])
    ops.append("B 0 " + hexs(iother))
    ops.append("B 0 " + hexs(ipfix_msg([ipfix_set(300, be(7, 4))]) * n))
    ops.append("B 0 " + hexs(ipfix_msg([ipfix_set(256, be(1, 4))])))
    return Case("stress:template-expiry", ops, {"oracle_only": n > 3000})
