"""Property oracles: executable statements of the properties over the *crate's* observations
only (independent of the Coq model).  Used to search for a failing input when a proof
obligation or the correspondence breaks, and as a cross-check on every run.  An oracle returns
a list of failures; each failure is (class_or_None, message).  A failure whose class is listed
in known_findings.json is printed as KNOWN-FINDING, any other is a violation.
"""
import canon
from canon import get, plain

CISCO_V5_H = [("count", 2, 2), ("sys_up_time", 4, 4), ("unix_secs", 8, 4), ("unix_nsecs", 12, 4),
              ("flow_sequence", 16, 4), ("engine_type", 20, 1), ("engine_id", 21, 1), ("sampling_interval", 22, 2)]
CISCO_V5_R = [("src_addr", 0, 4), ("dst_addr", 4, 4), ("next_hop", 8, 4), ("input", 12, 2), ("output", 14, 2),
              ("d_pkts", 16, 4), ("d_octets", 20, 4), ("first", 24, 4), ("last", 28, 4), ("src_port", 32, 2),
              ("dst_port", 34, 2), ("pad1", 36, 1), ("tcp_flags", 37, 1), ("protocol_number", 38, 1), ("tos", 39, 1),
              ("src_as", 40, 2), ("dst_as", 42, 2), ("src_mask", 44, 1), ("dst_mask", 45, 1), ("pad2", 46, 2)]
CISCO_V7_H = [("count", 2, 2), ("sys_up_time", 4, 4), ("unix_secs", 8, 4), ("unix_nsecs", 12, 4),
              ("flow_sequence", 16, 4), ("reserved", 20, 4)]
CISCO_V7_R = [("src_addr", 0, 4), ("dst_addr", 4, 4), ("next_hop", 8, 4), ("input", 12, 2), ("output", 14, 2),
              ("d_pkts", 16, 4), ("d_octets", 20, 4), ("first", 24, 4), ("last", 28, 4), ("src_port", 32, 2),
              ("dst_port", 34, 2), ("flags_fields_valid", 36, 1), ("tcp_flags", 37, 1), ("protocol_number", 38, 1),
              ("tos", 39, 1), ("src_as", 40, 2), ("dst_as", 42, 2), ("src_mask", 44, 1), ("dst_mask", 45, 1),
              ("flags_fields_invalid", 46, 2), ("router_src", 48, 4)]
IP_FIELDS = {"src_addr", "dst_addr", "next_hop", "router_src"}

# IANA protocol numbers 0..144 as the names the crate's enum uses for them (the enum is the
# IANA list); kept here as an independent copy so a change of the enum or of either table shows.
IANA = ("Hopopt Icmp Igmp Ggp Ipv4 St Tcp Cbt Egp Igp Bbcrccmon Nvpii Pup Argus Emcon Xnet Chaos Udp Mux Dcnmeas Hmp Prm "
        "Xnxidp Trunk1 Trunk2 Leaf1 Leaf2 Rdp Irtp Isotp4 Netblt Mfensp Meritinp Dccp").split()


def ipv4(n):
    return "%d.%d.%d.%d" % ((n >> 24) & 255, (n >> 16) & 255, (n >> 8) & 255, n & 255)


def elem_kind(e):
    return e[0][0]


def elem_body(e):
    return e[0][1]


def wire_len(e):
    """bytes a decoded packet occupied, from its own header fields only"""
    k = elem_kind(e)
    b = elem_body(e)
    h = get(b, "header")
    if k == "V5":
        return 24 + 48 * get(h, "count")
    if k == "V7":
        return 24 + 52 * get(h, "count")
    if k == "IPFix":
        return max(get(h, "length"), 16)
    if k == "V9":
        return 20 + sum(max(get(get(fs, "header"), "length"), 4) for fs in get(b, "flowsets"))
    return None


def parse_ops(case):
    """-> list of (op, parser, bytes|None, raw tokens) for the observation-producing ops"""
    out = []
    allowed = {}
    for line in case.ops:
        t = line.split()
        if t[0] == "A":
            allowed[int(t[1])] = [] if t[2] == "-" else (range(65536) if t[2] == "*" else [int(v) for v in t[2].split(",")])
        elif t[0] in ("B", "F"):
            out.append((t[0], int(t[1]), bytes.fromhex(t[2]) if t[2] != "-" else b"", allowed.get(int(t[1]), [5, 7, 9, 10])))
        elif t[0] in ("E5", "E7"):
            out.append((t[0], None, None, t[1:]))
    return out


# ---------------------------------------------------------------- C01

def c01(case, obs, crash):
    f = []
    if crash:
        f.append((None, "process %s" % crash))
    for k, o in enumerate(obs):
        if get(o, "PANIC") is not None:
            f.append((None, "op %d: parse_bytes panicked: %s" % (k, get(o, "PANIC"))))
        if get(o, "CRASH") is not None:
            f.append((None, "op %d: %s" % (k, get(o, "CRASH"))))
        for key in ("X", "C"):
            for j, x in enumerate(get(o, key) or []):
                if x == "PANIC":
                    f.append((None, "op %d elem %d: %s panicked" % (k, j, {"X": "to_be_bytes", "C": "as_netflow_common"}[key])))
        if get(o, "R") in ("PANIC", "SERERR"):
            f.append((None, "op %d: JSON serialization %s" % (k, get(o, "R"))))
    return f


# ---------------------------------------------------------------- C02

def c02(case, obs, crash):
    f = []
    ops = [o for o in parse_ops(case) if o[0] == "B"]
    for k, (o, op) in enumerate(zip(obs, ops)):
        R = get(o, "R")
        if not isinstance(R, list) or isinstance(R, canon.Pairs):
            continue
        x = op[2]
        allowed = op[3]
        if not x:
            if R:
                f.append((None, "op %d: empty buffer gave %d elements" % (k, len(R))))
            continue
        pos = 0
        for j, e in enumerate(R):
            if elem_kind(e) == "Error":
                if j != len(R) - 1:
                    f.append((None, "op %d: Error element at %d is not last" % (k, j)))
                rem = bytes(get(elem_body(e), "remaining"))
                if rem != x[pos:]:
                    f.append((None, "op %d: error remaining is not the unconsumed suffix (consumed %d of %d, remaining %d bytes)" % (k, pos, len(x), len(rem))))
                pos = len(x)
            else:
                pos += wire_len(e)
                if pos > len(x):
                    f.append((None, "op %d: element %d ends at %d beyond the buffer (%d)" % (k, j, pos, len(x))))
        if not (R and elem_kind(R[-1]) == "Error") and pos < len(x):
            if len(x) - pos >= 2:
                v = int.from_bytes(x[pos : pos + 2], "big")
                if v in allowed:
                    f.append((None, "op %d: result stops at %d of %d although version %d is allowed" % (k, pos, len(x), v)))
            else:
                f.append((None, "op %d: result stops at %d of %d with a 1-byte tail and no error" % (k, pos, len(x))))
    return f


# ---------------------------------------------------------------- C03

def proto_expect(n, name, variants):
    """class or None / message: is `name` acceptable for protocol number n"""
    if n <= 144:
        want = variants.get(n)
        if name != want:
            return ("K_C03_proto" if n in (0, 1, 144) else None, "protocol %d named %s, IANA/enum says %s" % (n, name, want))
    elif n <= 254:
        if name != "Unknown":
            return (None, "protocol %d named %s, expected Unknown" % (n, name))
    else:
        if name not in ("Unknown", "Reserved"):
            return (None, "protocol 255 named %s" % name)
    return None


def c03(case, obs, crash, variants):
    f = []
    ops = [o for o in parse_ops(case) if o[0] == "B"]
    for k, (o, op) in enumerate(zip(obs, ops)):
        R = get(o, "R")
        if not isinstance(R, list) or isinstance(R, canon.Pairs):
            continue
        x = op[2]
        allowed = op[3]
        pos = 0
        j = 0
        while pos < len(x):
            if len(x) - pos < 2:
                break
            v = int.from_bytes(x[pos : pos + 2], "big")
            if v not in (5, 7) or v not in allowed:
                break
            HT, RT, rs = (CISCO_V5_H, CISCO_V5_R, 48) if v == 5 else (CISCO_V7_H, CISCO_V7_R, 52)
            p = x[pos:]
            cnt = int.from_bytes(p[2:4], "big") if len(p) >= 4 else None
            complete = cnt is not None and len(p) >= 24 + rs * cnt
            if j >= len(R):
                f.append((None, "op %d: no element for the V%d packet at offset %d" % (k, v, pos)))
                break
            e = R[j]
            if not complete:
                if elem_kind(e) != "Error":
                    f.append((None, "op %d: short V%d packet at %d reported as %s" % (k, v, pos, elem_kind(e))))
                elif bytes(get(elem_body(e), "remaining")) != p:
                    f.append((None, "op %d: short V%d packet: error remaining differs" % (k, v)))
                break
            if elem_kind(e) != "V%d" % v:
                f.append((None, "op %d: complete V%d packet at %d reported as %s" % (k, v, pos, elem_kind(e))))
                break
            b = elem_body(e)
            h = plain(get(b, "header"))
            if h.get("version") != v:
                f.append((None, "op %d: header.version %r" % (k, h.get("version"))))
            for name, off, w in HT:
                want = int.from_bytes(p[off : off + w], "big")
                if h.get(name) != want:
                    f.append((None, "op %d: V%d header.%s = %r, bytes at offset %d say %d" % (k, v, name, h.get(name), off, want)))
            recs = get(b, "flowsets")
            if len(recs) != cnt:
                f.append((None, "op %d: V%d count %d but %d records" % (k, v, cnt, len(recs))))
            for i, r in enumerate(recs[:cnt]):
                r = plain(r)
                base = 24 + rs * i
                for name, off, w in RT:
                    want = int.from_bytes(p[base + off : base + off + w], "big")
                    got = r.get(name)
                    if name in IP_FIELDS:
                        want = ipv4(want)
                    if got != want:
                        f.append((None, "op %d: V%d record %d %s = %r, bytes at offset %d say %r" % (k, v, i, name, got, base + off, want)))
                pe = proto_expect(r.get("protocol_number"), r.get("protocol_type"), variants)
                if pe:
                    f.append(pe)
            pos += 24 + rs * cnt
            j += 1
    return f


# ---------------------------------------------------------------- C08

def c08(case, obs, crash):
    f = []
    ops = parse_ops(case)
    for k, (o, op) in enumerate(zip(obs, ops)):
        if op[0] in ("E5", "E7"):
            orig = get(o, "orig")
            back = get(o, "back")
            if canon.diff(orig, back) is not None:
                f.append((None, "op %d: %s: parse(to_be_bytes(v)) != v: %s" % (k, op[0], canon.diff(orig, back))))
            continue
        if op[0] != "B":
            continue
        R = get(o, "R")
        X = get(o, "X")
        if not isinstance(R, list) or isinstance(R, canon.Pairs):
            continue
        x = op[2]
        pos = 0
        for j, e in enumerate(R):
            if elem_kind(e) == "Error":
                break
            n = wire_len(e)
            if elem_kind(e) in ("V5", "V7"):
                if X[j] != x[pos : pos + n].hex():
                    f.append((None, "op %d: V5/V7 element %d: to_be_bytes differs from the %d bytes at offset %d" % (k, j, n, pos)))
            pos += n
    return f


# ---------------------------------------------------------------- helpers for multi-parser cases

def by_parser(case, obs):
    """-> dict parser -> list of (op tuple, observation) in order (B ops only)"""
    ops = [o for o in parse_ops(case)]
    out = {}
    for op, o in zip(ops, obs):
        if op[0] == "B":
            out.setdefault(op[1], []).append((op, o))
    return out


def results_of(pairs):
    """concatenated result list and final caches of a parser's calls"""
    R = []
    S = None
    for _op, o in pairs:
        r = get(o, "R")
        if isinstance(r, list) and not isinstance(r, canon.Pairs):
            R.extend(r)
        S = get(o, "S", S)
    return R, S


def has_error(R):
    return any(elem_kind(e) == "Error" for e in R)


# ---------------------------------------------------------------- C11

def c11(case, obs, crash):
    """meta: parser 0 got everything in one call; the other parsers got the same packet
    sequence under other partitions.  Results and final caches must coincide (only demanded
    when no packet of the sequence is rejected)."""
    f = []
    bp = by_parser(case, obs)
    if 0 not in bp:
        return f
    R0, S0 = results_of(bp[0])
    if has_error(R0):
        return f
    for k in sorted(bp):
        if k == 0:
            continue
        Rk, Sk = results_of(bp[k])
        if has_error(Rk):
            return f
        d = canon.diff(R0, Rk, "R")
        if d:
            f.append((None, "one call vs partition on parser %d: %s" % (k, d)))
        d = canon.diff(S0, Sk, "S")
        if d:
            f.append((None, "final caches, one call vs partition on parser %d: %s" % (k, d)))
    return f


# ---------------------------------------------------------------- C12

def elem_version(e):
    k = elem_kind(e)
    if k == "V5":
        return 5
    if k == "V7":
        return 7
    if k == "V9":
        return 9
    if k == "IPFix":
        return 10
    rem = get(elem_body(e), "remaining")
    if len(rem) >= 2:
        return rem[0] * 256 + rem[1]
    return None


def c12(case, obs, crash):
    """parser 0: allowed set S; parser 1: every version allowed, same buffers; parser 2 (when
    present): every version allowed, fed only the prefix before the first disallowed packet."""
    f = []
    bp = by_parser(case, obs)
    if 0 not in bp or 1 not in bp:
        return f
    for (op0, o0), (op1, o1) in zip(bp[0], bp[1]):
        allowed = op0[3]
        R0 = get(o0, "R")
        R1 = get(o1, "R")
        if not isinstance(R0, list) or not isinstance(R1, list):
            continue
        want = []
        for e in R1:
            v = elem_version(e)
            if v is not None and v not in allowed:
                break
            want.append(e)
        d = canon.diff(want, R0, "R")
        if d:
            f.append((None, "allowed %s: result is not the all-allowed result cut at the first disallowed version: %s" % (allowed, d)))
        for e in R0:
            if elem_kind(e) == "Error":
                err = get(elem_body(e), "error")
                if err[0][0] == "UnknownVersion":
                    rem = bytes(get(elem_body(e), "remaining"))
                    v = rem[0] * 256 + rem[1]
                    if v in (5, 7, 9, 10) or v not in allowed or bytes(err[0][1]) != rem[2:]:
                        f.append((None, "UnknownVersion error for version %d (allowed %s)" % (v, allowed)))
    if 2 in bp and len(bp[0]) == 1 and len(bp[2]) == 1:
        d = canon.diff(get(bp[0][0][1], "S"), get(bp[2][0][1], "S"), "S")
        if d:
            f.append((None, "caches after the filtered call differ from the caches after the allowed prefix alone: %s" % d))
        d = canon.diff(get(bp[0][0][1], "R"), get(bp[2][0][1], "R"), "R")
        if d and not has_error(get(bp[2][0][1], "R") or []):
            f.append((None, "filtered result differs from the result of the allowed prefix alone: %s" % d))
    return f


# ---------------------------------------------------------------- C14

def c14(case, obs, crash):
    """meta['cuts']: parser k -> (version, prefix bytes, cut packet bytes, on_boundary);
    meta['ref']: parser that got only the prefix"""
    f = []
    bp = by_parser(case, obs)
    cuts = case.meta.get("cuts", {})
    ref = case.meta.get("ref")
    if ref not in bp:
        return f
    Rref, Sref = results_of(bp[ref])
    if has_error(Rref):
        return f
    for k, (ver, pre, cutp, boundary) in cuts.items():
        if k not in bp:
            continue
        Rk, Sk = results_of(bp[k])
        if boundary:
            continue
        if not Rk or elem_kind(Rk[-1]) != "Error":
            f.append((None, "V%d packet cut at %d of its bytes: last element is %s, not an error" % (ver, len(cutp), elem_kind(Rk[-1]) if Rk else "missing")))
            continue
        if bytes(get(elem_body(Rk[-1]), "remaining")) != cutp:
            f.append((None, "V%d packet cut at %d: error remaining is not the truncated packet" % (ver, len(cutp))))
        d = canon.diff(Rref, Rk[:-1], "R")
        if d:
            f.append((None, "V%d packet cut at %d: packets before it changed: %s" % (ver, len(cutp), d)))
        if ver != 9:
            d = canon.diff(Sref, Sk, "S")
            if d:
                f.append((None, "truncated V%d packet changed the caches: %s" % (ver, d)))
    return f


# ---------------------------------------------------------------- C16

def c16(case, obs, crash):
    """JSON well-formed (parsed by Python's strict reader already), same text twice, same text
    from twin parsers fed the same history"""
    f = []
    for k, o in enumerate(obs):
        if get(o, "UNPARSEABLE") is not None:
            f.append((None, "op %d: serde_json output is not well-formed JSON: %s" % (k, get(o, "UNPARSEABLE"))))
        if get(o, "R") in ("SERERR", "PANIC"):
            f.append((None, "op %d: serialization failed: %s" % (k, get(o, "R"))))
        if get(o, "same") is False:
            f.append((None, "op %d: serializing the same result twice gave different text" % k))
    bp = by_parser(case, obs)
    if case.meta.get("twins") and 0 in bp and 1 in bp:
        for (op0, o0), (op1, o1) in zip(bp[0], bp[1]):
            if canon.diff(get(o0, "R"), get(o1, "R"), "R"):
                f.append((None, "twin parsers fed the same history serialize differently: %s" % canon.diff(get(o0, "R"), get(o1, "R"), "R")))
    return f


# ---------------------------------------------------------------- C06

def cache_keys(S):
    return {k: [e[0] for e in get(S, k)] for k in ("v9_t", "v9_o", "ix_t", "ix_o")}


def cache_map(S, k):
    return {e[0]: e[1:] for e in get(S, k)}


def expected_caches(prev, R):
    """previous caches + the templates reported in R, last definition wins; also whether a V9
    packet failed (it may have cached the templates of its earlier flowsets)"""
    exp = {m: dict(cache_map(prev, m)) for m in ("v9_t", "v9_o", "ix_t", "ix_o")}
    v9_error = False
    for e in R:
        kind = elem_kind(e)
        if kind == "V9":
            for fs in get(elem_body(e), "flowsets"):
                b = get(fs, "body")
                if b[0][0] == "Template":
                    for t in get(b[0][1], "templates"):
                        exp["v9_t"][get(t, "template_id")] = [t]
                elif b[0][0] == "OptionsTemplate":
                    for t in get(b[0][1], "templates"):
                        exp["v9_o"][get(t, "template_id")] = [t]
        elif kind == "IPFix":
            for fs in get(elem_body(e), "flowsets"):
                b = get(fs, "body")
                if b[0][0] == "Template":
                    exp["ix_t"][get(b[0][1], "template_id")] = [b[0][1]]
                elif b[0][0] == "OptionsTemplate":
                    exp["ix_o"][get(b[0][1], "template_id")] = [b[0][1]]
        elif kind == "Error":
            rem = get(elem_body(e), "remaining")
            if len(rem) >= 2 and rem[0] == 0 and rem[1] == 9:
                v9_error = True
    return exp, v9_error


def caches_match(exp, S, maps):
    for m in maps:
        now = cache_map(S, m)
        if set(now) != set(exp[m]):
            return "%s holds ids %s, expected %s" % (m, sorted(now), sorted(exp[m]))
        for tid in now:
            d = canon.diff(exp[m][tid][0], now[tid][0], "%s[%d]" % (m, tid))
            if d:
                return d
    return None


def c06(case, obs, crash):
    f = []
    bp = by_parser(case, obs)
    for k, pairs in bp.items():
        prev = None
        for op, o in pairs:
            S = get(o, "S")
            R = get(o, "R")
            if S is None or not isinstance(R, list) or isinstance(R, canon.Pairs):
                continue
            if prev is None:
                prev = canon.Pairs([(m, []) for m in ("v9_t", "v9_o", "ix_t", "ix_o")])
            # (a) nothing evicted
            pk = cache_keys(prev)
            nk = cache_keys(S)
            for m in pk:
                gone = set(pk[m]) - set(nk[m])
                if gone:
                    f.append((None, "parser %d: ids %s evicted from %s" % (k, sorted(gone), m)))
            exp, v9_error = expected_caches(prev, R)
            for m in ("v9_t", "v9_o", "ix_t", "ix_o"):
                now = cache_map(S, m)
                if v9_error and m.startswith("v9"):
                    # a V9 packet that failed part-way may have cached the templates of its earlier
                    # flowsets (complete records of an allowed version): only monotonicity is demanded
                    continue
                if set(now) != set(exp[m]):
                    f.append((None, "parser %d: %s holds ids %s, expected %s (previous + templates reported in this call)"
                              % (k, m, sorted(now), sorted(exp[m]))))
                    continue
                for tid in now:
                    d = canon.diff(exp[m][tid][0], now[tid][0], "%s[%d]" % (m, tid))
                    if d:
                        f.append((None, "parser %d: cache entry is not the latest definition received: %s" % (k, d)))
            prev = S
    return f


# ---------------------------------------------------------------- C07

def bodies_with_id(R, proto, tid):
    """data bodies (Data / OptionsData) decoded for flowset/set id tid in packets of proto"""
    out = []
    for e in R:
        if elem_kind(e) != proto:
            continue
        for fs in get(elem_body(e), "flowsets"):
            h = get(fs, "header")
            fid = get(h, "flowset_id", get(h, "header_id"))
            b = get(fs, "body")
            if fid == tid and b[0][0] in ("Data", "OptionsData"):
                out.append(b)
    return out


def c07(case, obs, crash):
    """meta['unknown'] : op index -> (proto, id): data for an id the parser has no template for;
    meta['known'] : op index -> (proto, id, nrec): the same data once the template was received"""
    f = []
    ops = parse_ops(case)
    last_S = {}
    for k, (op, o) in enumerate(zip(ops, obs)):
        if op[0] != "B":
            continue
        R = get(o, "R")
        S = get(o, "S")
        if not isinstance(R, list) or isinstance(R, canon.Pairs):
            continue
        if k in case.meta.get("unknown", {}):
            proto, tid = case.meta["unknown"][k]
            if bodies_with_id(R, proto, tid):
                f.append((None, "op %d: data for %s id %d decoded although no template of that id is cached" % (k, proto, tid)))
            if proto == "V9" and not (R and elem_kind(R[-1]) == "Error"):
                f.append((None, "op %d: V9 packet with data for unknown template %d is not reported as an error" % (k, tid)))
            if proto == "IPFix" and not any(elem_kind(e) == "IPFix" for e in R):
                f.append((None, "op %d: IPFIX message with data for unknown template %d is not reported" % (k, tid)))
            prev = last_S.get(op[1])
            if prev is None:
                prev = canon.Pairs([(m, []) for m in ("v9_t", "v9_o", "ix_t", "ix_o")])
            exp, _v9e = expected_caches(prev, R)
            d = caches_match(exp, S, ("v9_t", "v9_o", "ix_t", "ix_o"))
            if d:
                f.append((None, "op %d: data for an unknown template changed the caches beyond the templates reported in the same call: %s" % (k, d)))
        if k in case.meta.get("known", {}):
            proto, tid, nrec = case.meta["known"][k]
            if not bodies_with_id(R, proto, tid):
                f.append((None, "op %d: data for %s id %d not decoded after its template was received" % (k, proto, tid)))
        last_S[op[1]] = S
    return f
