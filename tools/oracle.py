"""Property oracles: executable statements of the properties over the *crate's* observations
only (independent of the Coq model).  Used to search for a failing input when a proof
obligation or the correspondence breaks, and as a cross-check on every run.  An oracle returns
a list of failures; each failure is (class_or_None, message).  A failure whose class is listed
in known_findings.json is printed as KNOWN-FINDING, any other is a violation.
"""
import canon
from canon import get, plain

CISCO_V5_H = [("count", 2, 2), ("sys_up_time", 4, 4), ("unix_secs", 8, 4), ("unix_nsecs", 12, 4),
              ("flow_sequence", 16, 4), ("engine_type", 20, 1), ("engine_id", 21, 1), ("sampling_interval", 22, 2)]
CISCO_V5_R = [("src_addr", 0, 4), ("dst_addr", 4, 4), ("next_hop", 8, 4), ("input", 12, 2), ("output", 14, 2),
              ("d_pkts", 16, 4), ("d_octets", 20, 4), ("first", 24, 4), ("last", 28, 4), ("src_port", 32, 2),
              ("dst_port", 34, 2), ("pad1", 36, 1), ("tcp_flags", 37, 1), ("protocol_number", 38, 1), ("tos", 39, 1),
              ("src_as", 40, 2), ("dst_as", 42, 2), ("src_mask", 44, 1), ("dst_mask", 45, 1), ("pad2", 46, 2)]
CISCO_V7_H = [("count", 2, 2), ("sys_up_time", 4, 4), ("unix_secs", 8, 4), ("unix_nsecs", 12, 4),
              ("flow_sequence", 16, 4), ("reserved", 20, 4)]
CISCO_V7_R = [("src_addr", 0, 4), ("dst_addr", 4, 4), ("next_hop", 8, 4), ("input", 12, 2), ("output", 14, 2),
              ("d_pkts", 16, 4), ("d_octets", 20, 4), ("first", 24, 4), ("last", 28, 4), ("src_port", 32, 2),
              ("dst_port", 34, 2), ("flags_fields_valid", 36, 1), ("tcp_flags", 37, 1), ("protocol_number", 38, 1),
              ("tos", 39, 1), ("src_as", 40, 2), ("dst_as", 42, 2), ("src_mask", 44, 1), ("dst_mask", 45, 1),
              ("flags_fields_invalid", 46, 2), ("router_src", 48, 4)]
IP_FIELDS = {"src_addr", "dst_addr", "next_hop", "router_src"}

# IANA protocol numbers 0..144 as the names the crate's enum uses for them (the enum is the
# IANA list); kept here as an independent copy so a change of the enum or of either table shows.
IANA = ("Hopopt Icmp Igmp Ggp Ipv4 St Tcp Cbt Egp Igp Bbcrccmon Nvpii Pup Argus Emcon Xnet Chaos Udp Mux Dcnmeas Hmp Prm "
        "Xnxidp Trunk1 Trunk2 Leaf1 Leaf2 Rdp Irtp Isotp4 Netblt Mfensp Meritinp Dccp").split()


def ipv4(n):
    return "%d.%d.%d.%d" % ((n >> 24) & 255, (n >> 16) & 255, (n >> 8) & 255, n & 255)


def elem_kind(e):
    return e[0][0]


def elem_body(e):
    return e[0][1]


def wire_len(e):
    """bytes a decoded packet occupied, from its own header fields only"""
    k = elem_kind(e)
    b = elem_body(e)
    h = get(b, "header")
    if k == "V5":
        return 24 + 48 * get(h, "count")
    if k == "V7":
        return 24 + 52 * get(h, "count")
    if k == "IPFix":
        return max(get(h, "length"), 16)
    if k == "V9":
        return 20 + sum(max(get(get(fs, "header"), "length"), 4) for fs in get(b, "flowsets"))
    return None


def parse_ops(case):
    """-> list of (op, parser, bytes|None, raw tokens) for the observation-producing ops"""
    out = []
    allowed = {}
    for line in case.ops:
        t = line.split()
        if t[0] == "A":
            allowed[int(t[1])] = [] if t[2] == "-" else (range(65536) if t[2] == "*" else [int(v) for v in t[2].split(",")])
        elif t[0] in ("B", "F"):
            out.append((t[0], int(t[1]), bytes.fromhex(t[2]) if t[2] != "-" else b"", allowed.get(int(t[1]), [5, 7, 9, 10])))
        elif t[0] in ("E5", "E7"):
            out.append((t[0], None, None, t[1:]))
    return out


# ---------------------------------------------------------------- C01

def c01(case, obs, crash):
    f = []
    if crash:
        f.append((None, "process %s" % crash))
    for k, o in enumerate(obs):
        if get(o, "PANIC") is not None:
            f.append((None, "op %d: parse_bytes panicked: %s" % (k, get(o, "PANIC"))))
        if get(o, "CRASH") is not None:
            f.append((None, "op %d: %s" % (k, get(o, "CRASH"))))
        for key in ("X", "C"):
            for j, x in enumerate(get(o, key) or []):
                if x == "PANIC":
                    f.append((None, "op %d elem %d: %s panicked" % (k, j, {"X": "to_be_bytes", "C": "as_netflow_common"}[key])))
        if get(o, "R") in ("PANIC", "SERERR"):
            f.append((None, "op %d: JSON serialization %s" % (k, get(o, "R"))))
    return f


# ---------------------------------------------------------------- C02

def c02(case, obs, crash):
    f = []
    ops = [o for o in parse_ops(case) if o[0] == "B"]
    for k, (o, op) in enumerate(zip(obs, ops)):
        R = get(o, "R")
        if not isinstance(R, list) or isinstance(R, canon.Pairs):
            continue
        x = op[2]
        allowed = op[3]
        if not x:
            if R:
                f.append((None, "op %d: empty buffer gave %d elements" % (k, len(R))))
            continue
        pos = 0
        for j, e in enumerate(R):
            if elem_kind(e) == "Error":
                if j != len(R) - 1:
                    f.append((None, "op %d: Error element at %d is not last" % (k, j)))
                rem = bytes(get(elem_body(e), "remaining"))
                if rem != x[pos:]:
                    f.append((None, "op %d: error remaining is not the unconsumed suffix (consumed %d of %d, remaining %d bytes)" % (k, pos, len(x), len(rem))))
                pos = len(x)
            else:
                pos += wire_len(e)
                if pos > len(x):
                    f.append((None, "op %d: element %d ends at %d beyond the buffer (%d)" % (k, j, pos, len(x))))
        if not (R and elem_kind(R[-1]) == "Error") and pos < len(x):
            if len(x) - pos >= 2:
                v = int.from_bytes(x[pos : pos + 2], "big")
                if v in allowed:
                    f.append((None, "op %d: result stops at %d of %d although version %d is allowed" % (k, pos, len(x), v)))
            else:
                f.append((None, "op %d: result stops at %d of %d with a 1-byte tail and no error" % (k, pos, len(x))))
    return f


# ---------------------------------------------------------------- C03

def proto_expect(n, name, variants):
    """class or None / message: is `name` acceptable for protocol number n"""
    if n <= 144:
        want = variants.get(n)
        if name != want:
            return ("K_C03_proto" if n in (0, 1, 144) else None, "protocol %d named %s, IANA/enum says %s" % (n, name, want))
    elif n <= 254:
        if name != "Unknown":
            return (None, "protocol %d named %s, expected Unknown" % (n, name))
    else:
        if name not in ("Unknown", "Reserved"):
            return (None, "protocol 255 named %s" % name)
    return None


def c03(case, obs, crash, variants):
    f = []
    ops = [o for o in parse_ops(case) if o[0] == "B"]
    for k, (o, op) in enumerate(zip(obs, ops)):
        R = get(o, "R")
        if not isinstance(R, list) or isinstance(R, canon.Pairs):
            continue
        x = op[2]
        allowed = op[3]
        pos = 0
        j = 0
        while pos < len(x):
            if len(x) - pos < 2:
                break
            v = int.from_bytes(x[pos : pos + 2], "big")
            if v not in (5, 7) or v not in allowed:
                break
            HT, RT, rs = (CISCO_V5_H, CISCO_V5_R, 48) if v == 5 else (CISCO_V7_H, CISCO_V7_R, 52)
            p = x[pos:]
            cnt = int.from_bytes(p[2:4], "big") if len(p) >= 4 else None
            complete = cnt is not None and len(p) >= 24 + rs * cnt
            if j >= len(R):
                f.append((None, "op %d: no element for the V%d packet at offset %d" % (k, v, pos)))
                break
            e = R[j]
            if not complete:
                if elem_kind(e) != "Error":
                    f.append((None, "op %d: short V%d packet at %d reported as %s" % (k, v, pos, elem_kind(e))))
                elif bytes(get(elem_body(e), "remaining")) != p:
                    f.append((None, "op %d: short V%d packet: error remaining differs" % (k, v)))
                break
            if elem_kind(e) != "V%d" % v:
                f.append((None, "op %d: complete V%d packet at %d reported as %s" % (k, v, pos, elem_kind(e))))
                break
            b = elem_body(e)
            h = plain(get(b, "header"))
            if h.get("version") != v:
                f.append((None, "op %d: header.version %r" % (k, h.get("version"))))
            for name, off, w in HT:
                want = int.from_bytes(p[off : off + w], "big")
                if h.get(name) != want:
                    f.append((None, "op %d: V%d header.%s = %r, bytes at offset %d say %d" % (k, v, name, h.get(name), off, want)))
            recs = get(b, "flowsets")
            if len(recs) != cnt:
                f.append((None, "op %d: V%d count %d but %d records" % (k, v, cnt, len(recs))))
            for i, r in enumerate(recs[:cnt]):
                r = plain(r)
                base = 24 + rs * i
                for name, off, w in RT:
                    want = int.from_bytes(p[base + off : base + off + w], "big")
                    got = r.get(name)
                    if name in IP_FIELDS:
                        want = ipv4(want)
                    if got != want:
                        f.append((None, "op %d: V%d record %d %s = %r, bytes at offset %d say %r" % (k, v, i, name, got, base + off, want)))
                pe = proto_expect(r.get("protocol_number"), r.get("protocol_type"), variants)
                if pe:
                    f.append(pe)
            pos += 24 + rs * cnt
            j += 1
    return f


# ---------------------------------------------------------------- C08

def c08(case, obs, crash):
    f = []
    ops = parse_ops(case)
    for k, (o, op) in enumerate(zip(obs, ops)):
        if op[0] in ("E5", "E7"):
            orig = get(o, "orig")
            back = get(o, "back")
            if canon.diff(orig, back) is not None:
                f.append((None, "op %d: %s: parse(to_be_bytes(v)) != v: %s" % (k, op[0], canon.diff(orig, back))))
            continue
        if op[0] != "B":
            continue
        R = get(o, "R")
        X = get(o, "X")
        if not isinstance(R, list) or isinstance(R, canon.Pairs):
            continue
        x = op[2]
        pos = 0
        for j, e in enumerate(R):
            if elem_kind(e) == "Error":
                break
            n = wire_len(e)
            if elem_kind(e) in ("V5", "V7"):
                if X[j] != x[pos : pos + n].hex():
                    f.append((None, "op %d: V5/V7 element %d: to_be_bytes differs from the %d bytes at offset %d" % (k, j, n, pos)))
            pos += n
    return f


# ---------------------------------------------------------------- helpers for multi-parser cases

def by_parser(case, obs):
    """-> dict parser -> list of (op tuple, observation) in order (B ops only)"""
    ops = [o for o in parse_ops(case)]
    out = {}
    for op, o in zip(ops, obs):
        if op[0] == "B":
            out.setdefault(op[1], []).append((op, o))
    return out


def results_of(pairs):
    """concatenated result list and final caches of a parser's calls"""
    R = []
    S = None
    for _op, o in pairs:
        r = get(o, "R")
        if isinstance(r, list) and not isinstance(r, canon.Pairs):
            R.extend(r)
        S = get(o, "S", S)
    return R, S


def has_error(R):
    return any(elem_kind(e) == "Error" for e in R)


# ---------------------------------------------------------------- C11

def c11(case, obs, crash):
    """meta: parser 0 got everything in one call; the other parsers got the same packet
    sequence under other partitions.  Results and final caches must coincide (only demanded
    when no packet of the sequence is rejected)."""
    f = []
    bp = by_parser(case, obs)
    if 0 not in bp:
        return f
    R0, S0 = results_of(bp[0])
    errs = {k: has_error(results_of(bp[k])[0]) for k in bp}
    if all(errs.values()):
        return f            # a packet of the sequence is rejected however it is delivered
    if errs[0] and not all(errs.values()):
        return [(None, "the buffer delivered in one call ends in an Error, the same packets in several calls (parsers %s) decode without one"
                 % sorted(k for k in errs if not errs[k]))]
    for k in sorted(bp):
        if k == 0:
            continue
        Rk, Sk = results_of(bp[k])
        if errs[k]:
            f.append((None, "delivered as on parser %d the packets give an Error, in one call they all decode" % k))
            continue
        d = canon.diff(R0, Rk, "R")
        if d:
            f.append((None, "one call vs partition on parser %d: %s" % (k, d)))
        d = canon.diff(S0, Sk, "S")
        if d:
            f.append((None, "final caches, one call vs partition on parser %d: %s" % (k, d)))
    return f


# ---------------------------------------------------------------- C12

def elem_version(e):
    k = elem_kind(e)
    if k == "V5":
        return 5
    if k == "V7":
        return 7
    if k == "V9":
        return 9
    if k == "IPFix":
        return 10
    rem = get(elem_body(e), "remaining")
    if len(rem) >= 2:
        return rem[0] * 256 + rem[1]
    return None


def c12(case, obs, crash):
    """parser 0: allowed set S; parser 1: every version allowed, same buffers; parser 2 (when
    present): every version allowed, fed only the prefix before the first disallowed packet."""
    f = []
    bp = by_parser(case, obs)
    if 0 not in bp or 1 not in bp:
        return f
    for (op0, o0), (op1, o1) in zip(bp[0], bp[1]):
        allowed = op0[3]
        R0 = get(o0, "R")
        R1 = get(o1, "R")
        if not isinstance(R0, list) or not isinstance(R1, list):
            continue
        want = []
        for e in R1:
            v = elem_version(e)
            if v is not None and v not in allowed:
                break
            want.append(e)
        d = canon.diff(want, R0, "R")
        if d:
            f.append((None, "allowed %s: result is not the all-allowed result cut at the first disallowed version: %s" % (allowed, d)))
        for e in R0:
            if elem_kind(e) == "Error":
                err = get(elem_body(e), "error")
                if err[0][0] == "UnknownVersion":
                    rem = bytes(get(elem_body(e), "remaining"))
                    v = rem[0] * 256 + rem[1]
                    if v in (5, 7, 9, 10) or v not in allowed or bytes(err[0][1]) != rem[2:]:
                        f.append((None, "UnknownVersion error for version %d (allowed %s)" % (v, allowed)))
    # an allowed version the library has no decoder for, met at a packet boundary, is an
    # UnknownVersion error carrying the unparsed bytes: never a silent stop, never another error
    for k in bp:
        for op, o in bp[k]:
            R = get(o, "R")
            x = op[2]
            if not isinstance(R, list) or isinstance(R, canon.Pairs) or not x:
                continue
            pos = 0
            last_err = None
            for e in R:
                if elem_kind(e) == "Error":
                    last_err = e
                    break
                pos += wire_len(e)
            if pos + 2 > len(x):
                continue
            v = int.from_bytes(x[pos : pos + 2], "big")
            if v in (5, 7, 9, 10) or v not in op[3]:
                continue
            if last_err is None:
                f.append((None, "parser %d: version %d is allowed and has no decoder, but the result stops silently at byte %d of %d instead of an UnknownVersion error" % (k, v, pos, len(x))))
            else:
                err = get(elem_body(last_err), "error")
                if err[0][0] != "UnknownVersion" or bytes(get(elem_body(last_err), "remaining")) != x[pos:]:
                    f.append((None, "parser %d: allowed version %d without a decoder at byte %d reported as %s, not as UnknownVersion carrying the unparsed bytes" % (k, v, pos, err[0][0])))
    if 2 in bp and len(bp[0]) == 1 and len(bp[2]) == 1:
        d = canon.diff(get(bp[0][0][1], "S"), get(bp[2][0][1], "S"), "S")
        if d:
            f.append((None, "caches after the filtered call differ from the caches after the allowed prefix alone: %s" % d))
        d = canon.diff(get(bp[0][0][1], "R"), get(bp[2][0][1], "R"), "R")
        if d and not has_error(get(bp[2][0][1], "R") or []):
            f.append((None, "filtered result differs from the result of the allowed prefix alone: %s" % d))
    return f


# ---------------------------------------------------------------- C14

def c14(case, obs, crash):
    """meta['cuts']: parser k -> (version, prefix bytes, cut packet bytes, on_boundary);
    meta['ref']: parser that got only the prefix"""
    f = []
    bp = by_parser(case, obs)
    cuts = case.meta.get("cuts", {})
    ref = case.meta.get("ref")
    if ref not in bp:
        return f
    Rref, Sref = results_of(bp[ref])
    if has_error(Rref):
        return f
    for k, (ver, pre, cutp, boundary) in cuts.items():
        if k not in bp:
            continue
        Rk, Sk = results_of(bp[k])
        if boundary:
            continue
        if not Rk or elem_kind(Rk[-1]) != "Error":
            f.append((None, "V%d packet cut at %d of its bytes: last element is %s, not an error" % (ver, len(cutp), elem_kind(Rk[-1]) if Rk else "missing")))
            continue
        if bytes(get(elem_body(Rk[-1]), "remaining")) != cutp:
            f.append((None, "V%d packet cut at %d: error remaining is not the truncated packet" % (ver, len(cutp))))
        d = canon.diff(Rref, Rk[:-1], "R")
        if d:
            f.append((None, "V%d packet cut at %d: packets before it changed: %s" % (ver, len(cutp), d)))
        if ver != 9:
            d = canon.diff(Sref, Sk, "S")
            if d:
                f.append((None, "truncated V%d packet changed the caches: %s" % (ver, d)))
    return f


# ---------------------------------------------------------------- C16

def c16(case, obs, crash):
    """JSON well-formed (parsed by Python's strict reader already), same text twice, same text
    from twin parsers fed the same history"""
    f = []
    for k, o in enumerate(obs):
        if get(o, "UNPARSEABLE") is not None:
            f.append((None, "op %d: serde_json output is not well-formed JSON: %s" % (k, get(o, "UNPARSEABLE"))))
        if get(o, "R") in ("SERERR", "PANIC"):
            f.append((None, "op %d: serialization failed: %s" % (k, get(o, "R"))))
        if get(o, "same") is False:
            f.append((None, "op %d: serializing the same result twice gave different text" % k))
    # the error element in the JSON carries what the structure carries: the unconsumed bytes, and
    # inside a Partial the version word's number and the bytes after it
    ops = [o for o in parse_ops(case) if o[0] in ("B", "F")]
    for k, (o, op) in enumerate(zip(obs, ops)):
        R = get(o, "R")
        if op[0] != "B" or not isinstance(R, list) or isinstance(R, canon.Pairs):
            continue
        pos = 0
        for e in R:
            if elem_kind(e) != "Error":
                pos += wire_len(e)
                continue
            b = elem_body(e)
            keys = [q for q, _v in b] if isinstance(b, canon.Pairs) else None
            if keys != ["error", "remaining"]:
                f.append((None, "op %d: Error element serialized with keys %s, the structure has error, remaining" % (k, keys)))
                break
            rem = get(b, "remaining")
            if bytes(rem) != op[2][pos:]:
                f.append((None, "op %d: Error element's remaining in the JSON is not the %d unconsumed bytes" % (k, len(op[2]) - pos)))
            err = get(b, "error")
            if isinstance(err, canon.Pairs) and len(err) == 1 and err[0][0] == "Partial":
                pp = err[0][1]
                pk = [q for q, _v in pp] if isinstance(pp, canon.Pairs) else None
                if pk != ["version", "remaining", "error"]:
                    f.append((None, "op %d: Partial error serialized with keys %s, the structure has version, remaining, error" % (k, pk)))
                elif len(rem) >= 2 and (get(pp, "version") != rem[0] * 256 + rem[1] or list(get(pp, "remaining")) != list(rem[2:])):
                    f.append((None, "op %d: Partial error in the JSON does not carry the version word's number and the bytes after it" % k))
            break
    bp = by_parser(case, obs)
    if case.meta.get("twins") and 0 in bp and 1 in bp:
        for (op0, o0), (op1, o1) in zip(bp[0], bp[1]):
            if canon.diff(get(o0, "R"), get(o1, "R"), "R"):
                f.append((None, "twin parsers fed the same history serialize differently: %s" % canon.diff(get(o0, "R"), get(o1, "R"), "R")))
    return f


# ---------------------------------------------------------------- C06

def cache_keys(S):
    return {k: [e[0] for e in get(S, k)] for k in ("v9_t", "v9_o", "ix_t", "ix_o")}


def cache_map(S, k):
    return {e[0]: e[1:] for e in get(S, k)}


def expected_caches(prev, R):
    """previous caches + the templates reported in R, last definition wins; also whether a V9
    packet failed (it may have cached the templates of its earlier flowsets)"""
    exp = {m: dict(cache_map(prev, m)) for m in ("v9_t", "v9_o", "ix_t", "ix_o")}
    v9_error = None
    for e in R:
        kind = elem_kind(e)
        if kind == "V9":
            for fs in get(elem_body(e), "flowsets"):
                b = get(fs, "body")
                # an id names one template: a definition of either kind supersedes the other kind's
                if b[0][0] == "Template":
                    for t in get(b[0][1], "templates"):
                        exp["v9_t"][get(t, "template_id")] = [t]
                        exp["v9_o"].pop(get(t, "template_id"), None)
                elif b[0][0] == "OptionsTemplate":
                    for t in get(b[0][1], "templates"):
                        exp["v9_o"][get(t, "template_id")] = [t]
                        exp["v9_t"].pop(get(t, "template_id"), None)
        elif kind == "IPFix":
            for fs in get(elem_body(e), "flowsets"):
                b = get(fs, "body")
                if b[0][0] == "Template":
                    exp["ix_t"][get(b[0][1], "template_id")] = [b[0][1]]
                    exp["ix_o"].pop(get(b[0][1], "template_id"), None)
                elif b[0][0] == "OptionsTemplate":
                    exp["ix_o"][get(b[0][1], "template_id")] = [b[0][1]]
                    exp["ix_t"].pop(get(b[0][1], "template_id"), None)
        elif kind == "Error":
            rem = get(elem_body(e), "remaining")
            if len(rem) >= 2 and rem[0] == 0 and rem[1] == 9:
                v9_error = failed_v9_templates(bytes(rem), exp)
    return exp, v9_error


def failed_v9_templates(p, exp):
    """A V9 packet that failed part-way: the complete template records of the flowsets BEFORE the
    failing one were received, so the parser must hold them (C06: latest definition received).
    Walks only as far as is certain: the leading template / options-template flowsets; it stops
    at the first data flowset (whose decoding may be what failed).  Adds {id: marker} entries with
    the (number, length) lists to compare against the cache, and returns the bytes it did NOT
    vouch for: a template id whose two bytes occur in them may have been redefined by a flowset
    the parser got through before it failed, so nothing is claimed about such an id."""
    if len(p) < 20:
        return p
    count = int.from_bytes(p[2:4], "big")
    pos = 20
    for _ in range(count):
        if pos + 4 > len(p):
            return p[pos:]
        fid = int.from_bytes(p[pos : pos + 2], "big")
        ln = int.from_bytes(p[pos + 2 : pos + 4], "big")
        blen = max(ln - 4, 0)
        if pos + 4 + blen > len(p):
            return p[pos:]
        body = p[pos + 4 : pos + 4 + blen]
        if fid == 0:
            q = 0
            while len(body) - q >= 4:
                tid = int.from_bytes(body[q : q + 2], "big")
                cnt = int.from_bytes(body[q + 2 : q + 4], "big")
                if len(body) - q - 4 < 4 * cnt:
                    break
                fs = [(int.from_bytes(body[q + 4 + 4 * i : q + 6 + 4 * i], "big"), int.from_bytes(body[q + 6 + 4 * i : q + 8 + 4 * i], "big")) for i in range(cnt)]
                if tid >= 256:
                    exp["v9_t"][tid] = [("fields", cnt, fs)]
                    exp["v9_o"].pop(tid, None)
                q += 4 + 4 * cnt
        elif fid == 1:
            q = 0
            while len(body) - q >= 6:
                tid = int.from_bytes(body[q : q + 2], "big")
                sl = int.from_bytes(body[q + 2 : q + 4], "big")
                ol = int.from_bytes(body[q + 4 : q + 6], "big")
                need = 4 * (sl // 4) + 4 * (ol // 4)
                if len(body) - q - 6 < need:
                    break
                if tid >= 256:
                    exp["v9_o"][tid] = [("present",)]
                    exp["v9_t"].pop(tid, None)
                q += 6 + need
        else:
            return p[pos:]
        pos += 4 + blen
    return p[pos:]


def caches_match(exp, S, maps):
    for m in maps:
        now = cache_map(S, m)
        if any(isinstance(v[0], tuple) for v in exp[m].values()):
            continue
        if set(now) != set(exp[m]):
            return "%s holds ids %s, expected %s" % (m, sorted(now), sorted(exp[m]))
        for tid in now:
            d = canon.diff(exp[m][tid][0], now[tid][0], "%s[%d]" % (m, tid))
            if d:
                return d
    return None


def c06(case, obs, crash):
    f = []
    bp = by_parser(case, obs)
    for k, pairs in bp.items():
        prev = None
        for op, o in pairs:
            S = get(o, "S")
            R = get(o, "R")
            if S is None or not isinstance(R, list) or isinstance(R, canon.Pairs):
                continue
            if prev is None:
                prev = canon.Pairs([(m, []) for m in ("v9_t", "v9_o", "ix_t", "ix_o")])
            # (a) nothing evicted
            pk = cache_keys(prev)
            nk = cache_keys(S)
            # an id that had a template of a protocol (of either kind) still has one
            for a, b in (("v9_t", "v9_o"), ("ix_t", "ix_o")):
                gone = (set(pk[a]) | set(pk[b])) - (set(nk[a]) | set(nk[b]))
                if gone:
                    f.append((None, "parser %d: ids %s evicted from %s/%s" % (k, sorted(gone)[:10], a, b)))
            exp, v9_error = expected_caches(prev, R)
            for m in ("v9_t", "v9_o", "ix_t", "ix_o"):
                now = cache_map(S, m)
                if v9_error is not None and m.startswith("v9"):
                    # a V9 packet that failed part-way: the complete template records of its flowsets
                    # before the failing one were received and must be cached; further entries are
                    # allowed (records the walk above did not vouch for)
                    for tid, want in exp[m].items():
                        if tid.to_bytes(2, "big") in v9_error:
                            continue        # may have been redefined (of either kind) by a flowset the walk did not reach
                        if tid not in now:
                            f.append((None, "parser %d: %s lacks id %d although a complete template record for it was received (in a packet that later failed, or earlier)" % (k, m, tid)))
                        elif isinstance(want[0], tuple):
                            if want[0][0] == "fields":
                                got = plain(now[tid][0])
                                have = [(q["field_type_number"], q["field_length"]) for q in got.get("fields", [])]
                                if got.get("field_count") != want[0][1] or have != want[0][2]:
                                    f.append((None, "parser %d: %s[%d] is not the latest definition received (the one in the packet that later failed)" % (k, m, tid)))
                        else:
                            d = canon.diff(want[0], now[tid][0], "%s[%d]" % (m, tid))
                            if d:
                                f.append((None, "parser %d: cache entry is not the latest definition received: %s" % (k, d)))
                    continue
                if set(now) != set(exp[m]):
                    missing = sorted(set(exp[m]) - set(now))
                    extra = sorted(set(now) - set(exp[m]))
                    f.append((None, "parser %d: %s holds %d ids, expected %d (previous + templates reported in this call); missing %s%s, unexpected %s%s"
                              % (k, m, len(now), len(exp[m]), missing[:8], "..." if len(missing) > 8 else "", extra[:8], "..." if len(extra) > 8 else "")))
                    continue
                for tid in now:
                    d = canon.diff(exp[m][tid][0], now[tid][0], "%s[%d]" % (m, tid))
                    if d:
                        f.append((None, "parser %d: cache entry is not the latest definition received: %s" % (k, d)))
            prev = S
    return f


# ---------------------------------------------------------------- C07

def bodies_with_id(R, proto, tid):
    """data bodies (Data / OptionsData) decoded for flowset/set id tid in packets of proto"""
    out = []
    for e in R:
        if elem_kind(e) != proto:
            continue
        for fs in get(elem_body(e), "flowsets"):
            h = get(fs, "header")
            fid = get(h, "flowset_id", get(h, "header_id"))
            b = get(fs, "body")
            if fid == tid and b[0][0] in ("Data", "OptionsData"):
                out.append(b)
    return out


def c07(case, obs, crash):
    """meta['unknown'] : op index -> (proto, id): data for an id the parser has no template for;
    meta['known'] : op index -> (proto, id, nrec): the same data once the template was received"""
    f = []
    ops = parse_ops(case)
    last_S = {}
    for k, (op, o) in enumerate(zip(ops, obs)):
        if op[0] != "B":
            continue
        R = get(o, "R")
        S = get(o, "S")
        if not isinstance(R, list) or isinstance(R, canon.Pairs):
            continue
        if k in case.meta.get("unknown", {}):
            proto, tid = case.meta["unknown"][k]
            if bodies_with_id(R, proto, tid):
                f.append((None, "op %d: data for %s id %d decoded although no template of that id is cached" % (k, proto, tid)))
            if proto == "V9" and not (R and elem_kind(R[-1]) == "Error"):
                f.append((None, "op %d: V9 packet with data for unknown template %d is not reported as an error" % (k, tid)))
            if proto == "IPFix" and not any(elem_kind(e) == "IPFix" for e in R):
                f.append((None, "op %d: IPFIX message with data for unknown template %d is not reported" % (k, tid)))
            prev = last_S.get(op[1])
            if prev is None:
                prev = canon.Pairs([(m, []) for m in ("v9_t", "v9_o", "ix_t", "ix_o")])
            exp, _v9e = expected_caches(prev, R)
            d = caches_match(exp, S, ("v9_t", "v9_o", "ix_t", "ix_o"))
            if d:
                f.append((None, "op %d: data for an unknown template changed the caches beyond the templates reported in the same call: %s" % (k, d)))
        if k in case.meta.get("known", {}):
            proto, tid, nrec = case.meta["known"][k]
            if not bodies_with_id(R, proto, tid):
                f.append((None, "op %d: data for %s id %d not decoded after its template was received" % (k, proto, tid)))
        last_S[op[1]] = S
    return f


# ---------------------------------------------------------------- C04 / C05 (reference decode)
import refdec  # noqa: E402
import iana  # noqa: E402


def val_diff(exp, got, path):
    """exp: plain expected value from refdec.value; got: canon tree from the crate"""
    (k, v), = exp.items()
    if not isinstance(got, canon.Pairs) or len(got) != 1 or got[0][0] != k:
        return "%s: expected %s, crate reports %s" % (path, k, got[0][0] if isinstance(got, canon.Pairs) and got else got)
    g = got[0][1]
    if isinstance(v, tuple) and v[0] == "ip6":
        return canon.diff(canon.Pairs([("$ip6", v[1])]), g, path)
    if isinstance(v, tuple) and v[0] == "f64":
        return canon.diff(canon.Pairs([("$f64", v[1])]), g, path)
    if isinstance(v, dict):
        if plain(g) != v:
            return "%s: expected %r, crate %r" % (path, v, plain(g))
        return None
    if plain(g) != v:
        return "%s: expected %r, crate %r" % (path, v, plain(g))
    return None


def check_header(exp, got, path):
    g = plain(got)
    for k, v in exp.items():
        if g.get(k) != v:
            return "%s.%s: sent %r, reported %r" % (path, k, v, g.get(k))
    return None


def c04_packet(dec, p, e, pads, tables):
    """compare one V9 packet p (bytes) with the crate's element e; returns list of failures"""
    f = []
    hdr, sets = dec.v9(p)
    if elem_kind(e) != "V9":
        return [(None, "conformant V9 packet reported as %s" % elem_kind(e))]
    b = elem_body(e)
    d = check_header(hdr, get(b, "header"), "V9.header")
    if d:
        f.append((None, d))
    got = get(b, "flowsets")
    if len(got) != len(sets):
        return f + [(None, "V9 packet with %d flowsets reported with %d" % (len(sets), len(got)))]
    for i, (x, g) in enumerate(zip(sets, got)):
        gh = plain(get(g, "header"))
        if gh.get("flowset_id") != x[1] or gh.get("length") != x[2]:
            f.append((None, "flowset %d header: sent id %d length %d, reported %r" % (i, x[1], x[2], gh)))
        body = get(g, "body")
        kind = body[0][0]
        want = {"T": "Template", "O": "OptionsTemplate", "D": "Data", "OD": "OptionsData"}[x[0]]
        if kind != want:
            f.append((None, "flowset %d (id %d): sent %s, reported %s" % (i, x[1], want, kind)))
            continue
        inner = body[0][1]
        if x[0] == "T":
            ts = get(inner, "templates")
            if len(ts) != len(x[3]):
                f.append((None, "flowset %d: %d template records sent, %d reported" % (i, len(x[3]), len(ts))))
                continue
            for (tid, fs), t in zip(x[3], ts):
                t = plain(t)
                exp = {"template_id": tid, "field_count": len(fs),
                       "fields": [{"field_type_number": n, "field_type": tables.v9[n][0], "field_length": l} for n, l in fs]}
                if t != exp:
                    f.append((None, "flowset %d: template %d sent as %r, reported %r" % (i, tid, fs, t)))
        elif x[0] == "O":
            ts = get(inner, "templates")
            if len(ts) != len(x[3]):
                f.append((None, "flowset %d: %d options template records sent, %d reported" % (i, len(x[3]), len(ts))))
                continue
            for (tid, sl, ol, sc, op), t in zip(x[3], ts):
                t = plain(t)
                if t.get("template_id") != tid or t.get("options_scope_length") != sl or t.get("options_length") != ol \
                        or [(q["field_type_number"], q["field_length"]) for q in t.get("scope_fields", [])] != sc \
                        or [(q["field_type_number"], q["field_length"]) for q in t.get("option_fields", [])] != op:
                    f.append((None, "flowset %d: options template %d reported differently: %r" % (i, tid, t)))
        elif x[0] == "D":
            recs = get(inner, "fields")
            if len(recs) != len(x[3]):
                f.append((None, "data flowset %d (template %d): %d records sent, %d reported" % (i, x[1], len(x[3]), len(recs))))
                continue
            for ri, (er, gr) in enumerate(zip(x[3], recs)):
                if len(gr) != len(er):
                    f.append((None, "data flowset %d record %d: %d fields sent, %d reported" % (i, ri, len(er), len(gr))))
                    continue
                for fi, ((num, ev), (key, gv)) in enumerate(zip(er, gr)):
                    if key != str(fi) or gv[0] != tables.v9[num][0]:
                        f.append((None, "data flowset %d record %d field %d: key %r name %r, expected %d %s" % (i, ri, fi, key, gv[0], fi, tables.v9[num][0])))
                        continue
                    d = val_diff(ev, gv[1], "flowset %d record %d field %d (%s)" % (i, ri, fi, tables.v9[num][0]))
                    if d:
                        f.append((None, d))
            if pads is not None and pads[i] != x[4].hex():
                f.append((None, "data flowset %d: padding sent %s, reported %s" % (i, x[4].hex(), pads[i])))
        else:
            sc = get(inner, "scope_fields")
            op = get(inner, "options_fields")
            names = {1: "System", 2: "Interface", 3: "LineCard", 4: "NetFlowCache", 5: "Template"}
            exp_sc = [{names[n]: list(v)} for n, v in x[3]]
            exp_op = [{"field_type": tables.v9[n][0], "field_value": list(v)} for n, v in x[4]]
            # whatever follows the first record (further records: the documented deviation; then the
            # padding sent) must all be there as padding: nothing of the flowset may vanish
            rest = b"".join(bytes(v) for rsc, rop in x[6][1:] for _n, v in list(rsc) + list(rop)) + bytes(x[5])
            if plain(sc) != exp_sc or plain(op) != exp_op:
                f.append((None, "options data flowset %d: sent scope %r options %r, reported %r %r" % (i, exp_sc, exp_op, plain(sc), plain(op))))
            elif pads is not None and pads[i] != rest.hex():
                f.append((None, "options data flowset %d: the %d bytes after the first record are not all reported as padding (reported %s)" % (i, len(rest), pads[i])))
            elif len(x[6]) > 1:
                # the first record is right; the result type has room for one record only
                f.append(("K_C04_options_multi_record", "options data flowset %d (template %d): %d records sent, only the first is reported (the others are left in the padding)" % (i, x[1], len(x[6]))))
    return f


def c05_packet(dec, p, e, pads, tables):
    f = []
    hdr, sets = dec.ipfix(p)
    if elem_kind(e) != "IPFix":
        return [(None, "conformant IPFIX message reported as %s" % elem_kind(e))]
    b = elem_body(e)
    d = check_header(hdr, get(b, "header"), "IPFix.header")
    if d:
        f.append((None, d))
    got = get(b, "flowsets")
    multi = any(x[0] in ("T", "O") and len(x[3]) > 1 for x in sets)
    if multi:
        return f + [("K_C05_multi_template", "a template set with more than one template record is decoded as one merged template")]
    if len(got) != len(sets):
        return f + [(None, "IPFIX message with %d sets reported with %d" % (len(sets), len(got)))]
    for i, (x, g) in enumerate(zip(sets, got)):
        gh = plain(get(g, "header"))
        if gh.get("header_id") != x[1] or gh.get("length") != x[2]:
            f.append((None, "set %d header: sent id %d length %d, reported %r" % (i, x[1], x[2], gh)))
        body = get(g, "body")
        kind = body[0][0]
        want = {"T": "Template", "O": "OptionsTemplate", "D": "Data", "OD": "OptionsData"}[x[0]]
        if kind != want:
            f.append((None, "set %d (id %d): sent %s, reported %s" % (i, x[1], want, kind)))
            continue
        inner = body[0][1]
        if x[0] in ("T", "O"):
            rec = x[3][0]
            t = plain(inner)
            fs = rec[-1]
            exp_fields = []
            for n, l, ent in fs:
                q = {"field_type_number": n, "field_type": "Enterprise" if ent is not None else tables.ipfix[n][0], "field_length": l}
                if ent is not None:
                    q["enterprise_number"] = ent
                exp_fields.append(q)
            exp = {"template_id": rec[0], "field_count": rec[1], "fields": exp_fields}
            if x[0] == "O":
                exp["scope_field_count"] = rec[2]
            if t != exp:
                f.append((None, "set %d: template record %d sent as %r, reported %r" % (i, rec[0], exp, t)))
        else:
            flat = []
            for er in x[3]:
                for fi, (num, ent, ev) in enumerate(er):
                    flat.append((fi, "Enterprise" if ent is not None else tables.ipfix[num][0], ev))
            gf = get(inner, "fields")
            if len(gf) != len(flat):
                f.append((None, "data set %d (template %d): %d values sent in %d records, %d reported" % (i, x[1], len(flat), len(x[3]), len(gf))))
                continue
            for vi, ((fi, name, ev), m) in enumerate(zip(flat, gf)):
                key, gv = m[0]
                if key != str(fi) or gv[0] != name:
                    f.append((None, "data set %d value %d: key %r name %r, expected %d %s" % (i, vi, key, gv[0], fi, name)))
                    continue
                d = val_diff(ev, gv[1], "set %d value %d (%s)" % (i, vi, name))
                if d:
                    cls = None
                    (ek, evv), = ev.items()
                    if ek == "DataNumber" and isinstance(evv, int) and not (-(1 << 31) <= evv < (1 << 31)) and evv < 0 or \
                            (ek == "DataNumber" and name and tables_signed(tables, name) and not (-(1 << 31) <= evv < (1 << 31))):
                        cls = "K_C05_signed_wide"
                    f.append((cls, d))
            if pads is not None and pads[i] != x[4].hex():
                f.append((None, "data set %d: padding sent %s, reported %s" % (i, x[4].hex(), pads[i])))
    return f


def tables_signed(tables, name):
    for n, v in tables.ipfix.items():
        if v[0] == name:
            return v[2] == "SignedDataNumber"
    return False


def c0405(case, obs, crash, tables, which):
    """meta['packets']: [(parser, hex, desc)] in send order; every op is one B per packet group.
    Replays the packets through the reference decoder (one per parser) and compares with R."""
    f = []
    pk = case.meta.get("packets")
    if not pk:
        return f
    # names of assigned protocol numbers come from the frozen IANA list, not from the crate
    proto_names = {n: v[2] for n, v in tables.proto.items() if v[2] != "-"}
    proto_names.update(iana.PROTO)
    decs = {}
    # element stream per parser, in order
    bp = by_parser(case, obs)
    elems = {}
    pads = {}
    for k, pairs in bp.items():
        R, _ = results_of(pairs)
        elems[k] = list(R)
        pads[k] = [x for _op, o in pairs for x in (get(o, "D") or [])]
    idx = {k: 0 for k in elems}
    for k, hx, desc in pk:
        p = bytes.fromhex(hx)
        ver = u16(p)
        dec = decs.setdefault(k, refdec.RefDecoder(tables, proto_names))
        if k not in elems or idx[k] >= len(elems[k]):
            if ver in (9, 10):
                f.append((None, "packet %d of parser %d has no element in the results" % (idx.get(k, 0), k)))
            break
        e = elems[k][idx[k]]
        pad = pads[k][idx[k]] if idx[k] < len(pads[k]) else None
        idx[k] += 1
        try:
            if ver == 9:
                ff = c04_packet(dec, p, e, pad, tables)
                if which == "C04":
                    f.extend(ff)
            elif ver == 10:
                ff = c05_packet(dec, p, e, pad, tables)
                if which == "C05":
                    f.extend(ff)
                if any(c == "K_C05_multi_template" for c, _ in ff):
                    break
        except refdec.NotConformant:
            break
        if elem_kind(e) == "Error":
            break
    return f


def u16(p):
    return int.from_bytes(p[:2], "big")


def c04(case, obs, crash, tables):
    return c0405(case, obs, crash, tables, "C04")


def c05(case, obs, crash, tables):
    return c0405(case, obs, crash, tables, "C05")


# ---------------------------------------------------------------- C09 / C10 (re-export)

LOSSY_KINDS = [("Duration", "duration"), ("MacAddr", "mac")]


def value_classes(prefix, v):
    """classes a decoded value (canon tree {Kind: payload}) may fall in on re-export"""
    k = v[0][0]
    p = v[0][1]
    out = set()
    if k == "Duration":
        out.add(prefix + "_duration")
        if get(p, "secs") >= 2 ** 32:
            out.add("#export-fails")      # marker, not a class: to_be_bytes returns Err for this value
    elif k == "MacAddr":
        out.add(prefix + "_mac")
    elif k == "String":
        if "�" in p:
            out.add(prefix + "_string_lossy")
    elif k == "ProtocolType":
        if p == "Unknown":
            out.add(prefix + "_proto_unknown")
    return out


def _set_offsets(pkt, start):
    """wire offsets of the sets / flowsets of one packet, walking their headers"""
    out = []
    q = start
    while q + 4 <= len(pkt):
        out.append(q)
        q += max(int.from_bytes(pkt[q + 2 : q + 4], "big"), 4)
    return out


def _first_diff(a, b):
    """first offset at which two hex strings differ as bytes (length of the shorter if one is a prefix)"""
    n = min(len(a), len(b)) // 2
    for i in range(n):
        if a[2 * i : 2 * i + 2] != b[2 * i : 2 * i + 2]:
            return i
    return n


def c09(case, obs, crash):
    f = []
    ops = [o for o in parse_ops(case) if o[0] == "B"]
    prevS = {}
    for k, (o, op) in enumerate(zip(obs, ops)):
        R = get(o, "R")
        X = get(o, "X")
        Sp = prevS.get(op[1])
        if get(o, "S") is not None:
            prevS[op[1]] = get(o, "S")
        if not isinstance(R, list) or isinstance(R, canon.Pairs) or X is None:
            continue
        # the templates in force, flowset by flowset: what the parser held when the call began,
        # updated by the template flowsets this call reports
        live = {ent[0]: [(get(q, "field_type"), get(q, "field_length")) for q in (get(ent[1], "fields") or [])]
                for ent in (get(Sp, "v9_t") or [])} if Sp is not None else {}
        x = op[2]
        pos = 0
        for j, e in enumerate(R):
            if elem_kind(e) == "Error":
                break
            n = wire_len(e)
            if elem_kind(e) == "V9":
                live_at = {}
                for si, fs in enumerate(get(elem_body(e), "flowsets")):
                    b = get(fs, "body")
                    if b[0][0] == "Template":
                        for t in get(b[0][1], "templates"):
                            live[get(t, "template_id")] = [(get(q, "field_type"), get(q, "field_length")) for q in (get(t, "fields") or [])]
                    elif b[0][0] == "OptionsTemplate":
                        for t in get(b[0][1], "templates"):
                            live.pop(get(t, "template_id"), None)
                    elif b[0][0] == "Data":
                        live_at[si] = live.get(get(get(fs, "header"), "flowset_id"))
                want = x[pos : pos + n].hex()
                if X[j] != want:
                    classes = set()
                    offs = _set_offsets(x[pos : pos + n], 20)
                    excused_from = None          # a lossy value changes nothing before the flowset it is in
                    for si, fs in enumerate(get(elem_body(e), "flowsets")):
                        b = get(fs, "body")
                        if b[0][0] == "Data":
                            here = set()
                            for rec in get(b[0][1], "fields"):
                                for _key, tv in rec:
                                    here |= value_classes("K_C09", tv[1])
                            if here and excused_from is None and si < len(offs):
                                excused_from = offs[si] + 4
                            classes |= here
                    # ... and it changes the LENGTH by exactly what the substitutions add: a MAC address goes
                    # out as 17 bytes, a duration as 4, a string as its (repaired) UTF-8
                    delta = 0
                    known = Sp is not None or k == 0
                    for si, fs in enumerate(get(elem_body(e), "flowsets")):
                        b = get(fs, "body")
                        if b[0][0] != "Data" or not known:
                            continue
                        tl = live_at.get(si)
                        for rec in get(b[0][1], "fields"):
                            if tl is None or [tv[0] for _key, tv in rec] != [nm for nm, _l in tl]:
                                known = False      # not the definition this flowset was decoded with
                                break
                            for (_key, tv), (_nm, fl) in zip(rec, tl):
                                kind_ = tv[1][0][0]
                                if kind_ == "MacAddr":
                                    delta += 17 - 6
                                elif kind_ == "Duration":
                                    delta += 4 - fl
                                elif kind_ == "String":
                                    delta += len(tv[1][0][1].encode("utf-8")) - fl
                    if classes and known and X[j] not in ("ERR", "PANIC") and len(X[j]) // 2 != n + delta:
                        f.append((None, "op %d: V9 element %d: to_be_bytes gives %d bytes; the %d received with the documented substitutions (MAC as text, durations as 4 bytes, repaired strings) make %d"
                                  % (k, j, len(X[j]) // 2, n, n + delta)))
                        pos += n
                        continue
                    if classes and X[j] not in ("ERR", "PANIC") and excused_from is not None and _first_diff(X[j], want) < excused_from:
                        f.append((None, "op %d: V9 element %d: to_be_bytes differs at offset %d, before the first flowset with a lossy value kind (offset %d)"
                                  % (k, j, _first_diff(X[j], want), excused_from - 4)))
                        pos += n
                        continue
                    what = "to_be_bytes failed" if X[j] == "ERR" else ("to_be_bytes PANICKED" if X[j] == "PANIC" else "to_be_bytes differs from the %d bytes the packet occupied" % n)
                    fails = "#export-fails" in classes
                    classes.discard("#export-fails")
                    if X[j] == "ERR":
                        # only a duration of 2^32 seconds or more makes the export fail (K_C09_duration)
                        classes = {"K_C09_duration"} if fails else set()
                    if X[j] == "PANIC" or not classes:
                        f.append((None, "op %d: V9 element %d: %s (no lossy value kind in the packet)" % (k, j, what)))
                    else:
                        for c in sorted(classes):
                            f.append((c, "V9 element with a %s value: %s" % (c.split("_", 2)[2], what)))
            pos += n
    return f


def c10(case, obs, crash, tables):
    f = []
    ops = [o for o in parse_ops(case) if o[0] == "B"]
    dtype_of = {v[0]: v[2] for v in tables.ipfix.values()} if tables else {}
    prevS = {}
    for k, (o, op) in enumerate(zip(obs, ops)):
        R = get(o, "R")
        X = get(o, "X")
        S = get(o, "S")
        if not isinstance(R, list) or isinstance(R, canon.Pairs) or X is None:
            continue
        x = op[2]
        pos = 0
        for j, e in enumerate(R):
            if elem_kind(e) == "Error":
                break
            n = wire_len(e)
            if elem_kind(e) == "IPFix":
                want = x[pos : pos + n].hex()
                if X[j] != want:
                    classes = set()
                    sets = get(elem_body(e), "flowsets")
                    stored = 16 + sum(max(get(get(fs, "header"), "length"), 4) for fs in sets)
                    offs = _set_offsets(x[pos : pos + n], 16)
                    excused_from = None          # a documented deviation changes nothing before the set it is in
                    if stored < n:
                        classes.add("K_C10_sets_dropped")
                        excused_from = stored
                    tmpl = {}
                    for Sx in (prevS.get(op[1]), S):
                        if Sx is not None:
                            for m in ("ix_t", "ix_o"):
                                for ent in get(Sx, m):
                                    tmpl.setdefault(ent[0], []).append(ent[1])
                    for e2 in R:
                        if elem_kind(e2) == "IPFix":
                            for fs2 in get(elem_body(e2), "flowsets"):
                                b2 = get(fs2, "body")
                                if b2[0][0] in ("Template", "OptionsTemplate"):
                                    tmpl.setdefault(get(b2[0][1], "template_id"), []).append(b2[0][1])
                    for si, fs in enumerate(sets):
                        b = get(fs, "body")
                        before = set(classes)
                        if b[0][0] in ("Data", "OptionsData"):
                            for m in get(b[0][1], "fields"):
                                _key, tv = m[0]
                                vc = value_classes("K_C10", tv[1])
                                if "K_C10_duration" in vc and dtype_of.get(tv[0]) == "DurationSeconds":
                                    # whole seconds on 4 bytes go out as they came in (exact_dtype in
                                    # Proofs/ReexportFacts.v): the class is the other units and widths
                                    cands = tmpl.get(get(get(fs, "header"), "header_id"), [])
                                    lens = [get(q, "field_length") for t in cands
                                            for q in (get(t, "fields") or []) + (get(t, "scope_fields") or []) + (get(t, "option_fields") or [])
                                            if get(q, "field_type") == tv[0] and get(q, "enterprise_number") is None]
                                    if lens and all(l == 4 for l in lens):
                                        vc.discard("K_C10_duration")
                                classes |= vc
                                if tv[1][0][0] == "DataNumber" and dtype_of.get(tv[0]) == "SignedDataNumber":
                                    classes.add("K_C10_signed_widened")
                            for t in tmpl.get(get(get(fs, "header"), "header_id"), []):
                                if any(get(q, "field_length") == 65535 for q in get(t, "fields")):
                                    classes.add("K_C10_varlen_prefix")
                        if classes - before and si < len(offs) and (excused_from is None or offs[si] + 4 < excused_from):
                            excused_from = offs[si] + 4
                    if classes and X[j] not in ("ERR", "PANIC") and excused_from is not None and _first_diff(X[j], want) < excused_from:
                        f.append((None, "op %d: IPFIX element %d: to_be_bytes differs at offset %d, before the first set a documented deviation applies to (offset %d)"
                                  % (k, j, _first_diff(X[j], want), excused_from)))
                        pos += n
                        continue
                    what = "to_be_bytes failed" if X[j] == "ERR" else ("to_be_bytes PANICKED" if X[j] == "PANIC" else "to_be_bytes differs from the %d bytes the message occupied" % n)
                    fails = "#export-fails" in classes
                    classes.discard("#export-fails")
                    if X[j] == "ERR":
                        # only a duration of 2^32 seconds or more makes the export fail (K_C10_duration)
                        classes = {"K_C10_duration"} if fails else set()
                    if X[j] == "PANIC" or not classes:
                        f.append((None, "op %d: IPFIX element %d: %s (no lossy value kind, variable-length field or dropped set in the message)" % (k, j, what)))
                    else:
                        for c in sorted(classes):
                            f.append((c, "IPFIX message with %s: %s" % (c.split("_", 2)[2], what)))
            pos += n
        prevS[op[1]] = S
    return f


# ---------------------------------------------------------------- C13 (common view)

V9_NAMES = {"src4": "Ipv4SrcAddr", "src6": "Ipv6SrcAddr", "dst4": "Ipv4DstAddr", "dst6": "Ipv6DstAddr", "sport": "L4SrcPort",
            "dport": "L4DstPort", "proto": "Protocol", "first": "FirstSwitched", "last": "LastSwitched", "smac": "InSrcMac", "dmac": "InDstMac"}
# the element numbers behind the projected fields: RFC 3954 table 6 / IANA IPFIX registry (the same
# numbers in both protocols)
ROLE_NUMBERS = {"src4": 8, "dst4": 12, "src6": 27, "dst6": 28, "sport": 7, "dport": 11, "proto": 4,
                "first": 22, "last": 21, "smac": 56, "dmac": 80}
IX_NAMES = {"src4": "SourceIpv4address", "src6": "SourceIpv6address", "dst4": "DestinationIpv4address", "dst6": "DestinationIpv6address",
            "sport": "SourceTransportPort", "dport": "DestinationTransportPort", "proto": "ProtocolIdentifier",
            "first": "FlowStartSysUpTime", "last": "FlowEndSysUpTime", "smac": "SourceMacaddress", "dmac": "DestinationMacaddress"}


IANA_NUMBER = dict({name: n for n, name in iana.PROTO.items()}, Reserved=255)


def project(rec, names, proto_from, cls_prefix, lens=None):
    """rec: list of (name, value tree).  -> (expected flow dict, classes of accepted deviations).
    lens: name -> length the template gave the field (None when unknown)"""
    vm = {}
    for name, v in rec:
        vm[name] = v
    lens = lens or {}
    classes = set()

    def ip(a, b):
        v = vm.get(names[a]) or vm.get(names[b])
        if v is None:
            return None
        if v[0][0] in ("Ip4Addr", "Ip6Addr"):
            return v[0][1]
        return "ABSENT?"

    def num(key, bits):
        v = vm.get(names[key])
        if v is None:
            return None
        if v[0][0] == "DataNumber":
            return ("num", v[0][1], lens.get(names[key]))
        if v[0][0] == "ProtocolType":
            # V9 decodes PROTOCOL as a name: the view must give the number of that name (repair
            # 39ac76d); only `Unknown` (bytes 145..254) does not keep its number
            n = IANA_NUMBER.get(v[0][1])
            if cls_prefix.endswith("v9") and key == "proto" and n is not None:
                return ("must", n)
            classes.add(cls_prefix + "_protocol")
            return "ANY"
        if v[0][0] == "Duration":
            # V9 decodes FIRST/LAST_SWITCHED as durations: the view must give the millisecond
            # count whenever it fits 32 bits
            d = plain(v[0][1])
            ms = d["secs"] * 1000 + d["nanos"] // 1000000
            if cls_prefix.endswith("v9") and key in ("first", "last") and ms < 2 ** 32:
                return ("must", ms)
            classes.add(cls_prefix + "_switched")
            return "ANY"
        return "ABSENT?"

    def mac(key):
        v = vm.get(names[key])
        if v is None:
            return None
        if v[0][0] in ("MacAddr", "String"):
            return v[0][1]
        return "ABSENT?"

    exp = {"src_addr": ip("src4", "src6"), "dst_addr": ip("dst4", "dst6"), "src_port": num("sport", 16), "dst_port": num("dport", 16),
           "protocol_number": num("proto", 8), "first_seen": num("first", 32), "last_seen": num("last", 32),
           "src_mac": mac("smac"), "dst_mac": mac("dmac")}
    pv = vm.get(names["proto"])
    if pv is not None and pv[0][0] == "ProtocolType" and pv[0][1] != "Unknown":
        exp["__decoded_protocol_name__"] = pv[0][1]      # V9: the record's own protocol name
    return exp, classes


def flow_diff(exp, got, widths, cls_prefix, proto_from):
    """compare one expected projection with one common flow; returns (class|None, msg) list"""
    out = []
    g = plain(got)
    for key, want in exp.items():
        if key == "__decoded_protocol_name__":
            # "protocol number and name equal the decoded field" (V9: the record holds a name).  Until
            # repair 5481932 the view derived the name from the number through From<u8>, whose table
            # names 0, 1, 144 and 255 differently from the enum the record was decoded with
            if g.get("protocol_type") != want:
                out.append((None, "protocol_type %r for a record whose protocol was decoded as %r (number %r)" % (g.get("protocol_type"), want, g.get("protocol_number"))))
            continue
        have = g.get(key)
        if want == "ANY":
            # a value the view's type cannot express (class recorded by the caller): the documented
            # deviation is that the field is ABSENT, never that a number is made up for it
            if have is not None:
                out.append((None, "%s = %r although the record's value cannot be expressed in the common field (the documented deviation is absence)" % (key, have)))
            continue
        if want == "ABSENT?":
            if have is not None:
                out.append((None, "%s = %r from a value of an unexpected kind" % (key, have)))
            continue
        if isinstance(want, tuple):
            n = want[1]
            bits = widths[key]
            if have is None and isinstance(n, int):
                if want[0] == "must" or 0 <= n < (1 << bits):
                    out.append((None, "%s absent although the record has the field (value %r fits the common field)" % (key, n)))
                    continue
                # the value does not fit the common field's type (a 4-byte port holding 70000):
                # nothing the view could say (repair 555d804 narrowed the class to this)
                out.append((cls_prefix + "_width", "%s absent: the record's value %r does not fit the common field" % (key, n)))
                continue
            if have != n:
                out.append((None, "%s = %r, the record's field is %r" % (key, have, n)))
            continue
        if have != want:
            out.append((None, "%s = %r, the record's field is %r" % (key, have, want)))
    # protocol name must be the table's name of the number, when a number is there and the record
    # held a plain number (IPFIX, or a V9 field of another width)
    if "__decoded_protocol_name__" in exp:
        pass
    elif g.get("protocol_number") is not None:
        if g.get("protocol_type") != proto_from.get(g["protocol_number"]):
            out.append((None, "protocol_type %r for number %r" % (g.get("protocol_type"), g["protocol_number"])))
    elif g.get("protocol_type") is not None:
        out.append((None, "protocol_type without protocol_number"))
    return out


def c13(case, obs, crash, tables):
    f = []
    proto_from = {n: v[0] for n, v in tables.proto.items()} if tables else {}
    widths = {"src_port": 16, "dst_port": 16, "protocol_number": 8, "first_seen": 32, "last_seen": 32}
    ops = parse_ops(case)
    live_all = {}
    last_S = {}
    for k, (o, op) in enumerate(zip(obs, ops)):
        if op[0] == "F":
            continue
        R = get(o, "R")
        C = get(o, "C")
        if not isinstance(R, list) or isinstance(R, canon.Pairs) or C is None:
            continue
        live = live_all.setdefault(op[1], {"V9": {}, "IPFix": {}})
        Sprev = last_S.get(op[1])
        if Sprev is not None:
            # what the parser held when this call began (authoritative: includes templates learned
            # by packets that failed later in an earlier call)
            live["V9"] = {e_[0]: (get(e_[1], "fields") or []) for e_ in get(Sprev, "v9_t") or []}
            live["IPFix"] = {e_[0]: (get(e_[1], "fields") or []) for e_ in get(Sprev, "ix_t") or []}
        if get(o, "S") is not None:
            last_S[op[1]] = get(o, "S")
        for j, (e, c) in enumerate(zip(R, C)):
            kind = elem_kind(e)
            if kind == "Error":
                if c != "ERR":
                    f.append((None, "op %d: error element converts to %r" % (k, c)))
                continue
            if c == "ERR" or c == "PANIC":
                f.append((None, "op %d: %s element converts to %s" % (k, kind, c)))
                continue
            b = elem_body(e)
            h = plain(get(b, "header"))
            cc = plain(c)
            ver = {"V5": 5, "V7": 7, "V9": 9, "IPFix": 10}[kind]
            ts = h.get("export_time") if kind == "IPFix" else h.get("sys_up_time")
            if cc["version"] != ver or cc["timestamp"] != ts:
                f.append((None, "op %d: %s common version/timestamp %r/%r, packet says %r/%r" % (k, kind, cc["version"], cc["timestamp"], ver, ts)))
            flows = get(c, "flows")
            if kind in ("V5", "V7"):
                recs = get(b, "flowsets")
                if len(flows) != len(recs):
                    f.append((None, "op %d: %s %d records, %d common flows" % (k, kind, len(recs), len(flows))))
                    continue
                for r, fl in zip(recs, flows):
                    r = plain(r)
                    fl = plain(fl)
                    exp = {"src_addr": r["src_addr"], "dst_addr": r["dst_addr"], "src_port": r["src_port"], "dst_port": r["dst_port"],
                           "protocol_number": r["protocol_number"], "protocol_type": r["protocol_type"], "first_seen": r["first"],
                           "last_seen": r["last"], "src_mac": None, "dst_mac": None}
                    if fl != exp:
                        f.append((None, "op %d: %s flow %r differs from record projection %r" % (k, kind, fl, exp)))
                continue
            names = V9_NAMES if kind == "V9" else IX_NAMES
            pre = "K_C13_v9" if kind == "V9" else "K_C13_ipfix"
            records = []
            tmap = live[kind]

            def by_number(fid, rec):
                """name the record's values by the element NUMBER the template gave them (RFC 3954 /
                IANA numbers of the projected fields), not by the library's name for that number:
                a wrong row in the name table must not carry over into the expectation"""
                fields = tmap.get(fid)
                if not fields:
                    return rec, names
                if len(fields) != len(rec):
                    return rec, names
                out = []
                lens = {}
                for q, (_nm, v) in zip(fields, rec):
                    ent = get(q, "enterprise_number")
                    nm2 = ("#E%d" if ent is not None else "#%d") % get(q, "field_type_number")
                    out.append((nm2, v))
                    lens[nm2] = get(q, "field_length")
                return out, dict({role: "#%d" % n for role, n in ROLE_NUMBERS.items()}, __lens__=lens)

            rec_names = []
            for fs in get(b, "flowsets"):
                body = get(fs, "body")
                if body[0][0] == "Template":
                    # the definition in force for the data that follows (in this packet or later)
                    inner = body[0][1]
                    for t in (get(inner, "templates") if get(inner, "templates") is not None else [inner]):
                        tmap[get(t, "template_id")] = get(t, "fields") or []
                if body[0][0] != "Data":
                    continue
                fh = get(fs, "header")
                fid = get(fh, "flowset_id", get(fh, "header_id"))
                if kind == "V9":
                    for rec in get(body[0][1], "fields"):
                        r2, nm = by_number(fid, [(tv[0], tv[1]) for _key, tv in rec])
                        records.append(r2)
                        rec_names.append(nm)
                else:
                    cur = None
                    group = []
                    for m in get(body[0][1], "fields"):
                        key, tv = m[0]
                        if key == "0" or cur is None:
                            cur = []
                            group.append(cur)
                        cur.append((tv[0], tv[1]))
                    for cur in group:
                        r2, nm = by_number(fid, cur)
                        records.append(r2)
                        rec_names.append(nm)
            if len(flows) != len(records):
                if kind == "IPFix" and len(flows) == sum(len(r) for r in records) and any(len(r) > 1 for r in records):
                    f.append(("K_C13_ipfix_per_field", "IPFIX data with %d records of several fields yields %d common flows (one per field)" % (len(records), len(flows))))
                else:
                    f.append((None, "op %d: %s %d data records, %d common flows" % (k, kind, len(records), len(flows))))
                continue
            for rec, fl, nm in zip(records, flows, rec_names):
                exp, classes = project(rec, nm, proto_from, pre, nm.get("__lens__"))
                for cls, msg in flow_diff(exp, fl, widths, pre, proto_from):
                    f.append((cls, "op %d: %s: %s" % (k, kind, msg)))
                gl = plain(fl)
                for c_ in classes:
                    key = "protocol_number" if c_.endswith("_protocol") else None
                    if c_.endswith("_protocol") and gl.get("protocol_number") is None:
                        f.append((c_, "%s record has a protocol field decoded as Unknown (a byte of 145..254 keeps no number): the common flow has no protocol number/name" % kind))
                    if c_.endswith("_switched") and (gl.get("first_seen") is None or gl.get("last_seen") is None):
                        f.append((c_, "%s record has first/last switched whose millisecond count exceeds 32 bits: the common flow lacks them" % kind))
    # F ops: flat view = concatenation of the flows of the non-error packets of the twin B op
    bp = {}
    for (op, o) in zip(ops, obs):
        bp.setdefault(op[2], {})[op[0]] = o
    for key, d in bp.items():
        if "B" in d and "F" in d:
            C = get(d["B"], "C")
            F = get(d["F"], "F")
            if C is None or F is None:
                continue
            want = []
            for c in C:
                if c not in ("ERR", "PANIC"):
                    want.extend(get(c, "flows"))
            dd = canon.diff(want, F, "F")
            if dd:
                f.append((None, "parse_bytes_as_netflow_common_flowsets is not the concatenation of the packets' flows: %s" % dd))
    return f


# ---------------------------------------------------------------- C15 (cost)

def _max_fields(S, keys, field_keys):
    """largest number of field specifiers of any template in the given caches"""
    m = 0
    for k in keys:
        for e in get(S, k) or []:
            t = e[1]
            m = max(m, sum(len(get(t, fk) or []) for fk in field_keys))
    return m


def _fields_of(S, keys, field_keys, tid):
    """number of field specifiers of the cached template of that id (0 when there is none)"""
    m = 0
    for k in keys:
        for e in get(S, k) or []:
            if e[0] == tid:
                m = max(m, sum(len(get(e[1], fk) or []) for fk in field_keys))
    return m


def _v9_data_ids(p):
    """ids of the data flowsets of one V9 packet's bytes, walking its flowset headers"""
    out = []
    q = 20
    while q + 4 <= len(p):
        fid = int.from_bytes(p[q : q + 2], "big")
        ln = int.from_bytes(p[q + 2 : q + 4], "big")
        if fid > 255:
            out.append(fid)
        q += max(ln, 4)
    return out


def c15(case, obs, crash):
    """allocated bytes during parse_bytes against input length + serialized result size.

    A call over the bound is a known finding only if one of the listed mechanisms can account for
    the excess ON THIS CALL (what the call decoded, the templates the parser holds); anything
    else over the bound is a violation."""
    f = []
    ops = [o for o in parse_ops(case) if o[0] == "B"]
    for k, (o, op) in enumerate(zip(obs, ops)):
        M = get(o, "M")
        L = get(o, "L")
        R = get(o, "R")
        S = get(o, "S")
        if M is None or L is None or not isinstance(R, list) or isinstance(R, canon.Pairs):
            continue
        x = op[2]
        n = len(x)
        bound = 4096 + 600 * n + 40 * L
        if M <= bound:
            continue
        npk = len(R)
        # what the call did, from its result (and, for IPFIX sets that were dropped, from the bytes)
        v9_data = 0        # V9 data / options-data flowsets decoded, or a V9 packet that failed part-way
        ix_data = 0        # IPFIX sets with a data id inside the reported messages
        ix_values = 0      # IPFIX values decoded (each is its own single-entry BTreeMap)
        count_sites = 1    # nom `count` calls that can have reserved from an announced count alone
        v9_ids = []        # ids of the V9 data flowsets met, and of the IPFIX data sets met: the templates
        ix_ids = []        # THIS call had a reason to copy (not whatever else the caches hold)
        pos = 0
        for e in R:
            kind = elem_kind(e)
            if kind == "V9":
                for fs in get(elem_body(e), "flowsets"):
                    bk = get(fs, "body")[0][0]
                    if bk in ("Data", "OptionsData"):
                        v9_data += 1
                    else:
                        count_sites += 1
                v9_ids += _v9_data_ids(x[pos : pos + wire_len(e)])
                pos += wire_len(e)
            elif kind == "IPFix":
                for fs in get(elem_body(e), "flowsets"):
                    bd = get(fs, "body")
                    if bd[0][0] in ("Data", "OptionsData"):
                        ix_values += len(get(bd[0][1], "fields") or [])
                w = wire_len(e)
                q = pos + 16
                while q + 4 <= min(pos + w, n):
                    sid = int.from_bytes(x[q : q + 2], "big")
                    ln = int.from_bytes(x[q + 2 : q + 4], "big")
                    if sid >= 255:
                        ix_data += 1
                        ix_ids.append(sid)
                    elif sid == 3:
                        count_sites += 1
                    q += max(ln, 4)
                pos += w
            elif kind in ("V5", "V7"):
                pos += wire_len(e)
            else:
                v = elem_version(e)
                rem = len(get(elem_body(e), "remaining"))
                if v == 9:
                    v9_data += 1
                    count_sites += rem // 8
                    v9_ids += _v9_data_ids(bytes(get(elem_body(e), "remaining")))
                else:
                    count_sites += 1
        t9 = max([_fields_of(S, ("v9_t", "v9_o"), ("fields", "scope_fields", "option_fields"), i) for i in set(v9_ids)] + [0]) if S is not None else 0
        tx = max([_fields_of(S, ("ix_t", "ix_o"), ("fields",), i) for i in set(ix_ids)] + [0]) if S is not None else 0
        ix_cloned = sum(_fields_of(S, ("ix_t", "ix_o"), ("fields",), i) + 1 for i in ix_ids) if S is not None else 0
        excess = M - bound
        cls = None
        # (1) the remaining buffer is copied once per chained packet
        if npk >= 8 and excess <= npk * n:
            cls = "K_C15_chained_copy"
        # (2) V9: the template is cloned per record iteration (a failing record is retried for every
        #     remaining iteration) and zero-length fields are materialised per record: at most one
        #     template's worth per input byte of the data flowsets
        elif v9_data and excess <= 64 * n * (t9 + 1):
            cls = "K_C15_v9_retry_or_zero_len"
        # (3) IPFIX: zero-length fields inflate every data byte into |template| output values, each
        #     value a map of its own (about 1 KB allocated against some 40 bytes of JSON); the template
        #     is cloned once per data set
        elif ix_data and excess <= 64 * ix_cloned + 1024 * ix_values:
            cls = "K_C15_zero_len_inflation"
        # (4) nom's `count` reserves up to 64 KiB from the announced count, once per count call
        elif excess <= 70000 * count_sites:
            cls = "K_C15_count_prealloc"
        f.append((cls, "op %d: %d bytes allocated for a %d-byte buffer and a %d-byte serialized result (bound %d; V9 data flowsets %d, IPFIX data sets %d, largest template used by this call's data %d/%d fields, count sites %d)"
                  % (k, M, n, L, bound, v9_data, ix_data, t9, tx, count_sites)))
    return f


# ---------------------------------------------------------------- C17 (feature off)

def c17(case, obs, crash, tables):
    """obs: the feature-off build; case.meta['default_obs']: the default build on the same ops"""
    f = []
    dobs = case.meta.get("default_obs")
    if dobs is None:
        return f
    unk = {"V9": {"Unknown"}, "IPFix": {"Unknown"}}
    if tables:
        unk["V9"] |= {v[0] for v in tables.v9.values() if v[2] == "Unknown"}
        unk["IPFix"] |= {v[0] for v in tables.ipfix.values() if v[2] == "Unknown"}

    def unknown_values(Rx):
        for e in Rx:
            if elem_kind(e) in ("V9", "IPFix"):
                unknown_names = unk[elem_kind(e)]
                for fs in get(elem_body(e), "flowsets"):
                    b = get(fs, "body")
                    if b[0][0] in ("Data", "OptionsData") and get(b[0][1], "fields") is not None:
                        for rec in get(b[0][1], "fields"):
                            for _key, tv in rec:
                                if tv[0] in unknown_names:
                                    return True
        return False

    def unknown_templates(Rx):
        """a template that names a field the library does not know was received"""
        for e in Rx:
            if elem_kind(e) in ("V9", "IPFix"):
                unknown_names = unk[elem_kind(e)]
                for fs in get(elem_body(e), "flowsets"):
                    b = get(fs, "body")
                    if b[0][0] in ("Template", "OptionsTemplate"):
                        ts = get(b[0][1], "templates")
                        ts = ts if ts is not None else [b[0][1]]
                        for t in ts:
                            for key in ("fields", "option_fields"):
                                for q in get(t, key) or []:
                                    if get(q, "field_type") in unknown_names and get(q, "enterprise_number") is None:
                                        return True
        return False

    diverged = False      # from the first template with an unknown field on, the two builds may differ
    for k, (o, d) in enumerate(zip(obs, dobs)):
        R = get(o, "R")
        RD = get(d, "R")
        if not isinstance(R, list) or not isinstance(RD, list):
            continue
        if unknown_values(R):
            f.append((None, "op %d: a value of a field type the library does not know is reported as decoded data with parse_unknown_fields off" % k))
        if unknown_templates(RD) or unknown_values(RD):
            diverged = True
        if not diverged:
            for key in ("R", "X", "C"):
                dd = canon.diff(get(d, key), get(o, key), key)
                if dd:
                    f.append((None, "op %d: known-only input differs between the default and the feature-off build: %s" % (k, dd)))
    return f
