#!/usr/bin/env python3
"""developer tool: run the generators through crate and model and print disagreements"""
import os, random, sys
sys.path.insert(0, os.path.dirname(os.path.abspath(__file__)))
import core, gen, canon

def main():
    seed = int(sys.argv[1]) if len(sys.argv) > 1 else 1
    n = int(sys.argv[2]) if len(sys.argv) > 2 else 300
    with core.Lock():
        st = core.translate(); assert st["ok"], st
        ok, log = core.build_model(); assert ok, log[-3000:]
        ok, log = core.build_harness(); assert ok, log[-3000:]
        tb = os.path.join(core.CACHE, "tables.rust.txt")
        rc, out, _ = core.sh([core.harness_bin(), "tables"]); open(tb, "w").write(out)
    tables = gen.Tables(tb)
    rng = random.Random(seed)
    cases = []
    for i in range(n):
        k = i % 4
        if k == 0: cases.append(gen.conformant_stream(rng, tables, parsers=rng.choice([1,1,2])))
        elif k == 1: cases.append(gen.mutated_stream(rng, tables))
        elif k == 2: cases.append(gen.mutated_stream(rng, tables, conformant_templates=True))
        else: cases.append(gen.malformed(rng))
    res = core.run_both(cases, os.path.join(core.CACHE, "work", "explore"))
    bad = 0
    for c, r, m, crash in res:
        d = core.compare_case(r, m, ["R", "X", "C", "D", "S", "F"])
        if d or crash:
            bad += 1
            if bad <= 8:
                print("DISAGREE", c.gen, d, crash)
                print(c.text(0)[:1500])
    print("cases", len(res), "disagreements", bad)

main()
