#!/usr/bin/env python3
"""Tie (A) of DESIGN.md: regenerate coq/Gen/*.v from the current /repo source.

Plain text processing over very regular code; fails loudly (TranslateError) on anything it does
not recognise.  Output is written only when it changes, so an unchanged tree does not trigger
a Coq rebuild.
"""
import hashlib
import json
import os
import re
import sys

REPO = os.environ.get("VERIF_REPO", "/repo")
HERE = os.path.dirname(os.path.abspath(__file__))
GEN = os.path.join(os.path.dirname(HERE), "coq", "Gen")


class TranslateError(Exception):
    pass


def read(rel):
    with open(os.path.join(REPO, rel)) as f:
        return f.read()


def strip_comments(s):
    out = []
    i = 0
    n = len(s)
    while i < n:
        c = s[i]
        if s.startswith("//", i):
            j = s.find("\n", i)
            if j < 0:
                j = n
            i = j
        elif s.startswith("/*", i):
            j = s.find("*/", i)
            if j < 0:
                raise TranslateError("unterminated comment")
            out.append("\n" * s.count("\n", i, j))
            i = j + 2
        elif c == '"':
            j = i + 1
            while j < n and s[j] != '"':
                if s[j] == "\\":
                    j += 1
                j += 1
            out.append(s[i : j + 1])
            i = j + 1
        elif c == "'" and i + 2 < n and (s[i + 2] == "'" or (s[i + 1] == "\\" and i + 3 < n and s[i + 3] == "'")):
            j = s.find("'", i + 2)
            out.append(s[i : j + 1])
            i = j + 1
        else:
            out.append(c)
            i += 1
    return "".join(out)


def strip_test_mods(s):
    """remove #[cfg(test)] mod … { … } blocks"""
    while True:
        m = re.search(r"#\[cfg\(test\)\]\s*mod\s+\w+\s*\{", s)
        if not m:
            return s
        end = match_brace(s, m.end() - 1)
        s = s[: m.start()] + "\n" * s.count("\n", m.start(), end + 1) + s[end + 1 :]


def match_brace(s, i, open_="{", close="}"):
    """s[i] is an opening brace; return index of its partner (string-literal aware)"""
    assert s[i] == open_, (s[i - 20 : i + 20])
    depth = 0
    j = i
    n = len(s)
    while j < n:
        c = s[j]
        if c == '"':
            j += 1
            while j < n and s[j] != '"':
                if s[j] == "\\":
                    j += 1
                j += 1
        elif c == open_:
            depth += 1
        elif c == close:
            depth -= 1
            if depth == 0:
                return j
        j += 1
    raise TranslateError("unbalanced braces")


def block_after(s, header_re, what):
    m = re.search(header_re, s)
    if not m:
        raise TranslateError("cannot find " + what)
    i = s.find("{", m.end() - 1)
    j = match_brace(s, i)
    return s[i + 1 : j], m


def parse_int(t):
    t = t.strip().replace("_", "")
    t = re.sub(r"(u8|u16|u32|u64|usize|i32)$", "", t)
    if t.startswith("0x"):
        return int(t, 16)
    if not re.fullmatch(r"\d+", t):
        raise TranslateError("not an integer literal: %r" % t)
    return int(t)


def parse_enum(src, name):
    body, _ = block_after(src, r"pub\s+enum\s+%s\s*\{" % name, "enum " + name)
    body = re.sub(r"#\[[^\]]*\]", "", body)
    variants = []
    nxt = 0
    for item in body.split(","):
        item = item.strip()
        if not item:
            continue
        m = re.fullmatch(r"(\w+)\s*(?:=\s*(\w+))?", item)
        if not m:
            raise TranslateError("enum %s: cannot parse variant %r" % (name, item))
        if m.group(2) is not None:
            nxt = parse_int(m.group(2))
        variants.append((m.group(1), nxt))
        nxt += 1
    return variants


def parse_match(body, what):
    """body: the text inside `match … { … }`; arms `pat => Path::Name,` ; returns (arms, default)"""
    arms = []
    default = None
    # split on commas at depth 0
    parts = []
    depth = 0
    cur = []
    for c in body:
        if c in "({[":
            depth += 1
        elif c in ")}]":
            depth -= 1
        if c == "," and depth == 0:
            parts.append("".join(cur))
            cur = []
        else:
            cur.append(c)
    if "".join(cur).strip():
        parts.append("".join(cur))
    for p in parts:
        p = p.strip()
        if not p:
            continue
        if "=>" not in p:
            raise TranslateError("%s: arm without =>: %r" % (what, p))
        pat, rhs = p.split("=>", 1)
        pat = pat.strip()
        rhs = rhs.strip()
        if " if " in pat:
            raise TranslateError("%s: guarded arm %r" % (what, pat))
        if pat == "_":
            default = rhs
            continue
        keys = []
        for alt in pat.split("|"):
            alt = alt.strip()
            if "..=" in alt:
                a, b = alt.split("..=")
                keys.extend(range(parse_int(a), parse_int(b) + 1))
            elif ".." in alt:
                raise TranslateError("%s: half-open range %r" % (what, alt))
            else:
                keys.append(alt)
        arms.append((keys, rhs))
    return arms, default


def last_seg(path):
    return path.strip().split("::")[-1].strip()


def fn_match_body(src, impl_re, what):
    body, _ = block_after(src, impl_re, what)
    m = re.search(r"match\s+[^{]+\{", body)
    if not m:
        raise TranslateError(what + ": no match expression")
    i = body.find("{", m.start())
    j = match_brace(body, i)
    return body[i + 1 : j]


def table_from_num(src, impl_re, what, variants):
    """impl From<uN> for Enum: number -> variant; first matching arm wins"""
    disc = dict(variants)
    arms, default = parse_match(fn_match_body(src, impl_re, what), what)
    tbl = []
    seen = set()
    for keys, rhs in arms:
        v = last_seg(rhs)
        if v not in disc:
            raise TranslateError("%s: unknown variant %s" % (what, v))
        for k in keys:
            k = parse_int(k) if not isinstance(k, int) else k
            if k in seen:
                continue
            seen.add(k)
            tbl.append((k, disc[v]))
    if default is None:
        raise TranslateError(what + ": no default arm")
    d = last_seg(default)
    if d not in disc:
        raise TranslateError("%s: unknown default %s" % (what, d))
    return tbl, disc[d]


def table_from_variant(src, impl_re, what, variants):
    """impl From<Enum> for u8: variant -> number (all variants must be covered or a default)"""
    disc = dict(variants)
    arms, default = parse_match(fn_match_body(src, impl_re, what), what)
    tbl = {}
    for keys, rhs in arms:
        for k in keys:
            v = last_seg(k)
            if v not in disc:
                raise TranslateError("%s: unknown variant %s" % (what, v))
            if v not in tbl:
                tbl[v] = parse_int(rhs)
    out = []
    for name, d in variants:
        if name in tbl:
            out.append((d, tbl[name]))
        elif default is not None:
            out.append((d, parse_int(default)))
        else:
            raise TranslateError("%s: variant %s not covered" % (what, name))
    return out


DTYPES = {
    "String": "DString", "SignedDataNumber": "DSigned", "UnsignedDataNumber": "DUnsigned",
    "Float64": "DFloat64", "DurationSeconds": "DDurSecs", "DurationMillis": "DDurMillis",
    "DurationMicros": "DDurMicros", "DurationNanos": "DDurNanos", "Ip4Addr": "DIp4",
    "Ip6Addr": "DIp6", "MacAddr": "DMac", "Vec": "DVec", "ProtocolType": "DProto",
    "Unknown": "DUnknown",
}


def table_dtype(src, impl_re, what):
    """impl From<Field> for FieldDataType: `match d as u16 { n => FieldDataType::X, _ => … }`"""
    arms, default = parse_match(fn_match_body(src, impl_re, what), what)
    tbl = []
    seen = set()
    for keys, rhs in arms:
        t = last_seg(rhs)
        if t not in DTYPES:
            raise TranslateError("%s: unknown data type %s" % (what, t))
        for k in keys:
            k = parse_int(k) if not isinstance(k, int) else k
            if k not in seen:
                seen.add(k)
                tbl.append((k, DTYPES[t]))
    if default is None or last_seg(default) not in DTYPES:
        raise TranslateError(what + ": bad default")
    return tbl, DTYPES[last_seg(default)]


# ---------------------------------------------------------------- layouts

TY_WIDTH = {"u8": 1, "u16": 2, "u32": 4, "u64": 8, "Ipv4Addr": 4}


def split_top(s, sep=","):
    parts = []
    depth = 0
    cur = []
    instr = False
    i = 0
    while i < len(s):
        c = s[i]
        if c == '"':
            instr = not instr
        if not instr:
            if c in "({[<":
                depth += 1
            elif c in ")}]>":
                depth -= 1
        if c == sep and depth == 0 and not instr:
            parts.append("".join(cur))
            cur = []
        else:
            cur.append(c)
        i += 1
    parts.append("".join(cur))
    return parts


def parse_struct(src, name):
    """-> list of (field name, type, nom-attribute text or '', serde-attribute text or '')"""
    body, _ = block_after(src, r"pub\s+struct\s+%s\s*\{" % name, "struct " + name)
    fields = []
    i = 0
    pending_nom = ""
    pending_serde = ""
    n = len(body)
    while i < n:
        if body[i].isspace() or body[i] == ",":
            i += 1
            continue
        if body.startswith("#[", i):
            j = match_brace(body, i + 1, "[", "]")
            attr = body[i + 2 : j].strip()
            if attr.startswith("nom"):
                pending_nom += attr[3:].strip()
            elif attr.startswith("serde"):
                pending_serde += attr[5:].strip()
            i = j + 1
            continue
        m = re.compile(r"pub\s+(\w+)\s*:\s*").match(body, i)
        if not m:
            raise TranslateError("struct %s: cannot parse at %r" % (name, body[i : i + 40]))
        j = m.end()
        depth = 0
        k = j
        while k < n and not (body[k] == "," and depth == 0):
            if body[k] in "<(":
                depth += 1
            elif body[k] in ">)":
                depth -= 1
            k += 1
        ty = body[j:k].strip()
        fields.append((m.group(1), ty, pending_nom, pending_serde))
        pending_nom = ""
        pending_serde = ""
        i = k + 1
    return fields


def layout_of(src, name, what):
    out = []
    for fname, ty, nom, _serde in parse_struct(src, name):
        if ty not in TY_WIDTH and ty != "ProtocolTypes":
            raise TranslateError("%s.%s: unsupported type %s" % (what, fname, ty))
        show = {"Ipv4Addr": "ShowIp4", "ProtocolTypes": "ShowProto"}.get(ty, "ShowNum")
        width = TY_WIDTH.get(ty, 1)
        nom = nom.strip()
        if not nom:
            if ty == "Ipv4Addr" or ty == "ProtocolTypes":
                raise TranslateError("%s.%s: %s without nom attribute" % (what, fname, ty))
            kind = "KStream"
        else:
            inner = nom[1:-1].strip() if nom.startswith("(") else nom
            m = re.fullmatch(r'Value\s*=\s*"(\d+)"', inner)
            m2 = re.fullmatch(r"Value\s*\(\s*ProtocolTypes::from\s*\(\s*(\w+)\s*\)\s*\)", inner)
            m3 = re.fullmatch(r'Map\s*=\s*"Ipv4Addr::from"\s*,\s*Parse\s*=\s*"be_u32"', inner)
            m3b = re.fullmatch(r'Parse\s*=\s*"be_u32"\s*,\s*Map\s*=\s*"Ipv4Addr::from"', inner)
            if m:
                kind = "(KConst %d)" % int(m.group(1))
            elif m2:
                kind = '(KProtoOf "%s")' % m2.group(1)
            elif (m3 or m3b) and ty == "Ipv4Addr":
                kind = "KComplete"
            else:
                raise TranslateError("%s.%s: unsupported nom attribute %r" % (what, fname, nom))
        out.append((fname, width, kind, show))
    return out


def count_field(src, name, what):
    """struct V5 { header: Header, #[nom(Count = "header.count")] flowsets: Vec<FlowSet> }"""
    fs = parse_struct(src, name)
    if [f[0] for f in fs] != ["header", "flowsets"] or fs[0][1] != "Header" or fs[1][1] != "Vec<FlowSet>":
        raise TranslateError("%s: unexpected shape %r" % (what, fs))
    m = re.fullmatch(r'\(\s*Count\s*=\s*"header\.(\w+)"\s*\)', fs[1][2].strip())
    if not m:
        raise TranslateError("%s: unexpected Count attribute %r" % (what, fs[1][2]))
    return m.group(1)


def export_order(src, name, what):
    """symbolically run the body of `impl <name> { pub fn to_be_bytes(&self) -> Vec<u8> {…} }`
    -> (header tokens, record tokens), token = (field, method)"""
    body, _ = block_after(src, r"impl\s+%s\s*\{" % name, "impl " + name)
    fb, _ = block_after(body, r"pub\s+fn\s+to_be_bytes\s*\(\s*&self\s*\)\s*->\s*Vec<u8>\s*\{", what + " to_be_bytes")
    env = {}
    loopvar = None
    header_done = []

    def eval_expr(e):
        e = e.strip()
        if e == "vec![]" or e == "Vec::new()":
            return []
        m = re.fullmatch(r"self\.header\.(\w+)\.(to_be_bytes|octets)\(\)(\.to_vec\(\))?", e)
        if m:
            return [("H", m.group(1), m.group(2))]
        m = re.fullmatch(r"(\w+)\.(\w+)\.(to_be_bytes|octets)\(\)(\.to_vec\(\))?", e)
        if m and m.group(1) == loopvar:
            return [("R", m.group(2), m.group(3))]
        raise TranslateError("%s: unsupported expression %r" % (what, e))

    def run(stmts_text):
        nonlocal loopvar
        i = 0
        t = stmts_text
        n = len(t)
        while i < n:
            if t[i].isspace():
                i += 1
                continue
            m = re.compile(r"for\s+(\w+)\s+in\s+&self\.flowsets\s*\{").match(t, i)
            if m:
                j = match_brace(t, m.end() - 1)
                if loopvar is not None:
                    raise TranslateError(what + ": nested loop")
                loopvar = m.group(1)
                run(t[m.end() : j])
                loopvar = None
                i = j + 1
                continue
            j = t.find(";", i)
            if j < 0:
                tail = t[i:].strip()
                if tail in env:
                    env["__ret__"] = env[tail]
                    return
                raise TranslateError("%s: trailing %r" % (what, tail))
            st = t[i:j].strip()
            i = j + 1
            m = re.fullmatch(r"let\s+(?:mut\s+)?(\w+)\s*=\s*(.+)", st, re.S)
            if m:
                env[m.group(1)] = eval_expr(m.group(2))
                continue
            m = re.fullmatch(r"(\w+)\.extend_from_slice\(\s*&(\w+)\s*\)", st)
            if m:
                if m.group(1) not in env or m.group(2) not in env:
                    raise TranslateError("%s: unknown variable in %r" % (what, st))
                env[m.group(1)] = env[m.group(1)] + env[m.group(2)]
                continue
            raise TranslateError("%s: unsupported statement %r" % (what, st))

    run(fb)
    if "__ret__" not in env:
        raise TranslateError(what + ": no result expression")
    toks = env["__ret__"]
    hdr = [t for t in toks if t[0] == "H"]
    rec = [t for t in toks if t[0] == "R"]
    # header tokens must all come before record tokens
    if toks != hdr + rec:
        raise TranslateError(what + ": header bytes emitted after record bytes")
    return [(t[1], t[2]) for t in hdr], [(t[1], t[2]) for t in rec]


def header_layout(src, what):
    return layout_of(src, "Header", what)


# ---------------------------------------------------------------- inventories

PANIC_PATTERNS = [
    ("unwrap", r"\.unwrap\(\)"),
    ("expect", r"\.expect\("),
    ("panic", r"\bpanic!\s*\("),
    ("unreachable", r"\bunreachable!\s*\("),
    ("unimplemented", r"\b(unimplemented|todo)!\s*\("),
    ("assert", r"\b(assert|assert_eq|assert_ne)!\s*\("),
    ("div", r"[\w\)\]]\s*/\s*[\w\(]"),
    ("rem", r"[\w\)\]]\s*%\s*[\w\(]"),
    ("sat_div", r"\.(saturating_div|wrapping_div|overflowing_div|div_euclid|rem_euclid|wrapping_rem|overflowing_rem|div_ceil|next_multiple_of|abs_diff_never)\s*\("),
    ("index", r"[\w\)\]]\[[^\]]+\]"),
    ("arith", r"[\w\)\]]\s(\+|-|\*)\s[\w\(]"),
    ("arith_assign", r"(\+=|-=|\*=|/=|%=|<<=|>>=)"),
    # binary shifts as rustfmt writes them (spaces around the operator): `TryFrom<u128>>(value` is no shift
    ("shift", r"[\w\)\]]\s(<<|>>)\s[\w\(]"),
    # Vec::remove(index) can panic; a map's remove(&key) cannot
    ("slice_fn", r"\.(split_at|copy_from_slice|swap|swap_remove|drain|split_off|truncate|insert\s*\(\s*\d)\b|\.remove\s*\(\s*(?!&)"),
    ("from_utf8_unwrap", r"from_utf8_unchecked|get_unchecked"),
    ("exit", r"process::(exit|abort)"),
    ("unsafe", r"\bunsafe\b"),
    ("loop", r"\b(loop|while)\b"),
]

LOGIC_FILES = [
    "src/lib.rs", "src/netflow_common.rs", "src/protocol.rs",
    "src/static_versions/v5.rs", "src/static_versions/v7.rs",
    "src/variable_versions/v9.rs", "src/variable_versions/ipfix.rs",
    "src/variable_versions/data_number.rs", "src/variable_versions/v9_lookup.rs",
    "src/variable_versions/ipfix_lookup.rs", "src/variable_versions/mod.rs",
    "src/static_versions/mod.rs",
]


def blank_strings_keep_nom(s):
    """nom attribute strings contain Rust code (Count = "(a / 4) as usize"), keep them; blank doc strings only"""
    return s


def fn_spans(src):
    """-> list of (name, start, end) for every fn item (brace matched)"""
    out = []
    for m in re.finditer(r"\bfn\s+(\w+)\s*(?:<[^>{]*>)?\s*\(", src):
        i = src.find("{", m.end())
        semi = src.find(";", m.end())
        if i < 0 or (0 <= semi < i):
            continue
        try:
            j = match_brace(src, i)
        except TranslateError:
            continue
        out.append((m.group(1), m.start(), j))
    return out


def inventory():
    sites = []
    recursion = []
    statics = []
    hashes = {}
    for rel in LOGIC_FILES:
        try:
            raw = read(rel)
        except FileNotFoundError:
            raise TranslateError("missing source file " + rel)
        src = strip_test_mods(strip_comments(raw))
        # remove attribute lines that are not nom attributes (derive lists contain no code)
        spans = fn_spans(src)

        def owner(pos):
            best = None
            for name, a, b in spans:
                if a <= pos <= b and (best is None or a > best[1]):
                    best = (name, a, b)
            return best[0] if best else "<item>"

        for kind, pat in PANIC_PATTERNS:
            for m in re.finditer(pat, src):
                line_start = src.rfind("\n", 0, m.start()) + 1
                line_end = src.find("\n", m.end())
                line = src[line_start:line_end if line_end >= 0 else len(src)]
                ls = line.strip()
                if ls.startswith("#[derive") or ls.startswith("#![") or ls.startswith("use "):
                    continue
                if kind == "index" and re.search(r"#\[|vec!\[|&\[|\[u8|: \[|\[\]", src[max(0, m.start() - 6) : m.end()]):
                    continue
                if kind in ("arith", "div", "rem") and ls.startswith("//"):
                    continue
                if kind == "arith":
                    # `T: Clone + Copy`, `impl Trait + 'a`: a sum of CamelCase names / lifetimes is a
                    # trait bound, not arithmetic
                    lft = re.search(r"([A-Za-z_]\w*)\s*\Z", src[max(0, m.start() - 40) : m.start() + 1])
                    rgt = re.match(r"\s*[+\-*]\s('?[A-Za-z_]\w*)", src[m.start() + 1 :])
                    if lft and rgt and src[m.start() + 1 : m.end()].strip().startswith("+") and lft.group(1)[0].isupper() \
                            and (rgt.group(1)[0].isupper() or rgt.group(1)[0] == "'"):
                        continue
                # a loop is recorded as a loop, whichever keyword spells it (while / loop)
                text = "loop" if kind == "loop" else " ".join(src[m.start() : m.end()].split())
                sites.append((rel, owner(m.start()), kind, text))
        for name, a, b in spans:
            body = src[src.find("{", a) : b]
            if re.search(r"\b(Self::|self\.)?%s\s*(::<[^>]*>)?\s*\(" % re.escape(name), body):
                # a call to a function of the same name inside its own body
                if re.search(r"(Self::%s|self\.%s)\s*(::<[^>]*>)?\s*\(" % (name, name), body):
                    recursion.append((rel, name))
            hashes["%s::%s" % (rel, name)] = hashlib.sha256(" ".join(src[a : b + 1].split()).encode()).hexdigest()[:16]
        for m in re.finditer(r"\b(static\s+(mut\s+)?\w+\s*:|thread_local!|lazy_static!|OnceLock|OnceCell|LazyLock|AtomicU|AtomicI|AtomicBool|Mutex<|RwLock<|RefCell<|Rc<|Arc<)", src):
            statics.append((rel, " ".join(m.group(0).split())))
    return sites, recursion, statics, hashes


def features():
    toml = read("Cargo.toml")
    m = re.search(r"\[features\](.*?)(\n\[|\Z)", toml, re.S)
    feats = {}
    if m:
        for line in m.group(1).splitlines():
            mm = re.match(r"\s*([\w-]+)\s*=\s*\[(.*)\]", line)
            if mm:
                feats[mm.group(1)] = [x.strip().strip('"') for x in mm.group(2).split(",") if x.strip()]
    return feats


def puf_arms():
    """the two cfg arms of parse_unknown_fields and the call site: parameter counts"""
    src = strip_test_mods(strip_comments(read("src/variable_versions/data_number.rs")))
    arms = []
    # the helper is whichever function carries the feature's cfg attribute (its name may change)
    names = set()
    for m in re.finditer(r"#\[cfg\((not\()?feature\s*=\s*\"parse_unknown_fields\"\)?\)\]\s*(?:#\[[^\]]*\]\s*)*(?:pub(?:\([^)]*\))?\s+)?fn\s+(\w+)\s*\(", src):
        i = m.end() - 1
        j = match_brace(src, i, "(", ")")
        params = [p.strip() for p in split_top(src[i + 1 : j]) if p.strip()]
        arms.append(("off" if m.group(1) else "on", len(params)))
        names.add(m.group(2))
    if len(names) != 1:
        return arms, []
    fname = re.escape(names.pop())
    calls = []
    for m in re.finditer(r"(?<!fn )%s\s*\(" % fname, src):
        before = src[max(0, m.start() - 3) : m.start()]
        if before.endswith("fn "):
            continue
        i = m.end() - 1
        j = match_brace(src, i, "(", ")")
        args = [p.strip() for p in split_top(src[i + 1 : j]) if p.strip()]
        calls.append(len(args))
    return arms, calls


# ---------------------------------------------------------------- emit

def coq_str(s):
    return '"%s"' % s.replace('"', '""')


def emit_pairs(name, ty, pairs, fmt):
    lines = ["Definition %s : list (%s) := [" % (name, ty)]
    items = [fmt(p) for p in pairs]
    for k in range(0, len(items), 6):
        chunk = "; ".join(items[k : k + 6])
        lines.append("  " + chunk + (";" if k + 6 < len(items) else ""))
    lines.append("]%N.")
    return "\n".join(lines)


def write_if_changed(path, text):
    os.makedirs(os.path.dirname(path), exist_ok=True)
    try:
        with open(path) as f:
            if f.read() == text:
                return False
    except FileNotFoundError:
        pass
    with open(path, "w") as f:
        f.write(text)
    return True


def gen_tables():
    proto_src = strip_test_mods(strip_comments(read("src/protocol.rs")))
    v9_src = strip_test_mods(strip_comments(read("src/variable_versions/v9_lookup.rs")))
    ix_src = strip_test_mods(strip_comments(read("src/variable_versions/ipfix_lookup.rs")))

    pv = parse_enum(proto_src, "ProtocolTypes")
    p_from, p_def = table_from_num(proto_src, r"impl\s+From<u8>\s+for\s+ProtocolTypes\s*\{", "From<u8> for ProtocolTypes", pv)
    p_to = table_from_variant(proto_src, r"impl\s+From<ProtocolTypes>\s+for\s+u8\s*\{", "From<ProtocolTypes> for u8", pv)

    v9v = parse_enum(v9_src, "V9Field")
    v9_from, v9_def = table_from_num(v9_src, r"impl\s+From<u16>\s+for\s+V9Field\s*\{", "From<u16> for V9Field", v9v)
    v9_dt, v9_dt_def = table_dtype(v9_src, r"impl\s+From<V9Field>\s+for\s+FieldDataType\s*\{", "From<V9Field> for FieldDataType")
    scv = parse_enum(v9_src, "ScopeFieldType")
    sc_from, sc_def = table_from_num(v9_src, r"impl\s+From<u16>\s+for\s+ScopeFieldType\s*\{", "From<u16> for ScopeFieldType", scv)

    ixv = parse_enum(ix_src, "IPFixField")
    ix_from, ix_def = table_from_num(ix_src, r"impl\s+From<u16>\s+for\s+IPFixField\s*\{", "From<u16> for IPFixField", ixv)
    ix_dt, ix_dt_def = table_dtype(ix_src, r"impl\s+From<IPFixField>\s+for\s+FieldDataType\s*\{", "From<IPFixField> for FieldDataType")

    def variants(name, vs):
        return emit_pairs(name, "N * string", vs, lambda p: "(%d, %s)" % (p[1], coq_str(p[0])))

    def nn(name, t):
        return emit_pairs(name, "N * N", t, lambda p: "(%d, %d)" % p)

    def nd(name, t):
        return emit_pairs(name, "N * dtype", t, lambda p: "(%d, %s)" % p)

    parts = [
        "(* GENERATED by tools/translate.py from /repo/src — do not edit *)",
        "From NF Require Import Types.",
        "Open Scope string_scope.",
        variants("proto_variants", pv),
        nn("proto_from_u8_tbl", p_from),
        "Definition proto_from_u8_def : N := %d." % p_def,
        nn("proto_to_u8_tbl", p_to),
        variants("v9_variants", v9v),
        nn("v9_from_u16_tbl", v9_from),
        "Definition v9_from_u16_def : N := %d." % v9_def,
        nd("v9_dtype_tbl", v9_dt),
        "Definition v9_dtype_def : dtype := %s." % v9_dt_def,
        variants("scope_variants", scv),
        nn("scope_from_u16_tbl", sc_from),
        "Definition scope_from_u16_def : N := %d." % sc_def,
        variants("ipfix_variants", ixv),
        nn("ipfix_from_u16_tbl", ix_from),
        "Definition ipfix_from_u16_def : N := %d." % ix_def,
        nd("ipfix_dtype_tbl", ix_dt),
        "Definition ipfix_dtype_def : dtype := %s." % ix_dt_def,
        "",
    ]
    return "\n\n".join(parts)


def gen_layouts():
    v5 = strip_test_mods(strip_comments(read("src/static_versions/v5.rs")))
    v7 = strip_test_mods(strip_comments(read("src/static_versions/v7.rs")))
    v9 = strip_test_mods(strip_comments(read("src/variable_versions/v9.rs")))
    ix = strip_test_mods(strip_comments(read("src/variable_versions/ipfix.rs")))
    lib = strip_test_mods(strip_comments(read("src/lib.rs")))

    def lay(name, l):
        items = ['{| f_name := %s; f_width := %d; f_kind := %s; f_show := %s |}' % (coq_str(a), b, c, d) for a, b, c, d in l]
        return "Definition %s : list fld := [\n  %s\n]." % (name, ";\n  ".join(items))

    def order(name, l):
        return "Definition %s : list string := [%s]." % (name, "; ".join(coq_str(f) for f, _m in l))

    parts = [
        "(* GENERATED by tools/translate.py from /repo/src — do not edit *)",
        "From NF Require Import Types.",
        "Open Scope string_scope.",
    ]
    for tag, src, sname in (("v5", v5, "V5"), ("v7", v7, "V7")):
        parts.append(lay(tag + "_header_layout", layout_of(src, "Header", tag + " Header")))
        parts.append(lay(tag + "_record_layout", layout_of(src, "FlowSet", tag + " FlowSet")))
        parts.append("Definition %s_count_field : string := %s." % (tag, coq_str(count_field(src, sname, tag))))
        h, r = export_order(src, sname, tag)
        for f, meth in h + r:
            pass
        parts.append(order(tag + "_header_export", h))
        parts.append(order(tag + "_record_export", r))
    parts.append(lay("v9_header_layout", layout_of(v9, "Header", "v9 Header")))
    parts.append(lay("v9_flowset_header_layout", layout_of(v9, "FlowSetHeader", "v9 FlowSetHeader")))
    parts.append(lay("ipfix_header_layout", layout_of(ix, "Header", "ipfix Header")))
    parts.append(lay("ipfix_set_header_layout", layout_of(ix, "FlowSetHeader", "ipfix FlowSetHeader")))

    # constants
    def const(src, name):
        m = re.search(r"const\s+%s\s*:\s*u16\s*=\s*(\d+)\s*;" % name, src)
        if not m:
            raise TranslateError("constant %s not found" % name)
        return int(m.group(1))

    parts.append("Definition v9_template_id : N := %d." % const(v9, "TEMPLATE_ID"))
    parts.append("Definition v9_options_template_id : N := %d." % const(v9, "OPTIONS_TEMPLATE_ID"))
    parts.append("Definition ipfix_options_template_id : N := %d." % const(ix, "OPTIONS_TEMPLATE_ID"))
    parts.append("Definition ipfix_set_min_range : N := %d." % const(ix, "SET_MIN_RANGE"))
    m = re.search(r"allowed_versions\s*:\s*\[([\d\s,]+)\]", lib)
    if not m:
        raise TranslateError("default allowed_versions not found")
    parts.append("Definition default_allowed : list N := [%s]%%N." % "; ".join(x.strip() for x in m.group(1).split(",") if x.strip()))
    # version dispatch arms
    body = fn_match_body(lib, r"fn\s+parse_packet_by_version\b[^{]*\{", "parse_packet_by_version")
    arms, default = parse_match(body, "version dispatch")
    disp = []
    for keys, rhs in arms:
        mm = re.match(r"(?:self\.)?(\w+?)(?:_parser|Parser)?(?:::|\.)parse\(\w+\)", rhs.replace(" ", ""))
        if not mm:
            raise TranslateError("version dispatch: arm %r" % rhs)
        for k in keys:
            disp.append((parse_int(k) if not isinstance(k, int) else k, mm.group(1).lower()))
    parts.append("Definition version_dispatch : list (N * string) := [%s]%%N." % "; ".join('(%d, %s)' % (k, coq_str(v)) for k, v in disp))
    parts.append("")
    return "\n\n".join(parts)


def gen_inventory():
    sites, recursion, statics, hashes = inventory()
    feats = features()
    arms, calls = puf_arms()

    def lst(name, ty, items):
        return "Definition %s : list (%s) := [\n  %s\n]." % (name, ty, ";\n  ".join(items)) if items else "Definition %s : list (%s) := []." % (name, ty)

    parts = [
        "(* GENERATED by tools/translate.py from /repo/src — do not edit *)",
        "From Coq Require Import List String NArith.",
        "Import ListNotations.",
        "Open Scope string_scope.",
        lst("panic_sites", "string * string * string * string", ["(%s, %s, %s, %s)" % tuple(coq_str(x) for x in s) for s in sites]),
        lst("recursion_sites", "string * string", ["(%s, %s)" % (coq_str(a), coq_str(b)) for a, b in recursion]),
        lst("static_items", "string * string", ["(%s, %s)" % (coq_str(a), coq_str(b)) for a, b in statics]),
        lst("features", "string * list string", ["(%s, [%s])" % (coq_str(k), "; ".join(coq_str(x) for x in v)) for k, v in sorted(feats.items())]),
        lst("puf_arms", "string * N", ["(%s, %d%%N)" % (coq_str(a), n) for a, n in arms]),
        "Definition puf_call_args : list N := [%s]%%N." % "; ".join(str(c) for c in calls),
        "",
    ]
    return "\n\n".join(parts), hashes


def main():
    changed = []
    status = {"ok": True, "errors": []}
    hashes = {}
    for fname, gen in (("Tables.v", gen_tables), ("Layouts.v", gen_layouts), ("Inventory.v", None)):
        try:
            if gen is None:
                text, hashes = gen_inventory()
            else:
                text = gen()
            if write_if_changed(os.path.join(GEN, fname), text):
                changed.append(fname)
        except TranslateError as e:
            status["ok"] = False
            status["errors"].append("%s: %s" % (fname, e))
    status["changed"] = changed
    status["files"] = {f: not any(e.startswith(f + ":") for e in status["errors"]) for f in ("Tables.v", "Layouts.v", "Inventory.v")}
    status["fn_hashes"] = hashes
    json.dump(status, sys.stdout, indent=1)
    print()
    return 0 if status["ok"] else 1


if __name__ == "__main__":
    sys.exit(main())
