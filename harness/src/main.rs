// Deliberately dumb observation harness: executes ops against the compiled crate and prints
// what it sees, one JSON object per op.  No oracle logic here (see /verif/DESIGN.md §5).
use netflow_parser::netflow_common::NetflowCommonFlowSet;
use netflow_parser::protocol::ProtocolTypes;
use netflow_parser::static_versions::{v5, v7};
use netflow_parser::variable_versions::data_number::FieldDataType;
use netflow_parser::variable_versions::ipfix::FlowSetBody as IBody;
use netflow_parser::variable_versions::ipfix_lookup::IPFixField;
use netflow_parser::variable_versions::v9::FlowSetBody as V9Body;
use netflow_parser::variable_versions::v9_lookup::{ScopeFieldType, V9Field};
use netflow_parser::{NetflowPacket, NetflowParser};
use nom_shim::parse_protocol;
use std::alloc::{GlobalAlloc, Layout, System};
use std::collections::BTreeMap;
use std::fmt::Write as _;
use std::io::{BufRead, Write};
use std::panic::{catch_unwind, AssertUnwindSafe};
use std::sync::atomic::{AtomicU64, Ordering};

mod nom_shim {
    // ProtocolTypes::parse is the derive(Nom) parser; it is reachable through the public
    // FieldValue::from_field_type with FieldDataType::ProtocolType.
    use netflow_parser::variable_versions::data_number::{FieldDataType, FieldValue};
    pub fn parse_protocol(b: u8) -> Option<String> {
        match FieldValue::from_field_type(&[b], FieldDataType::ProtocolType, 1) {
            Ok((_, FieldValue::ProtocolType(p))) => Some(format!("{:?}", p)),
            _ => None,
        }
    }
}

struct Counting;
static ALLOCATED: AtomicU64 = AtomicU64::new(0);
static CALLS: AtomicU64 = AtomicU64::new(0);
unsafe impl GlobalAlloc for Counting {
    unsafe fn alloc(&self, l: Layout) -> *mut u8 {
        ALLOCATED.fetch_add(l.size() as u64, Ordering::Relaxed);
        CALLS.fetch_add(1, Ordering::Relaxed);
        System.alloc(l)
    }
    unsafe fn dealloc(&self, p: *mut u8, l: Layout) {
        System.dealloc(p, l)
    }
    unsafe fn realloc(&self, p: *mut u8, l: Layout, new: usize) -> *mut u8 {
        if new > l.size() {
            ALLOCATED.fetch_add((new - l.size()) as u64, Ordering::Relaxed);
        }
        CALLS.fetch_add(1, Ordering::Relaxed);
        System.realloc(p, l, new)
    }
}
#[global_allocator]
static GLOBAL: Counting = Counting;

fn unhex(s: &str) -> Vec<u8> {
    if s == "-" {
        vec![]
    } else {
        hex::decode(s).expect("bad hex in ops file")
    }
}

fn jstr(s: &str) -> String {
    serde_json::to_string(s).unwrap()
}

fn opt<T: serde::Serialize>(o: &Option<T>) -> String {
    match o {
        Some(v) => serde_json::to_string(v).unwrap(),
        None => "null".to_string(),
    }
}

fn flow_json(f: &NetflowCommonFlowSet) -> String {
    format!(
        "{{\"src_addr\":{},\"dst_addr\":{},\"src_port\":{},\"dst_port\":{},\"protocol_number\":{},\"protocol_type\":{},\"first_seen\":{},\"last_seen\":{},\"src_mac\":{},\"dst_mac\":{}}}",
        opt(&f.src_addr), opt(&f.dst_addr), opt(&f.src_port), opt(&f.dst_port),
        opt(&f.protocol_number), opt(&f.protocol_type), opt(&f.first_seen), opt(&f.last_seen),
        opt(&f.src_mac), opt(&f.dst_mac)
    )
}

fn paddings(p: &NetflowPacket) -> String {
    let mut v: Vec<String> = vec![];
    match p {
        NetflowPacket::V9(x) => {
            for fs in &x.flowsets {
                let pad = match &fs.body {
                    V9Body::Template(t) => &t.padding,
                    V9Body::OptionsTemplate(t) => &t.padding,
                    V9Body::Data(t) => &t.padding,
                    V9Body::OptionsData(t) => &t.padding,
                };
                v.push(jstr(&hex::encode(pad)));
            }
        }
        NetflowPacket::IPFix(x) => {
            for fs in &x.flowsets {
                let pad = match &fs.body {
                    IBody::Template(t) => &t.padding,
                    IBody::OptionsTemplate(t) => &t.padding,
                    IBody::Data(t) => &t.padding,
                    IBody::OptionsData(t) => &t.padding,
                };
                v.push(jstr(&hex::encode(pad)));
            }
        }
        _ => {}
    }
    format!("[{}]", v.join(","))
}

fn export(p: &NetflowPacket) -> String {
    let r = catch_unwind(AssertUnwindSafe(|| match p {
        NetflowPacket::V5(x) => Some(Ok(x.to_be_bytes())),
        NetflowPacket::V7(x) => Some(Ok(x.to_be_bytes())),
        NetflowPacket::V9(x) => Some(x.to_be_bytes().map_err(|_| ())),
        NetflowPacket::IPFix(x) => Some(x.to_be_bytes().map_err(|_| ())),
        NetflowPacket::Error(_) => None,
    }));
    match r {
        Ok(Some(Ok(b))) => jstr(&hex::encode(b)),
        Ok(Some(Err(()))) => "\"ERR\"".to_string(),
        Ok(None) => "null".to_string(),
        Err(_) => "\"PANIC\"".to_string(),
    }
}

fn common(p: &NetflowPacket) -> String {
    let r = catch_unwind(AssertUnwindSafe(|| match p.as_netflow_common() {
        Ok(c) => format!(
            "{{\"version\":{},\"timestamp\":{},\"flows\":[{}]}}",
            c.version,
            c.timestamp,
            c.flowsets.iter().map(flow_json).collect::<Vec<_>>().join(",")
        ),
        Err(_) => "\"ERR\"".to_string(),
    }));
    r.unwrap_or_else(|_| "\"PANIC\"".to_string())
}

fn caches(p: &NetflowParser) -> String {
    let mut s = String::new();
    let v9t: BTreeMap<_, _> = p.v9_parser.templates.iter().collect();
    let v9o: BTreeMap<_, _> = p.v9_parser.options_templates.iter().collect();
    s.push_str("{\"v9_t\":[");
    s.push_str(
        &v9t.iter()
            .map(|(k, t)| format!("[{},{}]", k, serde_json::to_string(t).unwrap()))
            .collect::<Vec<_>>()
            .join(","),
    );
    s.push_str("],\"v9_o\":[");
    s.push_str(
        &v9o.iter()
            .map(|(k, t)| format!("[{},{}]", k, serde_json::to_string(t).unwrap()))
            .collect::<Vec<_>>()
            .join(","),
    );
    s.push_str("],\"ix_t\":[");
    s.push_str(
        &p.ipfix_parser
            .templates
            .iter()
            .map(|(k, t)| {
                format!(
                    "[{},{},{}]",
                    k,
                    serde_json::to_string(t).unwrap(),
                    jstr(&hex::encode(&t.padding))
                )
            })
            .collect::<Vec<_>>()
            .join(","),
    );
    s.push_str("],\"ix_o\":[");
    s.push_str(
        &p.ipfix_parser
            .options_templates
            .iter()
            .map(|(k, t)| {
                format!(
                    "[{},{},{}]",
                    k,
                    serde_json::to_string(t).unwrap(),
                    jstr(&hex::encode(&t.padding))
                )
            })
            .collect::<Vec<_>>()
            .join(","),
    );
    s.push_str("]}");
    s
}

fn observe(parser: &mut NetflowParser, bytes: &[u8], n: usize, want_s: bool) -> String {
    let a0 = ALLOCATED.load(Ordering::Relaxed);
    let c0 = CALLS.load(Ordering::Relaxed);
    let t0 = std::time::Instant::now();
    let res = parser.parse_bytes(bytes);
    let us = t0.elapsed().as_micros();
    let a1 = ALLOCATED.load(Ordering::Relaxed);
    let c1 = CALLS.load(Ordering::Relaxed);
    let (r, r2same) = match catch_unwind(AssertUnwindSafe(|| {
        let a = serde_json::to_string(&res);
        let b = serde_json::to_string(&res);
        match (a, b) {
            (Ok(a), Ok(b)) => {
                let same = a == b;
                (a, same)
            }
            _ => ("\"SERERR\"".to_string(), false),
        }
    })) {
        Ok(x) => x,
        Err(_) => ("\"PANIC\"".to_string(), false),
    };
    let mut out = String::new();
    write!(
        out,
        "{{\"n\":{},\"len\":{},\"R\":{},\"same\":{},\"X\":[{}],\"C\":[{}],\"D\":[{}],\"M\":{},\"MC\":{},\"L\":{},\"us\":{}",
        n,
        bytes.len(),
        r,
        r2same,
        res.iter().map(export).collect::<Vec<_>>().join(","),
        res.iter().map(common).collect::<Vec<_>>().join(","),
        res.iter().map(paddings).collect::<Vec<_>>().join(","),
        a1 - a0,
        c1 - c0,
        r.len(),
        us
    )
    .unwrap();
    if want_s {
        write!(out, ",\"S\":{}", caches(parser)).unwrap();
    }
    out.push('}');
    out
}

fn nums(s: &str) -> Vec<u64> {
    if s == "-" {
        return vec![];
    }
    s.split(',').map(|x| x.parse().unwrap()).collect()
}

fn e5(args: &[&str]) -> String {
    // E5 count,sys_up_time,unix_secs,unix_nsecs,flow_sequence,engine_type,engine_id,sampling  rec;rec;..
    // rec = 20 numbers in wire order (protocol_type is derived the way the parser derives it)
    let h = nums(args[0]);
    let recs: Vec<Vec<u64>> = if args.len() < 2 || args[1] == "-" {
        vec![]
    } else {
        args[1].split(';').map(nums).collect()
    };
    let header = v5::Header {
        version: 5,
        count: h[0] as u16,
        sys_up_time: h[1] as u32,
        unix_secs: h[2] as u32,
        unix_nsecs: h[3] as u32,
        flow_sequence: h[4] as u32,
        engine_type: h[5] as u8,
        engine_id: h[6] as u8,
        sampling_interval: h[7] as u16,
    };
    let flowsets: Vec<v5::FlowSet> = recs
        .iter()
        .map(|r| v5::FlowSet {
            src_addr: (r[0] as u32).into(),
            dst_addr: (r[1] as u32).into(),
            next_hop: (r[2] as u32).into(),
            input: r[3] as u16,
            output: r[4] as u16,
            d_pkts: r[5] as u32,
            d_octets: r[6] as u32,
            first: r[7] as u32,
            last: r[8] as u32,
            src_port: r[9] as u16,
            dst_port: r[10] as u16,
            pad1: r[11] as u8,
            tcp_flags: r[12] as u8,
            protocol_number: r[13] as u8,
            protocol_type: ProtocolTypes::from(r[13] as u8),
            tos: r[14] as u8,
            src_as: r[15] as u16,
            dst_as: r[16] as u16,
            src_mask: r[17] as u8,
            dst_mask: r[18] as u8,
            pad2: r[19] as u16,
        })
        .collect();
    let v = v5::V5 { header, flowsets };
    let bytes = v.to_be_bytes();
    let back = NetflowParser::default().parse_bytes(&bytes);
    let orig = serde_json::to_string(&vec![NetflowPacket::V5(v)]).unwrap();
    format!(
        "{{\"E\":5,\"bytes\":{},\"orig\":{},\"back\":{}}}",
        jstr(&hex::encode(&bytes)),
        orig,
        serde_json::to_string(&back).unwrap()
    )
}

fn e7(args: &[&str]) -> String {
    let h = nums(args[0]);
    let recs: Vec<Vec<u64>> = if args.len() < 2 || args[1] == "-" {
        vec![]
    } else {
        args[1].split(';').map(nums).collect()
    };
    let header = v7::Header {
        version: 7,
        count: h[0] as u16,
        sys_up_time: h[1] as u32,
        unix_secs: h[2] as u32,
        unix_nsecs: h[3] as u32,
        flow_sequence: h[4] as u32,
        reserved: h[5] as u32,
    };
    let flowsets: Vec<v7::FlowSet> = recs
        .iter()
        .map(|r| v7::FlowSet {
            src_addr: (r[0] as u32).into(),
            dst_addr: (r[1] as u32).into(),
            next_hop: (r[2] as u32).into(),
            input: r[3] as u16,
            output: r[4] as u16,
            d_pkts: r[5] as u32,
            d_octets: r[6] as u32,
            first: r[7] as u32,
            last: r[8] as u32,
            src_port: r[9] as u16,
            dst_port: r[10] as u16,
            flags_fields_valid: r[11] as u8,
            tcp_flags: r[12] as u8,
            protocol_number: r[13] as u8,
            protocol_type: ProtocolTypes::from(r[13] as u8),
            tos: r[14] as u8,
            src_as: r[15] as u16,
            dst_as: r[16] as u16,
            src_mask: r[17] as u8,
            dst_mask: r[18] as u8,
            flags_fields_invalid: r[19] as u16,
            router_src: (r[20] as u32).into(),
        })
        .collect();
    let v = v7::V7 { header, flowsets };
    let bytes = v.to_be_bytes();
    let back = NetflowParser::default().parse_bytes(&bytes);
    let orig = serde_json::to_string(&vec![NetflowPacket::V7(v)]).unwrap();
    format!(
        "{{\"E\":7,\"bytes\":{},\"orig\":{},\"back\":{}}}",
        jstr(&hex::encode(&bytes)),
        orig,
        serde_json::to_string(&back).unwrap()
    )
}

fn dtype_name(d: FieldDataType) -> String {
    format!("{:?}", d)
}

fn tables() {
    // Exhaustive dumps of every finite table, from the compiled crate.
    let out = std::io::stdout();
    let mut w = std::io::BufWriter::new(out.lock());
    for b in 0u16..=255 {
        let b = b as u8;
        let f = ProtocolTypes::from(b);
        writeln!(
            w,
            "proto {} {:?} {} {}",
            b,
            f,
            u8::from(f),
            parse_protocol(b).unwrap_or_else(|| "-".to_string())
        )
        .unwrap();
    }
    // u8::from on every variant reachable through parse
    for b in 0u16..=255 {
        if let Some(_) = parse_protocol(b as u8) {
            let p = match netflow_parser::variable_versions::data_number::FieldValue::from_field_type(
                &[b as u8],
                FieldDataType::ProtocolType,
                1,
            ) {
                Ok((_, netflow_parser::variable_versions::data_number::FieldValue::ProtocolType(p))) => p,
                _ => unreachable!(),
            };
            writeln!(w, "proto_to_u8 {} {:?} {}", b, p, u8::from(p)).unwrap();
        }
    }
    for n in 0u32..=65535 {
        let n = n as u16;
        let f = V9Field::from(n);
        writeln!(w, "v9 {} {:?} {} {}", n, f, f as u16, dtype_name(f.into())).unwrap();
    }
    for n in 0u32..=65535 {
        let n = n as u16;
        let f = IPFixField::from(n);
        writeln!(w, "ipfix {} {:?} {} {}", n, f, f as u16, dtype_name(f.into())).unwrap();
    }
    for n in 0u32..=65535 {
        let n = n as u16;
        let f = ScopeFieldType::from(n);
        writeln!(w, "scope {} {:?} {}", n, f, f as u16).unwrap();
    }
}

fn main() {
    let args: Vec<String> = std::env::args().collect();
    if args.len() >= 2 && args[1] == "tables" {
        tables();
        return;
    }
    if args.len() < 3 || args[1] != "run" {
        eprintln!("usage: nfharness run <ops-file> [stack-bytes] | tables");
        std::process::exit(2);
    }
    let stack: usize = if args.len() >= 4 {
        args[3].parse().unwrap()
    } else {
        2 * 1024 * 1024
    };
    // silence the default panic hook (panics are reported in the observation)
    std::panic::set_hook(Box::new(|_| {}));
    let f = std::fs::File::open(&args[2]).expect("ops file");
    // group the ops by CASE; every case runs start to finish on ONE thread with the small stack
    // (so thread-local state, if the crate ever grows any, lives as long as in a real collector
    // thread), with fresh parsers
    let mut cases: Vec<(String, Vec<String>)> = vec![];
    for line in std::io::BufReader::new(f).lines() {
        let line = line.unwrap();
        let line = line.trim().to_string();
        if line.is_empty() || line.starts_with('#') {
            continue;
        }
        if line.starts_with("CASE") {
            cases.push((line, vec![]));
        } else {
            if cases.is_empty() {
                cases.push(("CASE 0 implicit".to_string(), vec![]));
            }
            cases.last_mut().unwrap().1.push(line);
        }
    }
    let counter = std::sync::atomic::AtomicUsize::new(0);
    for (header, ops) in &cases {
        {
            let out = std::io::stdout();
            let mut o = out.lock();
            writeln!(o, "{}", header).unwrap();
            o.flush().unwrap();
        }
        let counter = &counter;
        std::thread::scope(|sc| {
            let h = std::thread::Builder::new()
                .stack_size(stack)
                .spawn_scoped(sc, move || run_case(ops, counter))
                .unwrap();
            let _ = h.join();
        });
    }
    let out = std::io::stdout();
    let mut o = out.lock();
    writeln!(o, "END {}", counter.load(Ordering::Relaxed)).unwrap();
}

fn guarded<F: FnOnce() -> String>(f: F) -> String {
    match catch_unwind(AssertUnwindSafe(f)) {
        Ok(s) => s,
        Err(e) => {
            let msg = if let Some(s) = e.downcast_ref::<&str>() {
                s.to_string()
            } else if let Some(s) = e.downcast_ref::<String>() {
                s.clone()
            } else {
                "?".to_string()
            };
            format!("{{\"PANIC\":{}}}", jstr(&msg))
        }
    }
}

fn run_case(ops: &[String], counter: &std::sync::atomic::AtomicUsize) {
    let out = std::io::stdout();
    let mut parsers: BTreeMap<u32, NetflowParser> = BTreeMap::new();
    for line in ops {
        let tok: Vec<&str> = line.split_whitespace().collect();
        match tok[0] {
            "P" => {
                parsers.insert(tok[1].parse().unwrap(), NetflowParser::default());
            }
            "A" => {
                let k: u32 = tok[1].parse().unwrap();
                let p = parsers.entry(k).or_default();
                p.allowed_versions = if tok[2] == "*" {
                    (0..=65535u16).collect()
                } else {
                    nums(tok[2]).iter().map(|x| *x as u16).collect()
                };
            }
            "B" | "F" => {
                let k: u32 = tok[1].parse().unwrap();
                let bytes = unhex(tok[2]);
                let p = parsers.entry(k).or_default();
                let n = counter.fetch_add(1, Ordering::Relaxed);
                {
                    let mut o = out.lock();
                    writeln!(o, "BEGIN {}", n).unwrap();
                    o.flush().unwrap();
                }
                let s = if tok[0] == "B" {
                    guarded(|| observe(p, &bytes, n, true))
                } else {
                    guarded(|| {
                        let a = p.parse_bytes_as_netflow_common_flowsets(&bytes);
                        format!(
                            "{{\"n\":{},\"F\":[{}]}}",
                            n,
                            a.iter().map(flow_json).collect::<Vec<_>>().join(",")
                        )
                    })
                };
                let mut o = out.lock();
                writeln!(o, "{}", s).unwrap();
                o.flush().unwrap();
            }
            "E5" | "E7" => {
                let n = counter.fetch_add(1, Ordering::Relaxed);
                {
                    let mut o = out.lock();
                    writeln!(o, "BEGIN {}", n).unwrap();
                    o.flush().unwrap();
                }
                let a: Vec<&str> = tok[1..].to_vec();
                let s = if tok[0] == "E5" { guarded(|| e5(&a)) } else { guarded(|| e7(&a)) };
                let mut o = out.lock();
                writeln!(o, "{}", s).unwrap();
                o.flush().unwrap();
            }
            other => {
                eprintln!("unknown op {}", other);
                std::process::exit(2);
            }
        }
    }
}
