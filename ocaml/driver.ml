(* Model driver: reads the same ops files as the Rust harness and prints the model's
   observations in the same line format.  No Obj.magic: values cross the boundary through the
   extracted conversion functions only. *)
module M = Model

(* ---- OCaml int <-> extracted numbers ---- *)
let rec pos_of_int (n : int) : M.positive =
  if n = 1 then M.XH else if n land 1 = 0 then M.XO (pos_of_int (n lsr 1)) else M.XI (pos_of_int (n lsr 1))
let n_of_int (n : int) : M.n = if n = 0 then M.N0 else M.Npos (pos_of_int n)
let rec int_of_pos (p : M.positive) : int =
  match p with M.XH -> 1 | M.XO q -> 2 * int_of_pos q | M.XI q -> 2 * int_of_pos q + 1
let int_of_n (x : M.n) : int = match x with M.N0 -> 0 | M.Npos p -> int_of_pos p

(* decimal string -> N, for numbers beyond 63 bits *)
let n_of_string (s : string) : M.n =
  let ten = n_of_int 10 in
  let acc = ref M.N0 in
  String.iter (fun c -> acc := M.N.add (M.N.mul !acc ten) (n_of_int (Char.code c - 48))) s;
  !acc

let byte_tab : M.byte array = Array.init 256 (fun i -> M.byte_of (n_of_int i))
let char_tab : (M.byte, char) Hashtbl.t =
  let h = Hashtbl.create 512 in
  Array.iteri (fun i b -> Hashtbl.replace h b (Char.chr i)) byte_tab; h

let bytes_of_hex (s : string) : M.byte list =
  if s = "-" then []
  else begin
    let n = String.length s / 2 in
    let v c = match c with
      | '0'..'9' -> Char.code c - 48
      | 'a'..'f' -> Char.code c - 87
      | 'A'..'F' -> Char.code c - 55
      | _ -> failwith "bad hex" in
    let rec go i acc = if i < 0 then acc else go (i - 1) (byte_tab.(16 * v s.[2*i] + v s.[2*i+1]) :: acc) in
    go (n - 1) []
  end

let print_bytes (oc : out_channel) (l : M.byte list) : unit =
  let b = Buffer.create 4096 in
  List.iter (fun x -> Buffer.add_char b (Hashtbl.find char_tab x)) l;
  Buffer.output_buffer oc b


let nums (s : string) : M.n list =
  if s = "-" then [] else List.map n_of_string (String.split_on_char ',' s)

let coq_string_to_ocaml (l : M.byte list) : string =
  let b = Buffer.create 16 in List.iter (fun x -> Buffer.add_char b (Hashtbl.find char_tab x)) l; Buffer.contents b

let all_u16 : M.n list Lazy.t = lazy (List.init 65536 n_of_int)

let dtype_name (d : M.dtype) : string =
  match d with
  | M.DString -> "String" | M.DSigned -> "SignedDataNumber" | M.DUnsigned -> "UnsignedDataNumber"
  | M.DFloat64 -> "Float64" | M.DDurSecs -> "DurationSeconds" | M.DDurMillis -> "DurationMillis"
  | M.DDurMicros -> "DurationMicros" | M.DDurNanos -> "DurationNanos" | M.DIp4 -> "Ip4Addr"
  | M.DIp6 -> "Ip6Addr" | M.DMac -> "MacAddr" | M.DVec -> "Vec" | M.DProto -> "ProtocolType"
  | M.DUnknown -> "Unknown"

let tables () =
  let oc = stdout in
  for b = 0 to 255 do
    let ((f, t), p) = M.tbl_proto (n_of_int b) in
    Printf.fprintf oc "proto %d %s %d %s\n" b (coq_string_to_ocaml (M.tbl_proto_name f)) (int_of_n t)
      (match p with Some d -> coq_string_to_ocaml (M.tbl_proto_name d) | None -> "-")
  done;
  for n = 0 to 65535 do
    let (d, t) = M.tbl_v9 (n_of_int n) in
    Printf.fprintf oc "v9 %d %s %d %s\n" n (coq_string_to_ocaml (M.tbl_v9_name d)) (int_of_n d) (dtype_name t)
  done;
  for n = 0 to 65535 do
    let (d, t) = M.tbl_ipfix (n_of_int n) in
    Printf.fprintf oc "ipfix %d %s %d %s\n" n (coq_string_to_ocaml (M.tbl_ipfix_name d)) (int_of_n d) (dtype_name t)
  done;
  for n = 0 to 65535 do
    let d = M.tbl_scope (n_of_int n) in
    Printf.fprintf oc "scope %d %s %d\n" n (coq_string_to_ocaml (M.tbl_scope_name d)) (int_of_n d)
  done

let () =
  if Array.length Sys.argv >= 2 && Sys.argv.(1) = "tables" then (tables (); exit 0);
  if Array.length Sys.argv < 3 || Sys.argv.(1) <> "run" then
    (prerr_endline "usage: driver run <ops-file> [puf=1|0] | tables"; exit 2);
  let puf = not (Array.length Sys.argv >= 4 && Sys.argv.(3) = "0") in
  let ic = open_in Sys.argv.(2) in
  let parsers : (int, M.pstate * M.n list) Hashtbl.t = Hashtbl.create 8 in
  let get k = try Hashtbl.find parsers k with Not_found -> (M.empty_state, M.default_allowed) in
  let n = ref 0 in
  (try
     while true do
       let line = String.trim (input_line ic) in
       if line <> "" && line.[0] <> '#' then begin
         let tok = List.filter (fun s -> s <> "") (String.split_on_char ' ' line) in
         match tok with
         | "CASE" :: rest -> Hashtbl.reset parsers; Printf.printf "CASE %s\n" (String.concat " " rest)
         | ["P"; k] -> Hashtbl.replace parsers (int_of_string k) (M.empty_state, M.default_allowed)
         | ["A"; k; vs] ->
             let k = int_of_string k in
             let (s, _) = get k in
             Hashtbl.replace parsers k (s, if vs = "*" then Lazy.force all_u16 else nums vs)
         | [("B" | "F") as op; k; hex] ->
             let k = int_of_string k in
             let (s, allowed) = get k in
             let x = bytes_of_hex hex in
             Printf.printf "BEGIN %d\n" !n;
             (match (if op = "B" then M.obs_parse else M.obs_flows) puf allowed s x with
              | None -> Printf.printf "{\"n\":%d,\"FUEL\":true}\n" !n
              | Some (txt, s') ->
                  Hashtbl.replace parsers k (s', allowed);
                  Printf.printf "{\"n\":%d,\"O\":" !n;
                  print_bytes stdout txt;
                  print_string "}\n");
             incr n
         | ("E5" | "E7") as op :: h :: rest ->
             let recs = match rest with
               | [] | ["-"] -> []
               | [r] -> List.map nums (String.split_on_char ';' r)
               | _ -> failwith "bad E op" in
             Printf.printf "BEGIN %d\n" !n;
             (match M.obs_e (n_of_int (if op = "E5" then 5 else 7)) (nums h) recs with
              | None -> Printf.printf "{\"n\":%d,\"FUEL\":true}\n" !n
              | Some txt ->
                  Printf.printf "{\"n\":%d,\"O\":" !n;
                  print_bytes stdout txt;
                  print_string "}\n");
             incr n
         | _ -> prerr_endline ("unknown op: " ^ line); exit 2
       end
     done
   with End_of_file -> ());
  Printf.printf "END %d\n" !n
