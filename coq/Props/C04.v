(* Props/C04.v — C04: V9 flowsets decode record by record exactly as the governing template says.
   Theorems only.  The specification side is Spec/Interp.v (the big-endian interpretation of a
   field's bytes in the library's type for it) and Spec/Rfc.v (header layout). *)
From NF Require Import Base Nom Types Layout Value V9 Interp Rfc V9Stream.
From NF Require Import LayoutFacts C03Proofs DecodeFacts VarFacts CacheFacts StreamFacts.
From Coq Require Import Lia.
Open Scope list_scope.

(* the packet header is read at the RFC 3954 offsets (generated layout = RFC table) *)
Theorem C04_header_layout : map (shift 2) (offsets v9_header_layout) = rfc3954_header.
Proof. reflexivity. Qed.
Print Assumptions C04_header_layout.

(* one value: for every supported (data type, width), the decoder returns the interpretation of
   exactly the bytes allotted, and leaves the rest untouched *)
Theorem C04_value : forall puf dt b v rest,
  interp dt b = Some v -> (dt = DUnknown -> puf = true) ->
  from_field_type puf dt (lenN b) (b ++ rest) = Ok v rest.
Proof. exact decode_value. Qed.
Print Assumptions C04_value.

(* one record: the values in template order, each on its declared width *)
Theorem C04_record : forall puf fs vals rec rest,
  interp_record fs vals = Some rec -> all_known_or_puf puf fs ->
  parse_record puf fs (List.concat vals ++ rest) = Ok rec rest.
Proof. intros puf fs. exact (decode_record puf fs). Qed.
Print Assumptions C04_record.

(* a data flowset body: ANY number of records followed by padding shorter than a record is split
   into exactly those records, in order, none dropped, duplicated or shifted; the padding is
   reported as padding *)
Theorem C04_data_flowset : forall puf t recs_bytes recs pad,
  Forall2 (fun vals rec => interp_record (t_fields t) vals = Some rec) recs_bytes recs ->
  all_known_or_puf puf (t_fields t) ->
  (0 < sum_len (t_fields t) <= 65535)%N ->
  (lenN pad < sum_len (t_fields t))%N ->
  parse_data puf t (List.concat (map (@List.concat byte) recs_bytes) ++ pad) = V9Data recs pad.
Proof. exact decode_data. Qed.
Print Assumptions C04_data_flowset.

(* a template record is reported (and cached, C06) with the id, types and lengths sent *)
Theorem C04_template_record : forall t rest,
  wf_template t -> parse_template (enc_template t ++ rest) = Ok t rest.
Proof. exact decode_template. Qed.
Print Assumptions C04_template_record.

(* the flowset envelope: id and length at offsets 0 and 2, body = length - 4 bytes, and the next
   flowset starts right after it whatever the body decoder did with its bytes *)
Theorem C04_flowset_envelope : forall puf s i f r s',
  parse_flowset puf s i = (Ok f r, s') ->
  exists body r0, i = enc 2 (fs_id f) ++ enc 2 (fs_len f) ++ body ++ r
    /\ length body = N.to_nat (fs_len f - 4)
    /\ parse_body puf (fs_id f) s body = (Ok (fs_body f) r0, s').
Proof. exact parse_flowset_ok. Qed.
Print Assumptions C04_flowset_envelope.

(* which decoder a flowset id selects: the template cached for it just before the flowset *)
Theorem C04_data_dispatch : forall puf id s i t,
  id <> v9_template_id -> id <> v9_options_template_id ->
  lookup id (v9_o s) = None -> lookup id (v9_t s) = Some t ->
  parse_body puf id s i = (Ok (parse_data puf t i) [], s).
Proof.
  intros puf id s i t H0 H1 Ho Ht. unfold parse_body.
  destruct (N.eqb_spec id v9_template_id); [contradiction|].
  destruct (N.eqb_spec id v9_options_template_id); [contradiction|].
  now rewrite Ho, Ht.
Qed.
Print Assumptions C04_data_dispatch.

(* THE WHOLE PACKET.  Spec/V9Stream.v describes a packet as an exporter builds it (header, then
   template flowsets and data flowsets in any number and order) by an ENCODER, and says what a
   collector in state s must report (expect_stream: every template record as sent, every data
   flowset split into its records with each value interpreted in its field's type, padding as
   padding) and remember (learn_fs).  For every conformant packet, every collector state and any
   bytes after the packet: the parser returns exactly that, leaves exactly those bytes, and ends
   in exactly that state.  No bound on flowsets, templates per flowset, records or widths. *)
Theorem C04_packet : forall puf s h l xs s' rest,
  wf_vals v9_header_layout [] h ->
  get_field v9_header_layout h "count" = lenN l ->
  conformant_stream puf s l -> expect_stream s l = Some (xs, s') ->
  parse_v9 puf s (enc_v9_packet h l ++ rest) = (Ok {| v9_header := h; v9_sets := xs |} rest, s').
Proof. exact decode_packet. Qed.
Print Assumptions C04_packet.

(* non-vacuity of C04_packet: a packet with a two-template flowset, data for both templates
   (one with a padding byte) meets the hypotheses from the empty cache *)
Example C04_packet_example :
  let t1 := {| t_id := 256; t_count := 2;
               t_fields := [ {| tf_num := 8; tf_type := v9_from_u16 8; tf_len := 4 |};
                             {| tf_num := 7; tf_type := v9_from_u16 7; tf_len := 2 |} ] |}%N in
  let t2 := {| t_id := 257; t_count := 1;
               t_fields := [ {| tf_num := 1; tf_type := v9_from_u16 1; tf_len := 3 |} ] |}%N in
  let l := [ FTemplates [t1; t2];
             FData 256 [ [[x0a; x00; x00; x01]; [x01; xbb]]; [[x0a; x00; x00; x02]; [x00; x35]] ] [];
             FData 257 [ [[xff; x00; x01]] ] [x00] ]%N in
  conformant_stream true v9_empty l
  /\ exists xs s', expect_stream v9_empty l = Some (xs, s') /\ length xs = 3%nat.
Proof.
  cbn zeta.
  assert (Hk : forall fs, all_known_or_puf true fs) by (intro fs; apply Forall_forall; intros; reflexivity).
  assert (Hwt : forall n l, (n < 65536)%N -> (l < 65536)%N ->
                wf_tfield {| tf_num := n; tf_type := v9_from_u16 n; tf_len := l |}) by (intros; repeat split; assumption).
  split.
  - cbn [conformant_stream]. split; [|split; [|split; [|exact I]]].
    + split; [vm_compute; reflexivity|]. constructor; [|constructor; [|constructor]].
      * split; [vm_compute; reflexivity|]. split; [reflexivity|]. split; [vm_compute; reflexivity|].
        constructor; [apply Hwt; vm_compute; reflexivity|constructor; [apply Hwt; vm_compute; reflexivity|constructor]].
      * split; [vm_compute; reflexivity|]. split; [reflexivity|]. split; [vm_compute; reflexivity|].
        constructor; [apply Hwt; vm_compute; reflexivity|constructor].
    + split; [vm_compute; reflexivity|]. split; [vm_compute; reflexivity|]. split; [vm_compute; discriminate|].
      split; [vm_compute; discriminate|]. split; [vm_compute; reflexivity|].
      eexists. split; [vm_compute; reflexivity|]. split; [apply Hk|]. split; [split; vm_compute; [reflexivity|discriminate]|vm_compute; reflexivity].
    + split; [vm_compute; reflexivity|]. split; [vm_compute; reflexivity|]. split; [vm_compute; discriminate|].
      split; [vm_compute; discriminate|]. split; [vm_compute; reflexivity|].
      eexists. split; [vm_compute; reflexivity|]. split; [apply Hk|]. split; [split; vm_compute; [reflexivity|discriminate]|vm_compute; reflexivity].
  - vm_compute. eexists. eexists. split; reflexivity.
Qed.

(* non-vacuity for the options side of C04_packet: an options template flowset (one scope field,
   two option fields, two padding bytes) and an options data flowset for it, with the count in
   the header, from the empty cache *)
Example C04_options_example :
  let ot := {| ot_id := 258; ot_scope_len := 4; ot_opt_len := 8;
               ot_scope := [ {| sf_num := 1; sf_type := scope_from_u16 1; sf_len := 4 |} ];
               ot_opts := [ {| tf_num := 34; tf_type := v9_from_u16 34; tf_len := 4 |};
                            {| tf_num := 36; tf_type := v9_from_u16 36; tf_len := 2 |} ] |}%N in
  let l := [ FOTemplates [ot] [x00; x00];
             FOData 258 [[x0a; x00; x00; x01]] [[x00; x00; x00; x64]; [x00; x3c]] [x00; x00] ]%N in
  conformant_stream true v9_empty l
  /\ exists xs s', expect_stream v9_empty l = Some (xs, s') /\ length xs = 2%nat /\ v9_t s' = [] /\ length (v9_o s') = 1%nat.
Proof.
  cbv zeta. split.
  - cbn [conformant_stream]. split; [|split; [|exact I]].
    + split; [vm_compute; reflexivity|]. split; [|cbn; lia].
      constructor; [|constructor]. unfold wf_otemplate. cbn [ot_id ot_scope_len ot_opt_len ot_scope ot_opts].
      repeat split; try (vm_compute; reflexivity).
      * constructor; [|constructor]. repeat split; vm_compute; reflexivity.
      * constructor; [|constructor; [|constructor]]; repeat split; vm_compute; reflexivity.
    + split; [vm_compute; reflexivity|]. split; [vm_compute; reflexivity|]. split; [vm_compute; discriminate|].
      split; [vm_compute; discriminate|]. split; [vm_compute; reflexivity|]. eexists. split; [vm_compute; reflexivity|].
      split; [constructor; [split; vm_compute; reflexivity|constructor]|].
      constructor; [vm_compute; reflexivity|constructor; [vm_compute; reflexivity|constructor]].
  - vm_compute. eexists. eexists. repeat split; reflexivity.
Qed.

(* The options side at full strength is FALSE of the faithful model (known finding
   K_C04_options_multi_record): an options data flowset may carry several records (RFC 3954
   6.2); the decoder reports the first and leaves the others in the padding.  Witness: template
   258 (scope System/4, option SamplingInterval/4), two records. *)
Theorem C04_options_multi_refuted :
  let ot := {| ot_id := 258; ot_scope_len := 4; ot_opt_len := 4;
               ot_scope := [ {| sf_num := 1; sf_type := scope_from_u16 1; sf_len := 4 |} ];
               ot_opts := [ {| tf_num := 34; tf_type := v9_from_u16 34; tf_len := 4 |} ] |}%N in
  parse_odata ot [x0a; x00; x00; x01; x00; x00; x00; x64;  x00; x00; x00; x02; x00; x00; x00; xc8]
  = Ok (V9OData [(scope_from_u16 1, [x0a; x00; x00; x01])] [(v9_from_u16 34, [x00; x00; x00; x64])]
                [x00; x00; x00; x02; x00; x00; x00; xc8]) [].
Proof. vm_compute. reflexivity. Qed.
Print Assumptions C04_options_multi_refuted.

(* non-vacuity: a two-record flowset with one padding byte under template (InBytes/4, L4SrcPort/2, Protocol/1) *)
Example C04_example :
  let t := {| t_id := 256; t_count := 3;
              t_fields := [ {| tf_num := 1; tf_type := v9_from_u16 1; tf_len := 4 |};
                            {| tf_num := 7; tf_type := v9_from_u16 7; tf_len := 2 |};
                            {| tf_num := 4; tf_type := v9_from_u16 4; tf_len := 1 |} ] |}%N in
  parse_data true t [x00; x00; x01; x00; x01; xbb; x06;  xff; xff; xff; xff; x00; x35; x11;  x00]
  = V9Data [ [(v9_from_u16 1, VNum (U32 256)); (v9_from_u16 7, VNum (U16 443)); (v9_from_u16 4, VProto 6)];
             [(v9_from_u16 1, VNum (U32 4294967295)); (v9_from_u16 7, VNum (U16 53)); (v9_from_u16 4, VProto 17)] ]%N
           [x00].
Proof. vm_compute. reflexivity. Qed.

From NF Require Import Cisco.
Open Scope string_scope.

(* the PROTOCOL field (V9 element 4, one byte) is decoded through the enum's discriminants: for
   every assigned protocol number the value carries the IANA keyword of that number (full list in
   Spec/Cisco.v) *)
Theorem C04_protocol_names :
  forallb (fun a => match proto_parse (N.of_nat (fst a)) with
                    | Some d => String.eqb (variant_name proto_variants d) (snd a)
                    | None => false
                    end) iana_protocols = true.
Proof. vm_compute. reflexivity. Qed.
Print Assumptions C04_protocol_names.

(* ... and NO value of that byte fails the record (repair of the unnamed-protocol defect: before
   it, a PROTOCOL byte of 146..254 failed its record and with it every later record of the
   flowset, which all came out as padding): every byte decodes, to the variant with that
   discriminant or to Unknown, consuming exactly the one byte *)
Theorem C04_protocol_total : forall puf len b r,
  from_field_type puf DProto len (b :: r) = Ok (VProto (proto_decode (bN b))) r.
Proof. exact proto_total. Qed.
Print Assumptions C04_protocol_total.

(* the history that used to fail: template (PROTOCOL/1, L4_SRC_PORT/2), records 06 0035 | c8 0035 |
   11 0050: three records, the second with protocol Unknown, nothing left as padding *)
Example C04_unnamed_protocol_example :
  parse_records true 3 [ {| tf_num := 4; tf_type := v9_from_u16 4; tf_len := 1 |}; {| tf_num := 7; tf_type := v9_from_u16 7; tf_len := 2 |} ]
    [x06; x00; x35; xc8; x00; x35; x11; x00; x50]
  = ([ [(v9_from_u16 4, VProto 6); (v9_from_u16 7, VNum (U16 53))];
       [(v9_from_u16 4, VProto proto_unknown); (v9_from_u16 7, VNum (U16 53))];
       [(v9_from_u16 4, VProto 17); (v9_from_u16 7, VNum (U16 80))] ]%N, []).
Proof. vm_compute. reflexivity. Qed.

(* ---- buffer level (imports kept local: they shadow names used above) ---- *)
From NF Require Import Parser IxStream IxStreamFacts BufferFacts.

(* The whole buffer, across packets and protocols: ANY sequence of conformant V9 packets and
   IPFIX messages chained in one parse_bytes call -- each conformant for the collector state the
   packets before it leave -- is reported as exactly the expected elements in order, each with
   the state after it (so a template defined in one packet governs data in any later packet of
   the buffer, and by C06_split_independent / C11 of any later call). *)
Theorem C04_buffer : forall puf allow s ps ex,
  allow 9%N = true -> allow 10%N = true -> expect_pkts puf s ps ex ->
  parse_bytes puf allow s (enc_pkts s ps ex) = Some ex.
Proof. exact decode_buffer. Qed.
Print Assumptions C04_buffer.

