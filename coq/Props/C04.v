(* Props/C04.v — C04: V9 flowsets decode record by record exactly as the governing template says.
   Theorems only.  The specification side is Spec/Interp.v (the big-endian interpretation of a
   field's bytes in the library's type for it) and Spec/Rfc.v (header layout). *)
From NF Require Import Base Nom Types Layout Value V9 Interp Rfc.
From NF Require Import LayoutFacts C03Proofs DecodeFacts VarFacts CacheFacts.
Open Scope list_scope.

(* the packet header is read at the RFC 3954 offsets (generated layout = RFC table) *)
Theorem C04_header_layout : map (shift 2) (offsets v9_header_layout) = rfc3954_header.
Proof. reflexivity. Qed.
Print Assumptions C04_header_layout.

(* one value: for every supported (data type, width), the decoder returns the interpretation of
   exactly the bytes allotted, and leaves the rest untouched *)
Theorem C04_value : forall puf dt b v rest,
  interp dt b = Some v -> (dt = DUnknown -> puf = true) ->
  from_field_type puf dt (lenN b) (b ++ rest) = Ok v rest.
Proof. exact decode_value. Qed.
Print Assumptions C04_value.

(* one record: the values in template order, each on its declared width *)
Theorem C04_record : forall puf fs vals rec rest,
  interp_record fs vals = Some rec -> all_known_or_puf puf fs ->
  parse_record puf fs (List.concat vals ++ rest) = Ok rec rest.
Proof. intros puf fs. exact (decode_record puf fs). Qed.
Print Assumptions C04_record.

(* a data flowset body: ANY number of records followed by padding shorter than a record is split
   into exactly those records, in order, none dropped, duplicated or shifted; the padding is
   reported as padding *)
Theorem C04_data_flowset : forall puf t recs_bytes recs pad,
  Forall2 (fun vals rec => interp_record (t_fields t) vals = Some rec) recs_bytes recs ->
  all_known_or_puf puf (t_fields t) ->
  (0 < sum_len (t_fields t) <= 65535)%N ->
  (lenN pad < sum_len (t_fields t))%N ->
  parse_data puf t (List.concat (map (@List.concat byte) recs_bytes) ++ pad) = V9Data recs pad.
Proof. exact decode_data. Qed.
Print Assumptions C04_data_flowset.

(* a template record is reported (and cached, C06) with the id, types and lengths sent *)
Theorem C04_template_record : forall t rest,
  wf_template t -> parse_template (enc_template t ++ rest) = Ok t rest.
Proof. exact decode_template. Qed.
Print Assumptions C04_template_record.

(* the flowset envelope: id and length at offsets 0 and 2, body = length - 4 bytes, and the next
   flowset starts right after it whatever the body decoder did with its bytes *)
Theorem C04_flowset_envelope : forall puf s i f r s',
  parse_flowset puf s i = (Ok f r, s') ->
  exists body r0, i = enc 2 (fs_id f) ++ enc 2 (fs_len f) ++ body ++ r
    /\ length body = N.to_nat (fs_len f - 4)
    /\ parse_body puf (fs_id f) s body = (Ok (fs_body f) r0, s').
Proof. exact parse_flowset_ok. Qed.
Print Assumptions C04_flowset_envelope.

(* which decoder a flowset id selects: the template cached for it just before the flowset *)
Theorem C04_data_dispatch : forall puf id s i t,
  id <> v9_template_id -> id <> v9_options_template_id ->
  lookup id (v9_o s) = None -> lookup id (v9_t s) = Some t ->
  parse_body puf id s i = (Ok (parse_data puf t i) [], s).
Proof.
  intros puf id s i t H0 H1 Ho Ht. unfold parse_body.
  destruct (N.eqb_spec id v9_template_id); [contradiction|].
  destruct (N.eqb_spec id v9_options_template_id); [contradiction|].
  now rewrite Ho, Ht.
Qed.
Print Assumptions C04_data_dispatch.

(* non-vacuity: a two-record flowset with one padding byte under template (InBytes/4, L4SrcPort/2, Protocol/1) *)
Example C04_example :
  let t := {| t_id := 256; t_count := 3;
              t_fields := [ {| tf_num := 1; tf_type := v9_from_u16 1; tf_len := 4 |};
                            {| tf_num := 7; tf_type := v9_from_u16 7; tf_len := 2 |};
                            {| tf_num := 4; tf_type := v9_from_u16 4; tf_len := 1 |} ] |}%N in
  parse_data true t [x00; x00; x01; x00; x01; xbb; x06;  xff; xff; xff; xff; x00; x35; x11;  x00]
  = V9Data [ [(v9_from_u16 1, VNum (U32 256)); (v9_from_u16 7, VNum (U16 443)); (v9_from_u16 4, VProto 6)];
             [(v9_from_u16 1, VNum (U32 4294967295)); (v9_from_u16 7, VNum (U16 53)); (v9_from_u16 4, VProto 17)] ]%N
           [x00].
Proof. vm_compute. reflexivity. Qed.
