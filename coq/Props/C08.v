(* Props/C08.v — C08: re-exporting a decoded V5/V7 packet reproduces its bytes, and vice versa.
   Theorems only. *)
From NF Require Import Base Nom Types Layout Value V9 Ipfix Parser.
From NF Require Import FixedFacts LayoutFacts C08Proofs.
Open Scope list_scope.

(* Every V5 packet parse_bytes reports (in any state, under any allowed set): its to_be_bytes is
   exactly the bytes it occupied — the input is that export followed by the unconsumed rest —
   and the state is unchanged. *)
Theorem C08_v5_parse_export : forall puf allow s x p rest s',
  parse_one puf allow s x = StOk (PV5 p) rest s' -> x = export_v5 p ++ rest /\ wf_v5 p /\ s' = s.
Proof. exact v5_parse_export. Qed.
Print Assumptions C08_v5_parse_export.

Theorem C08_v7_parse_export : forall puf allow s x p rest s',
  parse_one puf allow s x = StOk (PV7 p) rest s' -> x = export_v7 p ++ rest /\ wf_v7 p /\ s' = s.
Proof. exact v7_parse_export. Qed.
Print Assumptions C08_v7_parse_export.

(* Every structure whose count equals its number of records (and whose fields fit their types,
   with version and protocol_type as the parser derives them): parsing its export yields it. *)
Theorem C08_v5_export_parse : forall puf allow s p rest,
  allow 5 = true -> wf_v5 p -> parse_one puf allow s (export_v5 p ++ rest) = StOk (PV5 p) rest s.
Proof. exact v5_export_parse. Qed.
Print Assumptions C08_v5_export_parse.

Theorem C08_v7_export_parse : forall puf allow s p rest,
  allow 7 = true -> wf_v7 p -> parse_one puf allow s (export_v7 p ++ rest) = StOk (PV7 p) rest s.
Proof. exact v7_export_parse. Qed.
Print Assumptions C08_v7_export_parse.

(* the serializer emits exactly the layout's fields, in layout order (decided on the generated
   data, so transposing two lines of to_be_bytes breaks this) *)
Theorem C08_export_orders :
  export_ok v5_header_layout v5_record_layout v5_header_export v5_record_export = true /\
  export_ok v7_header_layout v7_record_layout v7_header_export v7_record_export = true.
Proof. exact (conj v5_export_ok v7_export_ok). Qed.
Print Assumptions C08_export_orders.

Example C08_nonvacuous : wf_v5 sample_v5.
Proof. exact sample_v5_wf. Qed.

(* ---- buffer level (imports kept local) ---- *)
From NF Require Import RunFacts RoundtripFacts.

(* THE ROUND TRIP over a whole buffer: whatever parse_bytes reports for a buffer -- any mix of
   V5, V7, V9 and IPFIX packets, any state, any allowed set -- if every reported element is of the
   lossless kind (V5/V7 always; V9: v9_lossless; IPFIX: ix_lossless for the caches the message
   met; no error element), then the concatenation of the elements' to_be_bytes is exactly the
   prefix of the buffer they occupied: buffer = that concatenation ++ the unconsumed rest. *)
Theorem C08_buffer_roundtrip : forall puf allow s x r,
  parse_bytes puf allow s x = Some r -> lossless_run s r = true ->
  exists pre rest, x = pre ++ rest /\ export_run r = XOk pre /\ length pre = total_wire (map fst r).
Proof. intros puf allow s x r. unfold parse_bytes. apply run_reexport. Qed.
Print Assumptions C08_buffer_roundtrip.

(* V5 and V7 packets are always of the lossless kind: a buffer of fixed-format packets re-exports
   to itself up to the unconsumed rest *)
Theorem C08_fixed_always_lossless : forall s r,
  Forall (fun es => match fst es with PV5 _ | PV7 _ => True | _ => False end) r -> lossless_run s r = true.
Proof.
  intros s r. revert s. induction r as [|[e s'] r IH]; intros s H; [reflexivity|].
  inversion H as [|? ? He Hr]; subst. cbn [lossless_run]. rewrite (IH s' Hr).
  cbn [fst] in He. destruct e; try contradiction; reflexivity.
Qed.
Print Assumptions C08_fixed_always_lossless.
