(* Props/C11.v — C11: packets chained in one buffer decode exactly as if delivered one per call.
   Theorems only. *)
From NF Require Import Base Nom Types Layout Value V9 Ipfix Parser RunFacts VarFacts.
Open Scope list_scope.

(* a is a sequence of whole, accepted, self-delimiting packets (clean: no error element, every
   V9 packet's count equals its number of flowsets; consumed entirely).  Then a ++ b in one call
   gives what a and then b give in two calls on the same parser, states included (every result
   element carries the state after it). *)
Theorem C11_concat : forall puf allow s a b ra rb,
  parse_bytes puf allow s a = Some ra -> clean ra -> total_wire (map fst ra) = length a ->
  parse_bytes puf allow (final_state s ra) b = Some rb ->
  parse_bytes puf allow s (a ++ b) = Some (ra ++ rb)
  /\ final_state s (ra ++ rb) = final_state (final_state s ra) rb.
Proof.
  intros puf allow s a b ra rb Ha Hc Hw Hb. split.
  - exact (parse_bytes_concat puf allow s a b ra rb Ha Hc Hw Hb).
  - exact (final_state_app s ra rb).
Qed.
Print Assumptions C11_concat.

(* every way of cutting a packet sequence into consecutive calls at packet boundaries gives the
   one-call result (hence any two partitions give the same results and final state) *)
Theorem C11_partition : forall puf allow s calls r,
  fed puf allow s calls r -> parse_bytes puf allow s (List.concat calls) = Some r.
Proof. intros puf allow s calls r H. exact (proj1 (fed_one_call puf allow s calls r H)). Qed.
Print Assumptions C11_partition.

(* one packet step does not look past the packet: the engine of the two theorems above *)
Theorem C11_step_frames : forall puf allow s x e rest s' z,
  parse_one puf allow s x = StOk e rest s' -> self_delimiting e ->
  parse_one puf allow s (x ++ z) = StOk e (rest ++ z) s'.
Proof. exact parse_one_frames. Qed.
Print Assumptions C11_step_frames.
