(* Props/C11.v — C11: packets chained in one buffer decode exactly as if delivered one per call.
   Theorems only. *)
From NF Require Import Base Nom Types Layout Value V9 Ipfix Parser RunFacts VarFacts.
Open Scope list_scope.

(* a is a sequence of whole, accepted, self-delimiting packets (clean: no error element, every
   V9 packet's count equals its number of flowsets; consumed entirely).  Then a ++ b in one call
   gives what a and then b give in two calls on the same parser, states included (every result
   element carries the state after it). *)
Theorem C11_concat : forall puf allow s a b ra rb,
  parse_bytes puf allow s a = Some ra -> clean ra -> total_wire (map fst ra) = length a ->
  parse_bytes puf allow (final_state s ra) b = Some rb ->
  parse_bytes puf allow s (a ++ b) = Some (ra ++ rb)
  /\ final_state s (ra ++ rb) = final_state (final_state s ra) rb.
Proof.
  intros puf allow s a b ra rb Ha Hc Hw Hb. split.
  - exact (parse_bytes_concat puf allow s a b ra rb Ha Hc Hw Hb).
  - exact (final_state_app s ra rb).
Qed.
Print Assumptions C11_concat.

(* every way of cutting a packet sequence into consecutive calls at packet boundaries gives the
   one-call result (hence any two partitions give the same results and final state) *)
Theorem C11_partition : forall puf allow s calls r,
  fed puf allow s calls r -> parse_bytes puf allow s (List.concat calls) = Some r.
Proof. intros puf allow s calls r H. exact (proj1 (fed_one_call puf allow s calls r H)). Qed.
Print Assumptions C11_partition.

(* one packet step does not look past the packet: the engine of the two theorems above *)
Theorem C11_step_frames : forall puf allow s x e rest s' z,
  parse_one puf allow s x = StOk e rest s' -> self_delimiting e ->
  parse_one puf allow s (x ++ z) = StOk e (rest ++ z) s'.
Proof. exact parse_one_frames. Qed.
Print Assumptions C11_step_frames.

From Coq Require Import Lia.

(* non-vacuity of C11_concat / C11_partition: a V5 packet, a V9 template packet and a V9 data
   packet are accepted, clean and self-delimiting; fed as three calls, as two calls or as one
   buffer they give the same three elements and the same final state *)
Example C11_example :
  let a := [x00; x05; x00; x01; x03; x00; x04; x00; x05; x00; x06; x07; x08; x09; x00; x01; x02; x03; x04; x05; x06; x07; x08; x09; x00; x01; x02; x03; x04; x05; x06; x07; x08; x09; x00; x01; x02; x03; x04; x05; x06; x07; x08; x09; x00; x01; x02; x03; x04; x05; x06; x07; x08; x09; x00; x01; x02; x03; x04; x05; x06; x07; x08; x09; x00; x01; x02; x03; x04; x05; x06; x07] in
  let b := [x00; x09; x00; x01; x00; x00; x00; x01; x00; x00; x00; x02; x00; x00; x00; x03; x00; x00; x00; x04; x00; x00; x00; x0c; x01; x00; x00; x01; x00; x08; x00; x04] in
  let c := [x00; x09; x00; x01; x00; x00; x00; x01; x00; x00; x00; x02; x00; x00; x00; x05; x00; x00; x00; x04; x01; x00; x00; x08; x01; xbb; x00; x35] in
  let P := parse_bytes true (allow_list default_allowed) in
  match P empty_state a with
  | Some ra =>
      match P (final_state empty_state ra) b with
      | Some rb =>
          match P (final_state (final_state empty_state ra) rb) c with
          | Some rc => length (ra ++ rb ++ rc) = 3%nat
                       /\ total_wire (map fst ra) = length a /\ total_wire (map fst rb) = length b
                       /\ P empty_state (a ++ b ++ c) = Some (ra ++ rb ++ rc)
                       /\ P (final_state empty_state ra) (b ++ c) = Some (rb ++ rc)
          | None => False end
      | None => False end
  | None => False end.
Proof. vm_compute. repeat split; reflexivity. Qed.
