(* Props/C06.v — C06: template cache: latest definition wins, persists, scoped to parser and
   protocol.  Theorems only.  In the model a parser instance IS its state value (four finite
   maps, kept as sorted duplicate-free association lists); parse_bytes is a function of
   (state, allowed set, bytes) and returns the state after every element. *)
From NF Require Import Base Nom Types Layout Value V9 Ipfix Parser Export Inventory.
From NF Require Import BaseFacts RunFacts CacheFacts OriginFacts.
Open Scope list_scope.

(* templates are never evicted: whatever garbage follows, an id that had a template in any of
   the four caches still has one after any parse_bytes call *)
Theorem C06_never_evicted : forall puf allow s x r,
  parse_bytes puf allow s x = Some r -> grows s (final_state s r).
Proof. intros puf allow s x r H. exact (run_grows puf allow _ s x r H). Qed.
Print Assumptions C06_never_evicted.

(* one packet step, any input: the caches only grow; a packet whose version word is not 9
   leaves the V9 caches equal, not 10 leaves the IPFIX caches equal (so V5/V7/unknown versions
   change nothing and the two protocols never see each other's templates); a disallowed
   version or a buffer without a version word leaves the whole state equal *)
Theorem C06_step_scope : forall puf allow s x,
  let s' := step_state (parse_one puf allow s x) s in
  grows s s'
  /\ (forall v body, u_s 2 x = Ok v body -> v <> 9 -> st9 s' = st9 s)
  /\ (forall v body, u_s 2 x = Ok v body -> v <> 10 -> stx s' = stx s)
  /\ (forall v body, u_s 2 x = Ok v body -> allow v = false -> s' = s)
  /\ (forall e, u_s 2 x = Err e -> s' = s).
Proof. exact parse_one_state. Qed.
Print Assumptions C06_step_scope.

(* latest definition wins: after a V9 template flowset, an id maps to the LAST record of that id
   in the flowset, else to what it mapped to before; IPFIX inserts one record per set *)
Theorem C06_latest_wins_v9 : forall ts m id,
  lookup id (learn_templates ts m)
  = match last_def t_id id ts with Some t => Some t | None => lookup id m end.
Proof. intros ts m id. exact (lookup_fold_insert t_id ts m id). Qed.
Print Assumptions C06_latest_wins_v9.

Theorem C06_latest_wins_v9_options : forall ts m id,
  lookup id (learn_otemplates ts m)
  = match last_def ot_id id ts with Some t => Some t | None => lookup id m end.
Proof. intros ts m id. exact (lookup_fold_insert ot_id ts m id). Qed.
Print Assumptions C06_latest_wins_v9_options.

Theorem C06_latest_wins_insert : forall (V : Type) k (v : V) m id,
  lookup id (insert k v m) = if (id =? k)%N then Some v else lookup id m.
Proof.
  intros V k v m id. destruct (N.eqb_spec id k) as [->|Hne].
  - apply lookup_insert_eq.
  - now apply lookup_insert_neq.
Qed.
Print Assumptions C06_latest_wins_insert.

(* a data flowset/set is decoded with the template its id maps to in the state just before it
   (V9 consults the options map first, IPFIX the templates map first) *)
Theorem C06_data_uses_current_v9 : forall puf id s i t,
  id <> v9_template_id -> id <> v9_options_template_id ->
  lookup id (v9_o s) = None -> lookup id (v9_t s) = Some t ->
  parse_body puf id s i = (Ok (parse_data puf t i) [], s).
Proof.
  intros puf id s i t H0 H1 Ho Ht. unfold parse_body.
  destruct (N.eqb_spec id v9_template_id); [contradiction|].
  destruct (N.eqb_spec id v9_options_template_id); [contradiction|].
  now rewrite Ho, Ht.
Qed.
Print Assumptions C06_data_uses_current_v9.

Theorem C06_data_uses_current_ipfix : forall puf id s i t,
  (ipfix_set_min_range <= id)%N -> lookup id (ix_t s) = Some t ->
  parse_ibody puf id s i =
  match parse_idata puf (it_fields t) i with
  | Ok (ents, pad) r => (Ok (IxData ents pad) r, s)
  | Err e => (Err e, s)
  end.
Proof.
  intros puf id s i t Hid Ht. unfold parse_ibody.
  assert (H1 : (id <? ipfix_set_min_range)%N = false) by (apply N.ltb_ge; exact Hid).
  rewrite H1. cbn [andb].
  assert (H2 : (id =? ipfix_options_template_id)%N = false).
  { apply N.eqb_neq. intro E. subst id. vm_compute in Hid. apply Hid. reflexivity. }
  now rewrite H2, Ht.
Qed.
Print Assumptions C06_data_uses_current_ipfix.

(* splitting the stream into calls does not matter (results carry states) *)
Theorem C06_split_independent : forall puf allow s calls r,
  fed puf allow s calls r -> parse_bytes puf allow s (List.concat calls) = Some r.
Proof. intros puf allow s calls r H. exact (proj1 (fed_one_call puf allow s calls r H)). Qed.
Print Assumptions C06_split_independent.

(* nothing is shared between parser instances: the crate has no static, thread-local or
   interior-mutable item (regenerated inventory) *)
Theorem C06_no_shared_state : static_items = [].
Proof. reflexivity. Qed.
Print Assumptions C06_no_shared_state.

(* the caches change only through template records contained in the input: after any call (and
   whatever succeeded or failed in it) every entry of the four maps was there before the call or
   its record -- id, count(s) and every field specifier, as re-exported -- occurs in the buffer.
   Nothing is invented, defaulted or carried over from elsewhere. *)
Theorem C06_entries_were_sent : forall puf allow s x r,
  parse_bytes puf allow s x = Some r ->
  let s' := final_state s r in
  (forall k t, lookup k (v9_t (st9 s')) = Some t ->
     lookup k (v9_t (st9 s)) = Some t \/ infix (export_template t) x) /\
  (forall k t, lookup k (v9_o (st9 s')) = Some t ->
     lookup k (v9_o (st9 s)) = Some t \/ infix (export_otemplate t) x) /\
  (forall k t, lookup k (ix_t (stx s')) = Some t ->
     lookup k (ix_t (stx s)) = Some t \/ exists b, export_ix_body (IxTemplate t) = XOk b /\ infix b x) /\
  (forall k t, lookup k (ix_o (stx s')) = Some t ->
     lookup k (ix_o (stx s)) = Some t \/ exists b, export_ix_body (IxOTemplate t) = XOk b /\ infix b x).
Proof.
  intros puf allow s x r H. apply run_from in H. destruct H as [[A1 A2] [B1 B2]]. cbv zeta. auto.
Qed.
Print Assumptions C06_entries_were_sent.

From Coq Require Import Lia.

(* non-vacuity: a history on one parser -- template 256 = [Ipv4SrcAddr/4], then its redefinition
   [L4SrcPort/2, L4DstPort/2], then data -- decodes the data with the LATEST definition (one
   record of two 2-byte values), and the cache holds exactly that definition *)
Example C06_example :
  let t1 := [x00; x09; x00; x01; x00; x00; x00; x01; x00; x00; x00; x02; x00; x00; x00; x03; x00; x00; x00; x04; x00; x00; x00; x0c; x01; x00; x00; x01; x00; x08; x00; x04] in
  let t2 := [x00; x09; x00; x01; x00; x00; x00; x01; x00; x00; x00; x02; x00; x00; x00; x04; x00; x00; x00; x04; x00; x00; x00; x10; x01; x00; x00; x02; x00; x07; x00; x02; x00; x0b; x00; x02] in
  let d := [x00; x09; x00; x01; x00; x00; x00; x01; x00; x00; x00; x02; x00; x00; x00; x05; x00; x00; x00; x04; x01; x00; x00; x08; x01; xbb; x00; x35] in
  match parse_bytes true (allow_list default_allowed) empty_state (t1 ++ t2 ++ d) with
  | Some [(PV9 _, _); (PV9 _, _); (PV9 p, s)] =>
      v9_sets p = [ {| fs_id := 256; fs_len := 8;
                       fs_body := V9Data [[(v9_from_u16 7, VNum (U16 443)); (v9_from_u16 11, VNum (U16 53))]] [] |} ]
      /\ option_map t_count (lookup 256 (v9_t (st9 s))) = Some 2%N
  | _ => False
  end.
Proof. vm_compute. split; reflexivity. Qed.

(* an id names ONE template (repair of the kind-change defect): a template record supersedes an
   options template of the same id and vice versa, so whichever map is consulted first, data is
   decoded with the most recent definition of its id *)
Theorem C06_one_kind_v9 : forall puf s i,
  (forall ts pad r s', parse_body puf v9_template_id s i = (Ok (V9Templates ts pad) r, s') ->
     forall t, In t ts -> lookup (t_id t) (v9_o s') = None /\ lookup (t_id t) (v9_t s') <> None)
  /\ (forall ts pad r s', parse_body puf v9_options_template_id s i = (Ok (V9OTemplates ts pad) r, s') ->
     forall t, In t ts -> lookup (ot_id t) (v9_t s') = None /\ lookup (ot_id t) (v9_o s') <> None).
Proof.
  intros puf s i. split; intros ts pad r s' H t Ht; unfold parse_body in H.
  - change (v9_template_id =? v9_template_id)%N with true in H. cbn iota in H.
    destruct (parse_templates i) as [[ts0 pad0] r0|e]; inversion H; subst. cbn [v9_t v9_o].
    split; [apply lookup_remove_keys_in; now apply in_map|apply fold_insert_in; now apply in_map].
  - change (v9_options_template_id =? v9_template_id)%N with false in H.
    change (v9_options_template_id =? v9_options_template_id)%N with true in H. cbn iota in H.
    destruct (parse_otemplates i) as [[ts0 pad0] r0|e]; inversion H; subst. cbn [v9_t v9_o].
    split; [apply lookup_remove_keys_in; now apply in_map|apply fold_insert_in; now apply in_map].
Qed.
Print Assumptions C06_one_kind_v9.

Theorem C06_one_kind_ipfix : forall puf id s i r s',
  (forall t, parse_ibody puf id s i = (Ok (IxTemplate t) r, s') ->
     lookup (it_id t) (ix_t s') = Some t /\ lookup (it_id t) (ix_o s') = None)
  /\ (forall t, parse_ibody puf id s i = (Ok (IxOTemplate t) r, s') ->
     lookup (io_id t) (ix_o s') = Some t /\ lookup (io_id t) (ix_t s') = None).
Proof.
  intros puf id s i r s'. unfold parse_ibody.
  destruct ((id <? ipfix_set_min_range)%N && negb (id =? ipfix_options_template_id)%N).
  { destruct (parse_itemplate i) as [t0 r0|e]; [|split; intros t H; inversion H].
    destruct (fields_valid (it_fields t0)); split; intros t H; inversion H; subst. cbn [ix_t ix_o].
    split; [apply lookup_insert_eq|apply lookup_remove_eq]. }
  destruct (id =? ipfix_options_template_id)%N.
  { destruct (parse_iotemplate i) as [t0 r0|e]; [|split; intros t H; inversion H].
    destruct (fields_valid (io_fields t0)); split; intros t H; inversion H; subst. cbn [ix_t ix_o].
    split; [apply lookup_insert_eq|apply lookup_remove_eq]. }
  destruct (lookup id (ix_t s)) as [t0|].
  { destruct (parse_idata puf (it_fields t0) i) as [[? ?] ?|?]; split; intros t H; inversion H. }
  destruct (lookup id (ix_o s)) as [t0|]; [|split; intros t H; inversion H].
  destruct (parse_idata puf (io_fields t0) i) as [[? ?] ?|?]; split; intros t H; inversion H.
Qed.
Print Assumptions C06_one_kind_ipfix.

(* the two histories that used to decode with the stale definition (fixed: K_C06_kind_change).
   V9: options template 300, then template 300 = [InBytes/4], then data 300: decoded as Data.
   IPFIX: template 300, then options template 300, then data 300: decoded as options data. *)
Example C06_kind_change_example :
  (match parse_bytes true (allow_list default_allowed) empty_state ([x00; x09; x00; x01; x00; x00; x00; x01; x00; x00; x00; x02; x00; x00; x00; x01; x00; x00; x00; x04; x00; x01; x00; x14; x01; x2c; x00; x04; x00; x04; x00; x01; x00; x04; x00; x22; x00; x04; x00; x00] ++ [x00; x09; x00; x01; x00; x00; x00; x01; x00; x00; x00; x02; x00; x00; x00; x02; x00; x00; x00; x04; x00; x00; x00; x0c; x01; x2c; x00; x01; x00; x01; x00; x04] ++ [x00; x09; x00; x01; x00; x00; x00; x01; x00; x00; x00; x02; x00; x00; x00; x03; x00; x00; x00; x04; x01; x2c; x00; x08; x00; x07; x00; x64]) with
   | Some [_; _; (PV9 p, s)] =>
       (exists recs pad, map fs_body (v9_sets p) = [V9Data recs pad] /\ length recs = 1%nat)
       /\ lookup 300 (v9_t (st9 s)) <> None /\ lookup 300 (v9_o (st9 s)) = None
   | _ => False end)
  /\ (match parse_bytes true (allow_list default_allowed) empty_state ([x00; x0a; x00; x1c; x00; x00; x00; x01; x00; x00; x00; x02; x00; x00; x00; x03; x00; x02; x00; x0c; x01; x2c; x00; x01; x00; x01; x00; x04] ++ [x00; x0a; x00; x22; x00; x00; x00; x01; x00; x00; x00; x02; x00; x00; x00; x03; x00; x03; x00; x12; x01; x2c; x00; x02; x00; x01; x00; x07; x00; x02; x00; x0b; x00; x02] ++ [x00; x0a; x00; x18; x00; x00; x00; x01; x00; x00; x00; x02; x00; x00; x00; x03; x01; x2c; x00; x08; x00; x07; x00; x64]) with
      | Some [_; _; (PIx p, s)] =>
          (exists ents pad, map is_body (ix_sets p) = [IxOData ents pad] /\ length ents = 2%nat)
          /\ lookup 300 (ix_t (stx s)) = None /\ lookup 300 (ix_o (stx s)) <> None
      | _ => False end).
Proof.
  vm_compute. split; (split; [|split; (reflexivity || discriminate)]).
  - eexists. eexists. split; reflexivity.
  - eexists. eexists. split; reflexivity.
Qed.

