(* Props/C05.v — C05: IPFIX sets decode exactly as RFC 7011 and the governing template say.
   Theorems only. *)
From NF Require Import Base Nom Types Layout Value Ipfix Interp Rfc IxStream.
From NF Require Import LayoutFacts C03Proofs DecodeFacts VarFacts CacheFacts TotalFacts IxStreamFacts.
From Coq Require Import Lia.
Open Scope list_scope.

(* the message header is read at the RFC 7011 offsets *)
Theorem C05_header_layout : map (shift 2) (offsets ipfix_header_layout) = rfc7011_header.
Proof. reflexivity. Qed.
Print Assumptions C05_header_layout.

(* a fixed-length field: the interpretation of exactly the declared number of bytes; an
   enterprise-specific field: those bytes, verbatim *)
Theorem C05_value_fixed : forall puf f b v rest,
  (if_len f =? 65535)%N = false -> lenN b = if_len f ->
  match if_ent f with
  | Some _ => v = VVec b
  | None => interp (ipfix_dtype (if_type f)) b = Some v /\ (ipfix_dtype (if_type f) = DUnknown -> puf = true)
  end ->
  parse_ivalue puf f (b ++ rest) = Ok v rest.
Proof. exact decode_ivalue_fixed. Qed.
Print Assumptions C05_value_fixed.

(* a variable-length field takes its length from the 1-byte prefix (< 255) or from the 3-byte
   prefix 0xFF len16 (any length, RFC 7011 7), and the value is the bytes after the prefix *)
Theorem C05_value_variable : forall puf f (long : bool) b v rest,
  (if_len f =? 65535)%N = true -> (lenN b < (if long then 65536 else 255))%N ->
  match if_ent f with
  | Some _ => v = VVec b
  | None => interp (ipfix_dtype (if_type f)) b = Some v /\ (ipfix_dtype (if_type f) = DUnknown -> puf = true)
  end ->
  parse_ivalue puf f (varlen_prefix long (lenN b) ++ b ++ rest) = Ok v rest.
Proof. exact decode_ivalue_var. Qed.
Print Assumptions C05_value_variable.

(* what a record took is what the loop accounts for: the bytes consumed by one pass over the
   template are exactly the prefix removed from the input (so the next record starts where this
   one ended: nothing shifted) *)
Theorem C05_record_consumes : forall puf fs c i ents taken vt r,
  parse_irecord puf fs c i = Ok (ents, (taken, vt)) r ->
  exists pre, i = pre ++ r /\ N.of_nat (length pre) = taken /\ ientries_ok ents.
Proof. intros puf fs. exact (parse_irecord_ok puf fs). Qed.
Print Assumptions C05_record_consumes.

(* the set envelope and the message envelope: all sets inside the message length are visited in
   order, each on exactly length-4 bytes *)
Theorem C05_message_consumes : forall puf s i p r s',
  parse_ipfix puf s i = (Ok p r, s') -> exists pre, i = pre ++ r /\ (2 + length pre = ix_wire p)%nat.
Proof. exact parse_ipfix_consumes. Qed.
Print Assumptions C05_message_consumes.

(* a data set is decoded with the template cached for its id just before it (templates map first) *)
Theorem C05_data_dispatch : forall puf id s i t,
  (ipfix_set_min_range <= id)%N -> lookup id (ix_t s) = Some t ->
  parse_ibody puf id s i =
  match parse_idata puf (it_fields t) i with
  | Ok (ents, pad) r => (Ok (IxData ents pad) r, s)
  | Err e => (Err e, s)
  end.
Proof.
  intros puf id s i t Hid Ht. unfold parse_ibody.
  assert (H1 : (id <? ipfix_set_min_range)%N = false) by (apply N.ltb_ge; exact Hid).
  rewrite H1. cbn [andb].
  assert (H2 : (id =? ipfix_options_template_id)%N = false).
  { apply N.eqb_neq. intro E. subst id. vm_compute in Hid. apply Hid. reflexivity. }
  now rewrite H2, Ht.
Qed.
Print Assumptions C05_data_dispatch.

(* non-vacuity, and the record loop on records of different sizes: three records under a
   template (variable-length enterprise field, sourceTransportPort/2), the first the longest *)
Example C05_example :
  let fs := [ {| if_num := 100; if_type := ipfix_enterprise; if_len := 65535; if_ent := Some 9 |};
              {| if_num := 7; if_type := ipfix_from_u16 7; if_len := 2; if_ent := None |} ]%N in
  parse_idata true fs [x03; x61; x62; x63; x00; x50;  x00; x01; xbb;  x01; x7a; x00; x35;  x00]
  = Ok ([ (0, ipfix_enterprise, VVec [x61; x62; x63]); (1, ipfix_from_u16 7, VNum (U16 80));
          (0, ipfix_enterprise, VVec []);               (1, ipfix_from_u16 7, VNum (U16 443));
          (0, ipfix_enterprise, VVec [x7a]);            (1, ipfix_from_u16 7, VNum (U16 53)) ]%N, [x00]) [].
Proof. vm_compute. reflexivity. Qed.

(* The whole message.  Spec/IxStream.v describes a message the way an exporting process builds
   it: a header and a list of sets, each one template record, one options template record, or
   the data records of the template the collector holds for that id followed by padding shorter
   than the smallest record; variable-length values are sent with either prefix form.  It says
   what a collecting process must report for it (expect_isets: every value interpreted in its
   element's type, records in order, entries in template order, enterprise values verbatim) and
   what it must remember (learn_iset: last definition wins, per map).  For every conformant
   message, every collector state and any bytes after the message: the parser returns exactly
   that, leaves exactly those bytes, and ends in exactly that state.  No bound on the number of
   sets, records, fields or value lengths. *)
Theorem C05_message : forall puf s h l xs s' rest,
  wf_vals ipfix_header_layout [] h ->
  get_field ipfix_header_layout h "length" = (16 + lenN (enc_isets s l))%N ->
  conformant_isets puf s l -> expect_isets s l = Some (xs, s') ->
  parse_ipfix puf s (enc_ix_message s h l ++ rest) = (Ok {| ix_header := h; ix_sets := xs |} rest, s').
Proof. exact decode_message. Qed.
Print Assumptions C05_message.

(* the data set alone: records of different sizes, every record reported, padding left over *)
Theorem C05_data_set : forall puf fs recs ents pad,
  fs <> [] -> Forall (iknown puf) fs -> recs <> [] -> interp_irecords fs recs = Some ents ->
  (0 < min_rec fs)%N -> (lenN pad < min_rec fs)%N ->
  parse_idata puf fs (List.concat (map (enc_irecord fs) recs) ++ pad) = Ok (ents, pad) [].
Proof. exact decode_idata. Qed.
Print Assumptions C05_data_set.

(* non-vacuity of C05_message: from the empty cache, a template set (variable-length enterprise
   element, sourceTransportPort/2), an options template set, then a data set with three records
   of different sizes (long prefix form in the second) and one padding byte *)
Example C05_message_example :
  let f1 := {| if_num := 100; if_type := ipfix_enterprise; if_len := 65535; if_ent := Some 9 |}%N in
  let f2 := {| if_num := 7; if_type := ipfix_from_u16 7; if_len := 2; if_ent := None |}%N in
  let f3 := {| if_num := 4; if_type := ipfix_from_u16 4; if_len := 1; if_ent := None |}%N in
  let t := {| it_id := 256; it_count := 2; it_fields := [f1; f2]; it_pad := [] |}%N in
  let o := {| io_id := 257; io_count := 2; io_scope_count := 1; io_fields := [f3; f2]; io_pad := [x00; x00] |}%N in
  let l := [ STemplate t; SOTemplate o;
             SData 256 [ [(false, [x61; x62; x63]); (false, [x00; x50])];
                         [(true, []); (false, [x01; xbb])];
                         [(false, [x7a]); (false, [x00; x35])] ] [x00];
             SData 257 [ [(false, [x06]); (false, [x00; x16])] ] [] ]%N in
  conformant_isets true ix_empty l
  /\ exists xs s', expect_isets ix_empty l = Some (xs, s') /\ length xs = 4%nat
  /\ wf_vals ipfix_header_layout [] [10; 16 + lenN (enc_isets ix_empty l); 1; 2; 3]%N.
Proof.
  cbv zeta.
  assert (Hk : forall fs, Forall (iknown true) fs) by (intro fs; apply Forall_forall; intros ? _ _ _; reflexivity).
  split.
  - cbn [conformant_isets]. repeat split.
    all: try apply Hk.
    all: try (timeout 5 (vm_compute; reflexivity)).
    all: try (timeout 5 (vm_compute; discriminate)).
    + repeat (apply Forall_cons; [unfold wf_ifield; cbn [if_len if_num if_ent if_type]; repeat split; vm_compute; reflexivity|]). apply Forall_nil.
    + cbn. lia.
    + repeat (apply Forall_cons; [unfold wf_ifield; cbn [if_len if_num if_ent if_type]; repeat split; vm_compute; reflexivity|]). apply Forall_nil.
    + left. split; vm_compute; [discriminate|reflexivity].
    + right. split; vm_compute; [reflexivity|discriminate].
  - vm_compute. eexists. eexists. repeat split; reflexivity.
Qed.

(* The full statement is FALSE of the faithful model in two respects (known findings), with
   witnesses.  K_C05_multi_template: a template set carrying two template records (256 = [8/4],
   257 = [12/4]) is decoded as ONE template 256 with three fields, the second record's id and
   count being read as a field specifier (257, length 1).  K_C05_signed_wide: the 8-byte signed
   value 2^32 is reported as 0. *)
Theorem C05_refuted :
  (exists t, parse_itemplate [x01; x00; x00; x01; x00; x08; x00; x04;  x01; x01; x00; x01; x00; x0c; x00; x04] = Ok t []
             /\ it_id t = 256%N /\ length (it_fields t) = 3%nat)
  /\ from_field_type true DSigned 8 [x00; x00; x00; x01; x00; x00; x00; x00] = Ok (VNum (I32 0)) [].
Proof. split; [eexists; vm_compute; repeat split; reflexivity|vm_compute; reflexivity]. Qed.
Print Assumptions C05_refuted.

(* ---- buffer level (imports kept local: they shadow names used above) ---- *)
From NF Require Import Parser V9 V9Stream StreamFacts BufferFacts ExampleFacts.

(* the whole buffer across packets and protocols (same statement as C04_buffer) *)
Theorem C05_buffer : forall puf allow s ps ex,
  allow 9%N = true -> allow 10%N = true -> expect_pkts puf s ps ex ->
  parse_bytes puf allow s (enc_pkts s ps ex) = Some ex.
Proof. exact decode_buffer. Qed.
Print Assumptions C05_buffer.

(* non-vacuity of C04_buffer / C05_buffer: the V9 packet of C04_packet_example followed, in the
   same buffer, by the IPFIX message of C05_message_example meets the hypotheses from the empty
   state under the default allowed set; two elements are expected *)
Example C05_buffer_example :
  let t1 := {| t_id := 256; t_count := 2;
               t_fields := [ {| tf_num := 8; tf_type := v9_from_u16 8; tf_len := 4 |};
                             {| tf_num := 7; tf_type := v9_from_u16 7; tf_len := 2 |} ] |}%N in
  let t2 := {| t_id := 257; t_count := 1;
               t_fields := [ {| tf_num := 1; tf_type := v9_from_u16 1; tf_len := 3 |} ] |}%N in
  let l9 := [ FTemplates [t1; t2];
              FData 256 [ [[x0a; x00; x00; x01]; [x01; xbb]]; [[x0a; x00; x00; x02]; [x00; x35]] ] [];
              FData 257 [ [[xff; x00; x01]] ] [x00] ]%N in
  let f1 := {| if_num := 100; if_type := ipfix_enterprise; if_len := 65535; if_ent := Some 9 |}%N in
  let f2 := {| if_num := 7; if_type := ipfix_from_u16 7; if_len := 2; if_ent := None |}%N in
  let f3 := {| if_num := 4; if_type := ipfix_from_u16 4; if_len := 1; if_ent := None |}%N in
  let t := {| it_id := 256; it_count := 2; it_fields := [f1; f2]; it_pad := [] |}%N in
  let o := {| io_id := 257; io_count := 2; io_scope_count := 1; io_fields := [f3; f2]; io_pad := [x00; x00] |}%N in
  let lx := [ STemplate t; SOTemplate o;
              SData 256 [ [(false, [x61; x62; x63]); (false, [x00; x50])];
                          [(true, []); (false, [x01; xbb])];
                          [(false, [x7a]); (false, [x00; x35])] ] [x00];
              SData 257 [ [(false, [x06]); (false, [x00; x16])] ] [] ]%N in
  let ps := [ PktV9 [9; 3; 1; 2; 3; 4]%N l9;
              PktIx [10; 16 + lenN (enc_isets ix_empty lx); 1; 2; 3]%N lx ] in
  allow_list default_allowed 9%N = true /\ allow_list default_allowed 10%N = true /\
  exists ex, expect_pkts true empty_state ps ex /\ length ex = 2%nat.
Proof.
  cbv zeta. split; [reflexivity|]. split; [reflexivity|].
  pose proof ex_v9_packet as H9. cbv zeta in H9. destruct H9 as [H9 _].
  pose proof ex_ix_message as Hx. cbv zeta in Hx. destruct Hx as [Hx _].
  eexists ((_, _) :: (_, _) :: nil). split; [|reflexivity]. cbn [expect_pkts].
  split; [|split].
  - cbn [conformant_pkt empty_state st9]. split; [vm_compute; repeat split; reflexivity|]. split; [reflexivity|exact H9].
  - vm_compute. reflexivity.
  - split; [|split; [|exact I]].
    + cbn [conformant_pkt stx]. split; [vm_compute; repeat split; reflexivity|]. split; [reflexivity|exact Hx].
    + vm_compute. reflexivity.
Qed.
