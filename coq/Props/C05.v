(* Props/C05.v — C05: IPFIX sets decode exactly as RFC 7011 and the governing template say.
   Theorems only. *)
From NF Require Import Base Nom Types Layout Value Ipfix Interp Rfc.
From NF Require Import LayoutFacts C03Proofs DecodeFacts VarFacts CacheFacts TotalFacts.
Open Scope list_scope.

(* the message header is read at the RFC 7011 offsets *)
Theorem C05_header_layout : map (shift 2) (offsets ipfix_header_layout) = rfc7011_header.
Proof. reflexivity. Qed.
Print Assumptions C05_header_layout.

(* a fixed-length field: the interpretation of exactly the declared number of bytes; an
   enterprise-specific field: those bytes, verbatim *)
Theorem C05_value_fixed : forall puf f b v rest,
  (if_len f =? 65535)%N = false -> lenN b = if_len f ->
  match if_ent f with
  | Some _ => v = VVec b
  | None => interp (ipfix_dtype (if_type f)) b = Some v /\ (ipfix_dtype (if_type f) = DUnknown -> puf = true)
  end ->
  parse_ivalue puf f (b ++ rest) = Ok v rest.
Proof. exact decode_ivalue_fixed. Qed.
Print Assumptions C05_value_fixed.

(* a variable-length field takes its length from the 1-byte prefix (< 255) or from the 3-byte
   prefix 0xFF len16 (any length, RFC 7011 7), and the value is the bytes after the prefix *)
Theorem C05_value_variable : forall puf f (long : bool) b v rest,
  (if_len f =? 65535)%N = true -> (lenN b < (if long then 65536 else 255))%N ->
  match if_ent f with
  | Some _ => v = VVec b
  | None => interp (ipfix_dtype (if_type f)) b = Some v /\ (ipfix_dtype (if_type f) = DUnknown -> puf = true)
  end ->
  parse_ivalue puf f (varlen_prefix long (lenN b) ++ b ++ rest) = Ok v rest.
Proof. exact decode_ivalue_var. Qed.
Print Assumptions C05_value_variable.

(* what a record took is what the loop accounts for: the bytes consumed by one pass over the
   template are exactly the prefix removed from the input (so the next record starts where this
   one ended: nothing shifted) *)
Theorem C05_record_consumes : forall puf fs c i ents taken vt r,
  parse_irecord puf fs c i = Ok (ents, (taken, vt)) r ->
  exists pre, i = pre ++ r /\ N.of_nat (length pre) = taken /\ ientries_ok ents.
Proof. intros puf fs. exact (parse_irecord_ok puf fs). Qed.
Print Assumptions C05_record_consumes.

(* the set envelope and the message envelope: all sets inside the message length are visited in
   order, each on exactly length-4 bytes *)
Theorem C05_message_consumes : forall puf s i p r s',
  parse_ipfix puf s i = (Ok p r, s') -> exists pre, i = pre ++ r /\ (2 + length pre = ix_wire p)%nat.
Proof. exact parse_ipfix_consumes. Qed.
Print Assumptions C05_message_consumes.

(* a data set is decoded with the template cached for its id just before it (templates map first) *)
Theorem C05_data_dispatch : forall puf id s i t,
  (ipfix_set_min_range <= id)%N -> lookup id (ix_t s) = Some t ->
  parse_ibody puf id s i =
  match parse_idata puf (it_fields t) i with
  | Ok (ents, pad) r => (Ok (IxData ents pad) r, s)
  | Err e => (Err e, s)
  end.
Proof.
  intros puf id s i t Hid Ht. unfold parse_ibody.
  assert (H1 : (id <? ipfix_set_min_range)%N = false) by (apply N.ltb_ge; exact Hid).
  rewrite H1. cbn [andb].
  assert (H2 : (id =? ipfix_options_template_id)%N = false).
  { apply N.eqb_neq. intro E. subst id. vm_compute in Hid. apply Hid. reflexivity. }
  now rewrite H2, Ht.
Qed.
Print Assumptions C05_data_dispatch.

(* non-vacuity, and the record loop on records of different sizes: three records under a
   template (variable-length enterprise field, sourceTransportPort/2), the first the longest *)
Example C05_example :
  let fs := [ {| if_num := 100; if_type := ipfix_enterprise; if_len := 65535; if_ent := Some 9 |};
              {| if_num := 7; if_type := ipfix_from_u16 7; if_len := 2; if_ent := None |} ]%N in
  parse_idata true fs [x03; x61; x62; x63; x00; x50;  x00; x01; xbb;  x01; x7a; x00; x35;  x00]
  = Ok ([ (0, ipfix_enterprise, VVec [x61; x62; x63]); (1, ipfix_from_u16 7, VNum (U16 80));
          (0, ipfix_enterprise, VVec []);               (1, ipfix_from_u16 7, VNum (U16 443));
          (0, ipfix_enterprise, VVec [x7a]);            (1, ipfix_from_u16 7, VNum (U16 53)) ]%N, [x00]) [].
Proof. vm_compute. reflexivity. Qed.
