(* Props/C17.v — C17: the crate builds and keeps its contract with parse_unknown_fields disabled.
   Theorems only; puf = false is the feature-off build. *)
From NF Require Import Base Nom Types Layout Value V9 Ipfix Parser Inventory.
From NF Require Import MiscFacts.
Open Scope list_scope.

(* every data type except Unknown decodes identically with the feature off *)
Theorem C17_known_types_same : forall dt len i,
  dt <> DUnknown -> from_field_type false dt len i = from_field_type true dt len i.
Proof. exact from_field_type_puf. Qed.
Print Assumptions C17_known_types_same.

(* hence records and whole data flowsets / record loops over known-only templates *)
Theorem C17_v9_known_same : forall t i,
  Forall v9_known (t_fields t) -> parse_data false t i = parse_data true t i.
Proof. exact parse_data_puf. Qed.
Print Assumptions C17_v9_known_same.

Theorem C17_ipfix_known_same : forall fs fuel i,
  Forall ix_known fs -> parse_irecords fuel false fs i = parse_irecords fuel true fs i.
Proof. intros fs fuel i H. exact (parse_irecords_puf fs H fuel i). Qed.
Print Assumptions C17_ipfix_known_same.

(* a record containing a field the library does not know is not decoded: V9 reports no record
   of that flowset (everything stays padding), IPFIX fails the pass (and with it the set) *)
Theorem C17_v9_unknown_not_decoded : forall n fs i,
  Exists (fun f => v9_dtype (tf_type f) = DUnknown) fs -> parse_records false n fs i = ([], i).
Proof. exact parse_records_off_unknown. Qed.
Print Assumptions C17_v9_unknown_not_decoded.

Theorem C17_ipfix_unknown_not_decoded : forall fs c i,
  Exists (fun f => if_ent f = None /\ ipfix_dtype (if_type f) = DUnknown) fs ->
  exists e, parse_irecord false fs c i = Err e.
Proof. intros fs c i H. exact (parse_irecord_off_unknown fs H c i). Qed.
Print Assumptions C17_ipfix_unknown_not_decoded.

(* the build: both cfg arms of parse_unknown_fields take as many parameters as the call site
   passes, and the feature is declared and on by default (regenerated from the source) *)
Theorem C17_arity_and_features :
  puf_arms = [("on", 2); ("off", 2)]%string%N /\ puf_call_args = [2]%N
  /\ features = [("default", ["parse_unknown_fields"]); ("parse_unknown_fields", [])]%string.
Proof. repeat split; reflexivity. Qed.
Print Assumptions C17_arity_and_features.

(* non-vacuity: a known-only template and its data decode identically with the feature off and
   on; under a template with an element the library does not know (40000) the feature-on build
   reports the record, the feature-off build reports none (the bytes stay in the padding) *)
Example C17_example :
  let known := [x00; x09; x00; x01; x00; x00; x00; x01; x00; x00; x00; x02; x00; x00; x00; x03; x00; x00; x00; x04; x00; x00; x00; x10; x01; x00; x00; x02; x00; x07; x00; x02; x00; x0b; x00; x02] ++ [x00; x09; x00; x01; x00; x00; x00; x01; x00; x00; x00; x02; x00; x00; x00; x05; x00; x00; x00; x04; x01; x00; x00; x08; x01; xbb; x00; x35] in
  let unknown := [x00; x09; x00; x01; x00; x00; x00; x01; x00; x00; x00; x02; x00; x00; x00; x06; x00; x00; x00; x04; x00; x00; x00; x10; x01; x01; x00; x02; x00; x07; x00; x02; x9c; x40; x00; x02] ++ [x00; x09; x00; x01; x00; x00; x00; x01; x00; x00; x00; x02; x00; x00; x00; x07; x00; x00; x00; x04; x01; x01; x00; x08; x01; xbb; x00; x35] in
  parse_bytes false (allow_list default_allowed) empty_state known = parse_bytes true (allow_list default_allowed) empty_state known
  /\ (match parse_bytes true (allow_list default_allowed) empty_state unknown, parse_bytes false (allow_list default_allowed) empty_state unknown with
      | Some [_; (PV9 p, _)], Some [_; (PV9 q, _)] =>
          (exists recs, map fs_body (v9_sets p) = [V9Data recs []] /\ length recs = 1%nat)
          /\ map fs_body (v9_sets q) = [V9Data [] [x01; xbb; x00; x35]]
      | _, _ => False
      end).
Proof. vm_compute. split; [reflexivity|]. split; [eexists; split; reflexivity|reflexivity]. Qed.
