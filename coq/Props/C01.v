(* Props/C01.v — C01: parsing untrusted bytes never crashes, aborts or hangs; every result can
   be re-exported without a panic.  Theorems only.

   What is a theorem here: the model's parse_bytes is total with explicit recursion fuel that
   never runs out, for EVERY state (not only reachable ones), buffer and allowed set — so every
   loop of the crate makes progress; nothing in the model's parse path can panic (the model has
   no panic outcome there: the one panicking expression, the division by the template size, was
   repaired and is modelled by record_count); re-export of parser output never reaches
   byteorder's range assertion (the only panic-capable call in the export path).  The JSON tree
   and the common view are total Gallina functions.  What is measured, not proved: that the
   bounded recursion depth (no self-recursive function is left: recursion_sites = []) fits a
   2 MiB stack, and wall-clock time — see DESIGN.md §11. *)
From NF Require Import Base Nom Types Layout Value V9 Ipfix Parser Export Inventory.
From NF Require Import RunFacts TotalFacts ExportFacts.
Open Scope string_scope.
Open Scope list_scope.

Theorem C01_total : forall puf allow s x,
  exists r, parse_bytes puf allow s x = Some r /\ Forall (fun es => no_fuel_elem (fst es)) r.
Proof.
  intros puf allow s x. destruct (parse_bytes_total puf allow s x) as [r H].
  exists r. split; [exact H|]. exact (run_no_fuel puf allow _ s x r H).
Qed.
Print Assumptions C01_total.

Theorem C01_reexport_no_panic : forall puf allow s x r,
  parse_bytes puf allow s x = Some r -> Forall (fun es => export_elem (fst es) <> Some XPanic) r.
Proof.
  intros puf allow s x r H. pose proof (run_elems_ok puf allow _ s x r H) as Hok.
  eapply Forall_impl; [|exact Hok]. intros es He. now apply export_elem_no_panic.
Qed.
Print Assumptions C01_reexport_no_panic.

(* every value the decoders can produce keeps write_u24 in range *)
Theorem C01_values_in_range : forall puf dt len i v r,
  from_field_type puf dt len i = Ok v r -> ValueFacts.fval_ok v.
Proof.
  intros puf dt len i v r H. apply ValueFacts.from_field_type_ok in H. destruct H as [_ [_ [_ H]]]. exact H.
Qed.
Print Assumptions C01_values_in_range.

(* the inventory of panic-capable expressions, loops and self-recursive functions in /repo/src
   (outside #[cfg(test)]), regenerated on every run, is exactly what the model accounts for:
   the two packet/record loops (fuelled in the model), two divisions by the constant 4, no
   unwrap/expect/panic!/indexing/unchecked arithmetic, no recursion, no statics *)
Theorem C01_inventory :
  panic_sites = [ ("src/lib.rs", "parse_bytes", "loop", "loop");
                  ("src/variable_versions/v9.rs", "<item>", "div", "h / 4");
                  ("src/variable_versions/v9.rs", "<item>", "div", "h / 4");
                  ("src/variable_versions/ipfix.rs", "parse", "loop", "loop") ]
  /\ recursion_sites = [] /\ static_items = [].
Proof. repeat split; reflexivity. Qed.
Print Assumptions C01_inventory.
