(* Props/C09.v — C09: re-exporting a decoded V9 packet reproduces the bytes it came from.
   Theorems only.  The full statement (export (parse x) = consumed x for every accepted x) is
   false of the faithful model; the refuting witnesses are the Examples at the end of
   Proofs/ReexportFacts.v.  What is proved: exactness outside the classes given by exact_dtype
   (ReexportFacts.v), for every accepted input, per value and per flowset kind. *)
From NF Require Import Base Nom Types Layout Value V9 Parser Export.
From NF Require Import ReexportFacts ExportFacts VarFacts RunFacts PacketFacts.
Open Scope list_scope.

(* one value, ANY accepted input: to_be_bytes returns exactly the bytes consumed whenever
   exact_dtype holds for its (data type, declared length, bytes) *)
Theorem C09_value : forall puf dt len i v r,
  from_field_type puf dt len i = Ok v r ->
  exists pre, i = pre ++ r /\ (exact_dtype dt len pre = true -> fval_to_be v = XOk pre).
Proof. exact reexport_value. Qed.
Print Assumptions C09_value.

(* template, options-template and options-data flowset bodies re-export exactly for EVERY
   accepted body (padding, or the torso of a cut-short record kept as padding, included) *)
Theorem C09_template_flowset : forall body ts pad r,
  parse_templates body = Ok (ts, pad) r -> export_v9_body (V9Templates ts pad) = XOk body.
Proof. exact templates_body_exact. Qed.
Print Assumptions C09_template_flowset.

Theorem C09_options_template_flowset : forall body ts pad r,
  parse_otemplates body = Ok (ts, pad) r -> export_v9_body (V9OTemplates ts pad) = XOk body.
Proof. exact otemplates_body_exact. Qed.
Print Assumptions C09_options_template_flowset.

Theorem C09_options_data_flowset : forall t body b r,
  parse_odata t body = Ok b r -> export_v9_body b = XOk body.
Proof. exact odata_body_exact. Qed.
Print Assumptions C09_options_data_flowset.

(* the envelope: what a flowset occupied is id, length, body — and export writes id, length, body *)
Theorem C09_flowset_envelope : forall puf s i f r s',
  parse_flowset puf s i = (Ok f r, s') ->
  exists body r0, i = enc 2 (fs_id f) ++ enc 2 (fs_len f) ++ body ++ r
    /\ length body = N.to_nat (fs_len f - 4)
    /\ parse_body puf (fs_id f) s body = (Ok (fs_body f) r0, s').
Proof. exact parse_flowset_ok. Qed.
Print Assumptions C09_flowset_envelope.

(* THE ROUND TRIP, whole packet: every V9 packet parse_bytes reports (any state, allowed set,
   flowset mix, padding, templates cached earlier) whose decoded data values are all of the
   lossless kinds (lossless_value: unsigned numbers, 3-byte signed, addresses, floats, byte
   vectors incl. unknown types, protocols other than 145..254) re-exports to EXACTLY the bytes it
   occupied: the input is that export followed by the unconsumed rest. *)
Theorem C09_packet_roundtrip : forall puf allow s x p rest s',
  parse_one puf allow s x = StOk (PV9 p) rest s' -> v9_lossless p = true ->
  exists pre, x = pre ++ rest /\ export_v9 p = XOk pre.
Proof. exact v9_step_reexport. Qed.
Print Assumptions C09_packet_roundtrip.

(* to_be_bytes never panics on parser output *)
Theorem C09_no_panic : forall puf allow s x r,
  parse_bytes puf allow s x = Some r -> Forall (fun es => export_elem (fst es) <> Some XPanic) r.
Proof.
  intros puf allow s x r H. pose proof (run_elems_ok puf allow _ s x r H) as Hok.
  eapply Forall_impl; [|exact Hok]. intros es He. now apply export_elem_no_panic.
Qed.
Print Assumptions C09_no_panic.

(* the classes are real (one witness each) and a kept width is exact *)
Theorem C09_refuted :
  reexports_exactly true DDurMillis 4 [x00; x00; x00; x64] = false /\
  reexports_exactly true DMac 6 [x00; x1b; x44; x11; x3a; xb7] = false /\
  reexports_exactly true DString 2 [xc3; x28] = false /\
  reexports_exactly true DProto 1 [x91] = false /\
  reexports_exactly true DUnsigned 3 [xff; x00; x01] = true.
Proof. repeat split; vm_compute; reflexivity. Qed.
Print Assumptions C09_refuted.

(* ---- buffer level (imports kept local) ---- *)
From NF Require Import RunFacts RoundtripFacts.

(* THE ROUND TRIP over a whole buffer: whatever parse_bytes reports for a buffer -- any mix of
   V5, V7, V9 and IPFIX packets, any state, any allowed set -- if every reported element is of the
   lossless kind (V5/V7 always; V9: v9_lossless; IPFIX: ix_lossless for the caches the message
   met; no error element), then the concatenation of the elements' to_be_bytes is exactly the
   prefix of the buffer they occupied: buffer = that concatenation ++ the unconsumed rest. *)
Theorem C09_buffer_roundtrip : forall puf allow s x r,
  parse_bytes puf allow s x = Some r -> lossless_run s r = true ->
  exists pre rest, x = pre ++ rest /\ export_run r = XOk pre /\ length pre = total_wire (map fst r).
Proof. intros puf allow s x r. unfold parse_bytes. apply run_reexport. Qed.
Print Assumptions C09_buffer_roundtrip.

(* non-vacuity of C09_packet_roundtrip / C09_buffer_roundtrip: a V9 template packet followed by
   a data packet (unsigned values) is reported as two lossless elements whose concatenated
   re-export is the buffer *)
Example C09_example :
  let a := [x00; x09; x00; x01; x00; x00; x00; x01; x00; x00; x00; x02; x00; x00; x00; x03; x00; x00; x00; x04; x00; x00; x00; x0c; x01; x00; x00; x01; x00; x08; x00; x04] in
  let b := [x00; x09; x00; x01; x00; x00; x00; x01; x00; x00; x00; x02; x00; x00; x00; x05; x00; x00; x00; x04; x01; x00; x00; x08; x01; xbb; x00; x35] in
  match parse_bytes true (allow_list default_allowed) empty_state (a ++ b) with
  | Some r => lossless_run empty_state r = true /\ export_run r = XOk (a ++ b) /\ length r = 2%nat
  | None => False
  end.
Proof. vm_compute. repeat split; reflexivity. Qed.
