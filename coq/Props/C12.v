(* Props/C12.v — C12: allowed_versions filters by version and nothing else.  Theorems only. *)
From NF Require Import Base Nom Types Layout Value V9 Ipfix Parser RunFacts ParserFacts.
Open Scope list_scope.

(* With allowed set `allow`, parse_bytes returns exactly the leading elements (each with the
   parser state after it) that a parser allowing every version returns, up to but excluding the
   first one whose version word is not allowed; an Incomplete error on a 1-byte tail has no
   version word and is kept.  Since every element carries its state, the packets cut off
   provably change no cache. *)
Theorem C12_filter : forall puf allow s x rall,
  parse_bytes puf all_versions s x = Some rall ->
  parse_bytes puf allow s x = Some (cut allow rall).
Proof. intros puf allow s x rall H. exact (run_filter puf allow _ s x rall H). Qed.
Print Assumptions C12_filter.

(* an allowed version other than 5, 7, 9, 10 is an unknown-version error carrying the bytes
   after the version word, with the whole buffer as remaining, state untouched *)
Theorem C12_unknown : forall puf allow s v y,
  v < 65536 -> allow v = true -> v <> 5 -> v <> 7 -> v <> 9 -> v <> 10 ->
  parse_bytes puf allow s (enc 2 v ++ y) = Some [(PErr (NUnknownVersion y) (enc 2 v ++ y), s)].
Proof.
  intros puf allow s v y Hb Ha H5 H7 H9 H10. unfold parse_bytes.
  apply run_unknown_version; auto. rewrite version_kind_spec.
  destruct (N.eqb_spec v 5); [contradiction|]. destruct (N.eqb_spec v 7); [contradiction|].
  destruct (N.eqb_spec v 9); [contradiction|]. destruct (N.eqb_spec v 10); [contradiction|reflexivity].
Qed.
Print Assumptions C12_unknown.

(* the dispatch table and the default allowed set, regenerated from lib.rs *)
Theorem C12_dispatch_and_default :
  version_dispatch = [(5, "v5"); (7, "v7"); (9, "v9"); (10, "ipfix")]%string%N
  /\ default_allowed = [5; 7; 9; 10]%N.
Proof. split; reflexivity. Qed.
Print Assumptions C12_dispatch_and_default.

(* non-vacuity of C12_filter: under allowed = {5, 10} a buffer V5 ; V9 template ; IPFIX gives the
   V5 element only (the V9 packet and everything after it are neither reported nor cached),
   whereas all three are reported when every version is allowed *)
Example C12_example :
  let a := [x00; x05; x00; x01; x03; x00; x04; x00; x05; x00; x06; x07; x08; x09; x00; x01; x02; x03; x04; x05; x06; x07; x08; x09; x00; x01; x02; x03; x04; x05; x06; x07; x08; x09; x00; x01; x02; x03; x04; x05; x06; x07; x08; x09; x00; x01; x02; x03; x04; x05; x06; x07; x08; x09; x00; x01; x02; x03; x04; x05; x06; x07; x08; x09; x00; x01; x02; x03; x04; x05; x06; x07] in
  let b := [x00; x09; x00; x01; x00; x00; x00; x01; x00; x00; x00; x02; x00; x00; x00; x03; x00; x00; x00; x04; x00; x00; x00; x0c; x01; x00; x00; x01; x00; x08; x00; x04] in
  let c := [x00; x0a; x00; x10; x00; x00; x00; x01; x00; x00; x00; x02; x00; x00; x00; x03] in
  match parse_bytes true all_versions empty_state (a ++ b ++ c), parse_bytes true (allow_list [5; 10]%N) empty_state (a ++ b ++ c) with
  | Some [(PV5 p, _); (PV9 _, _); (PIx _, _)], Some [(PV5 q, s)] => p = q /\ s = empty_state
  | _, _ => False
  end.
Proof. vm_compute. split; reflexivity. Qed.
