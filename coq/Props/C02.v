(* Props/C02.v — C02: results account for every input byte: packets first, at most one final
   error.  Theorems only. *)
From NF Require Import Base Nom Types Layout Value V9 Ipfix Parser RunFacts VarFacts.
Open Scope list_scope.

(* wire_len e reads only e's own header: 24+48*count, 24+52*count, max(length,16),
   20 + sum of max(flowset length,4) (RunFacts.wire_len, VarFacts.v9_wire / ix_wire). *)

(* For every buffer, state and allowed set: the reported elements are good ++ tail where no
   element of good is an error, their wire lengths add up to a prefix of the buffer, tail is
   empty or one Error whose remaining is exactly the unconsumed suffix, and if there is no
   error the buffer is used up or the next two bytes are a version outside the allowed set. *)
Theorem C02_accounting : forall puf allow s x r,
  parse_bytes puf allow s x = Some r ->
  exists good tail,
    map fst r = good ++ tail
    /\ Forall (fun e => is_error e = false) good
    /\ (total_wire good <= length x)%nat
    /\ (tail = [] \/ exists err, tail = [PErr err (skipn (total_wire good) x)])
    /\ (tail = [] -> total_wire good = length x
                     \/ exists v, firstn 2 (skipn (total_wire good) x) = enc 2 v /\ v < 65536 /\ allow v = false).
Proof. intros puf allow s x r H. exact (run_accounted puf allow _ s x r H). Qed.
Print Assumptions C02_accounting.

(* each reported packet is the parse of exactly its own slice: the step consumed wire_len bytes *)
Theorem C02_step_consumes : forall puf allow s x e rest s',
  parse_one puf allow s x = StOk e rest s' ->
  exists pre, x = pre ++ rest /\ length pre = wire_len e /\ is_error e = false /\ (2 <= length pre)%nat.
Proof. exact parse_one_consumes. Qed.
Print Assumptions C02_step_consumes.

(* parse_bytes always returns (the explicit recursion fuel never runs out) *)
Theorem C02_total : forall puf allow s x, exists r, parse_bytes puf allow s x = Some r.
Proof. exact parse_bytes_total. Qed.
Print Assumptions C02_total.

Theorem C02_empty : forall puf allow s, parse_bytes puf allow s [] = Some [].
Proof. reflexivity. Qed.
Print Assumptions C02_empty.
