(* Props/C15.v — C15: parsing cost is bounded by input size plus output size.  Theorems only.
   What is proved are bounds on what is MATERIALISED, in terms of bytes actually present;
   allocator behaviour is measured (DESIGN.md 11). *)
From NF Require Import Base Nom Types Layout Value V9 Ipfix Parser.
From NF Require Import RunFacts MiscFacts VarFacts.
From Coq Require Import Lia.
Open Scope list_scope.

(* no count or length field makes a packet larger than the bytes present: every reported
   packet's wire length (from its own header) is at most the buffer it was decoded from *)
Theorem C15_announced_bytes_present : forall puf allow s x e rest s',
  parse_one puf allow s x = StOk e rest s' -> (wire_len e + length rest = length x)%nat.
Proof.
  intros puf allow s x e rest s' H. apply parse_one_consumes in H. destruct H as [pre [-> [HL _]]].
  rewrite app_length. lia.
Qed.
Print Assumptions C15_announced_bytes_present.

(* V9 data flowset: at most floor(body / record size) records are materialised *)
Theorem C15_v9_records : forall puf n fs i, (length (fst (parse_records puf n fs i)) <= n)%nat.
Proof. exact parse_records_count. Qed.
Print Assumptions C15_v9_records.

Theorem C15_v9_record_count : forall len total, (record_count len total <= len)%N.
Proof.
  intros len total. unfold record_count. destruct (N.eqb_spec total 0); [lia|].
  apply N.div_le_upper_bound; [assumption|]. nia.
Qed.
Print Assumptions C15_v9_record_count.

(* IPFIX data set: every further pass over the template consumed at least one byte, so a body of
   n bytes yields at most (n+1) * |template| values.  (The factor |template| is the known
   inflation class when the template is large and its fields are zero-length.) *)
Theorem C15_ipfix_values : forall puf fs fuel i ents r,
  parse_irecords fuel puf fs i = Ok ents r -> (length ents <= (length i + 1) * length fs)%nat.
Proof. intros puf fs. exact (parse_irecords_entries puf fs). Qed.
Print Assumptions C15_ipfix_values.

(* the whole result: the reported packets' wire lengths add up to at most the buffer *)
Theorem C15_total_wire : forall puf allow s x r,
  parse_bytes puf allow s x = Some r ->
  exists good tail, map fst r = good ++ tail /\ (total_wire good <= length x)%nat /\ (length tail <= 1)%nat.
Proof.
  intros puf allow s x r H. destruct (run_accounted puf allow _ s x r H) as [good [tail [H1 [_ [H3 [H4 _]]]]]].
  exists good, tail. repeat split; auto. destruct H4 as [->|[err ->]]; cbn; lia.
Qed.
Print Assumptions C15_total_wire.

(* the number of reported elements is linear in the buffer: every reported packet occupies at
   least 16 bytes of it (IPFIX 16, V9 20, V5/V7 24), so a buffer of n bytes yields at most
   n/16 packets plus at most one Error element *)
Theorem C15_elements_linear : forall puf allow s x r,
  parse_bytes puf allow s x = Some r -> (16 * (length r - 1) <= length x)%nat.
Proof.
  intros puf allow s x r H. destruct (run_accounted puf allow _ s x r H) as [good [tail [H1 [H2 [H3 [H4 _]]]]]].
  assert (Hw : (16 * length good <= total_wire good)%nat).
  { clear - H2. induction H2 as [|e good He _ IH]; [cbn; lia|].
    cbn [length total_wire fold_right]. fold (total_wire good).
    assert (16 <= wire_len e)%nat; [|lia].
    destruct e; cbn [wire_len is_error] in *; try discriminate; unfold v9_wire, ix_wire; lia. }
  assert (Hl : length r = (length good + length tail)%nat) by (rewrite <- (map_length fst r), H1, app_length; reflexivity).
  destruct H4 as [->|[err ->]]; cbn [length] in Hl; lia.
Qed.
Print Assumptions C15_elements_linear.
