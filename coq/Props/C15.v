(* Props/C15.v — C15: parsing cost is bounded by input size plus output size.  Theorems only.
   What is proved are bounds on what is MATERIALISED, in terms of bytes actually present;
   allocator behaviour is measured (DESIGN.md 11). *)
From NF Require Import Base Nom Types Layout Value V9 Ipfix Parser.
From NF Require Import RunFacts MiscFacts VarFacts CostFacts.
From Coq Require Import Lia.
Open Scope list_scope.

(* no count or length field makes a packet larger than the bytes present: every reported
   packet's wire length (from its own header) is at most the buffer it was decoded from *)
Theorem C15_announced_bytes_present : forall puf allow s x e rest s',
  parse_one puf allow s x = StOk e rest s' -> (wire_len e + length rest = length x)%nat.
Proof.
  intros puf allow s x e rest s' H. apply parse_one_consumes in H. destruct H as [pre [-> [HL _]]].
  rewrite app_length. lia.
Qed.
Print Assumptions C15_announced_bytes_present.

(* V9 data flowset: at most floor(body / record size) records are materialised *)
Theorem C15_v9_records : forall puf n fs i, (length (fst (parse_records puf n fs i)) <= n)%nat.
Proof. exact parse_records_count. Qed.
Print Assumptions C15_v9_records.

Theorem C15_v9_record_count : forall len total, (record_count len total <= len)%N.
Proof.
  intros len total. unfold record_count. destruct (N.eqb_spec total 0); [lia|].
  apply N.div_le_upper_bound; [assumption|]. nia.
Qed.
Print Assumptions C15_v9_record_count.

(* IPFIX data set: every further pass over the template consumed at least one byte, so a body of
   n bytes yields at most (n+1) * |template| values.  (The factor |template| is the known
   inflation class when the template is large and its fields are zero-length.) *)
Theorem C15_ipfix_values : forall puf fs fuel i ents r,
  parse_irecords fuel puf fs i = Ok ents r -> (length ents <= (length i + 1) * length fs)%nat.
Proof. intros puf fs. exact (parse_irecords_entries puf fs). Qed.
Print Assumptions C15_ipfix_values.

(* the whole result: the reported packets' wire lengths add up to at most the buffer *)
Theorem C15_total_wire : forall puf allow s x r,
  parse_bytes puf allow s x = Some r ->
  exists good tail, map fst r = good ++ tail /\ (total_wire good <= length x)%nat /\ (length tail <= 1)%nat.
Proof.
  intros puf allow s x r H. destruct (run_accounted puf allow _ s x r H) as [good [tail [H1 [_ [H3 [H4 _]]]]]].
  exists good, tail. repeat split; auto. destruct H4 as [->|[err ->]]; cbn; lia.
Qed.
Print Assumptions C15_total_wire.

(* the number of reported elements is linear in the buffer: every reported packet occupies at
   least 16 bytes of it (IPFIX 16, V9 20, V5/V7 24), so a buffer of n bytes yields at most
   n/16 packets plus at most one Error element *)
Theorem C15_elements_linear : forall puf allow s x r,
  parse_bytes puf allow s x = Some r -> (16 * (length r - 1) <= length x)%nat.
Proof.
  intros puf allow s x r H. destruct (run_accounted puf allow _ s x r H) as [good [tail [H1 [H2 [H3 [H4 _]]]]]].
  assert (Hw : (16 * length good <= total_wire good)%nat).
  { clear - H2. induction H2 as [|e good He _ IH]; [cbn; lia|].
    cbn [length total_wire fold_right]. fold (total_wire good).
    assert (16 <= wire_len e)%nat; [|lia].
    destruct e; cbn [wire_len is_error] in *; try discriminate; unfold v9_wire, ix_wire; lia. }
  assert (Hl : length r = (length good + length tail)%nat) by (rewrite <- (map_length fst r), H1, app_length; reflexivity).
  destruct H4 as [->|[err ->]]; cbn [length] in Hl; lia.
Qed.
Print Assumptions C15_elements_linear.

(* Outside the zero-length class the output is bounded by the INPUT alone: when no field of the
   governing template has length 0, every value decoded consumed at least one byte of the set, so
   a data flowset / data set of n bytes materialises at most n values (whatever the template's
   size, whatever the counts the headers announce); the values plus the bytes left over never
   exceed the bytes given. *)
Theorem C15_v9_values_le_bytes : forall puf fs n i,
  Forall (fun f => tf_len f <> 0%N) fs ->
  let (recs, r) := parse_records puf n fs i in (length (List.concat recs) + length r <= length i)%nat.
Proof. intros puf fs n i H. exact (parse_records_values puf fs H n i). Qed.
Print Assumptions C15_v9_values_le_bytes.

Theorem C15_ipfix_values_le_bytes : forall puf fs fuel i ents r,
  Forall (fun f => if_len f <> 0%N) fs ->
  parse_irecords fuel puf fs i = Ok ents r -> (length ents + length r <= length i)%nat.
Proof. intros puf fs fuel i ents r H. exact (parse_irecords_values puf fs H fuel i ents r). Qed.
Print Assumptions C15_ipfix_values_le_bytes.

(* the hypothesis is needed (class K_C15_zero_len_inflation): a template of one 1-byte field and
   three zero-length string fields turns 2 bytes into 8 values *)
Theorem C15_zero_len_refuted :
  exists fs i ents r, parse_irecords 10 true fs i = Ok ents r /\ (length i < length ents)%nat.
Proof.
  exists [ {| if_num := 4; if_type := ipfix_from_u16 4; if_len := 1; if_ent := None |};
           {| if_num := 82; if_type := ipfix_from_u16 82; if_len := 0; if_ent := None |};
           {| if_num := 82; if_type := ipfix_from_u16 82; if_len := 0; if_ent := None |};
           {| if_num := 82; if_type := ipfix_from_u16 82; if_len := 0; if_ent := None |} ]%N,
         [x06; x11].
  eexists; eexists. split; [vm_compute; reflexivity|cbn; lia].
Qed.
Print Assumptions C15_zero_len_refuted.

(* non-vacuity: a template of two fields of non-zero length and 9 bytes: 4 records of 2 values, 1 byte left *)
Example C15_example :
  let fs := [ {| if_num := 4; if_type := ipfix_from_u16 4; if_len := 1; if_ent := None |};
              {| if_num := 4; if_type := ipfix_from_u16 4; if_len := 1; if_ent := None |} ]%N in
  Forall (fun f => if_len f <> 0%N) fs
  /\ match parse_irecords 10 true fs [x06; x11; x06; x11; x06; x11; x06; x11; x01] with
     | Ok ents r => length ents = 8%nat /\ length r = 1%nat
     | Err _ => False end.
Proof. split; [repeat constructor; discriminate|vm_compute; split; reflexivity]. Qed.
