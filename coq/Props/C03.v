(* Props/C03.v — C03: V5 and V7 packets decode exactly per the Cisco fixed layouts.
   Theorems only; proofs are in Proofs/. *)
From NF Require Import Base Nom Types Layout Value V9 Ipfix Parser Cisco.
From NF Require Import BaseFacts LayoutFacts FixedFacts C03Proofs ParserFacts C03Inst.
Open Scope list_scope.

(* The generated layouts, read as (name, offset, width) tables, ARE the published tables:
   the V5/V7 header after the version word, and the 48/52-byte records. *)
Theorem C03_layouts_are_cisco :
  map (shift 2) (offsets v5_header_layout) = cisco_v5_header /\
  offsets v5_record_layout = cisco_v5_record /\
  map (shift 2) (offsets v7_header_layout) = cisco_v7_header /\
  offsets v7_record_layout = cisco_v7_record /\
  (2 + wire_width v5_header_layout = cisco_v5_header_size)%nat /\
  wire_width v5_record_layout = cisco_v5_record_size /\
  (2 + wire_width v7_header_layout = cisco_v7_header_size)%nat /\
  wire_width v7_record_layout = cisco_v7_record_size.
Proof. exact layouts_are_cisco. Qed.
Print Assumptions C03_layouts_are_cisco.

(* Every buffer that starts with a complete V5 packet (version word 5, 24 + 48*count bytes
   present), in any parser state and under any allowed set containing 5: the packet is
   reported, it ends after 24 + 48*count bytes, the header fields and each of the count
   records carry the big-endian values at the Cisco offsets, and the derived fields are the
   version and the table's name for the protocol number. *)
Theorem C03_v5_complete : forall puf allow s x,
  allow 5 = true -> firstn 2 x = enc 2 5 ->
  let c := N.to_nat (be (slice x 2 2)) in
  (24 + c * 48 <= length x)%nat ->
  exists p, parse_one puf allow s x = StOk (PV5 p) (skipn (24 + c * 48) x) s
    /\ fields_at cisco_v5_header x 0 v5_header_layout (fx_header p)
    /\ get_field v5_header_layout (fx_header p) "version" = 5
    /\ length (fx_records p) = c
    /\ forall k r, nth_error (fx_records p) k = Some r ->
         fields_at cisco_v5_record x (24 + k * 48) v5_record_layout r
         /\ get_field v5_record_layout r "protocol_type"
            = proto_from_u8 (get_field v5_record_layout r "protocol_number").
Proof. exact v5_complete. Qed.
Print Assumptions C03_v5_complete.

Theorem C03_v7_complete : forall puf allow s x,
  allow 7 = true -> firstn 2 x = enc 2 7 ->
  let c := N.to_nat (be (slice x 2 2)) in
  (24 + c * 52 <= length x)%nat ->
  exists p, parse_one puf allow s x = StOk (PV7 p) (skipn (24 + c * 52) x) s
    /\ fields_at cisco_v7_header x 0 v7_header_layout (fx_header p)
    /\ get_field v7_header_layout (fx_header p) "version" = 7
    /\ length (fx_records p) = c
    /\ forall k r, nth_error (fx_records p) k = Some r ->
         fields_at cisco_v7_record x (24 + k * 52) v7_record_layout r
         /\ get_field v7_record_layout r "protocol_type"
            = proto_from_u8 (get_field v7_record_layout r "protocol_number").
Proof. exact v7_complete. Qed.
Print Assumptions C03_v7_complete.

(* A buffer shorter than its own count announces is an error carrying the whole buffer,
   never a packet; the parser state is untouched. *)
Theorem C03_v5_short : forall puf allow s x,
  allow 5 = true -> firstn 2 x = enc 2 5 ->
  (length x < 24 \/ length x < 24 + N.to_nat (be (slice x 2 2)) * 48)%nat ->
  exists k, parse_one puf allow s x = StErr (PErr (NPartial 5 (skipn 2 x) k) x) s /\ k <> EFuel.
Proof. exact v5_short. Qed.
Print Assumptions C03_v5_short.

Theorem C03_v7_short : forall puf allow s x,
  allow 7 = true -> firstn 2 x = enc 2 7 ->
  (length x < 24 \/ length x < 24 + N.to_nat (be (slice x 2 2)) * 52)%nat ->
  exists k, parse_one puf allow s x = StErr (PErr (NPartial 7 (skipn 2 x) k) x) s /\ k <> EFuel.
Proof. exact v7_short. Qed.
Print Assumptions C03_v7_short.

(* The protocol-name table, on all 256 numbers: outside the known-finding class {0,1,144} the
   name is the enum variant whose declared discriminant is the number (the enum is the IANA
   list; anchors below), 145..254 are Unknown, 255 is Unknown or Reserved. *)
Theorem C03_proto_names : forall n, n < 256 ->
  K_C03_proto n = false -> proto_name_ok n = true.
Proof. exact proto_names. Qed.
Print Assumptions C03_proto_names.

Theorem C03_proto_anchors :
  forallb (fun a => String.eqb (variant_name proto_variants (N.of_nat (fst a))) (snd a)) iana_anchors = true.
Proof. exact proto_anchors. Qed.
Print Assumptions C03_proto_anchors.

(* the full IANA list (Spec/Cisco.v, 145 numbers): the variant declared with discriminant n carries
   the IANA keyword of protocol number n, for every n in 0..144 *)
Theorem C03_proto_table :
  forallb (fun a => String.eqb (variant_name proto_variants (N.of_nat (fst a))) (snd a)) iana_protocols = true.
Proof. vm_compute. reflexivity. Qed.
Print Assumptions C03_proto_table.

(* the known finding is real: the three numbers do get the wrong name *)
Theorem C03_proto_refuted : forall n, K_C03_proto n = true -> proto_name_ok n = false.
Proof. exact proto_refuted. Qed.
Print Assumptions C03_proto_refuted.

From Coq Require Import Lia.

(* non-vacuity of C03_v5_complete / C03_v5_short: the crate's own test vector (count 1, 72 bytes)
   meets the hypotheses and decodes to one record; cut by one byte it meets those of C03_v5_short *)
Example C03_example :
  let x := [x00; x05; x00; x01; x03; x00; x04; x00; x05; x00; x06; x07; x08; x09; x00; x01; x02; x03; x04; x05; x06; x07; x08; x09; x00; x01; x02; x03; x04; x05; x06; x07; x08; x09; x00; x01; x02; x03; x04; x05; x06; x07; x08; x09; x00; x01; x02; x03; x04; x05; x06; x07; x08; x09; x00; x01; x02; x03; x04; x05; x06; x07; x08; x09; x00; x01; x02; x03; x04; x05; x06; x07] in
  allow_list default_allowed 5 = true /\ firstn 2 x = enc 2 5 /\ (24 + N.to_nat (be (slice x 2 2)) * 48 <= length x)%nat
  /\ (exists p, parse_one true (allow_list default_allowed) empty_state x = StOk (PV5 p) [] empty_state /\ length (fx_records p) = 1%nat)
  /\ (length (removelast x) < 24 + N.to_nat (be (slice (removelast x) 2 2)) * 48)%nat.
Proof. vm_compute. repeat split; try reflexivity; try lia. eexists. split; reflexivity. Qed.
