(* Props/C13.v — C13: the common-flow view is a faithful projection of what was decoded.
   Theorems only. *)
From NF Require Import Base Nom Types Layout Value V9 Ipfix Parser Export Common.
From NF Require Import MiscFacts.
From Coq Require Import Lia.
Open Scope string_scope.
Open Scope list_scope.

(* V5 / V7: version, sys_up_time, one flow per record in order; every numeric field present and
   equal to the record's own field, MACs absent *)
Theorem C13_fixed : forall HL RL p,
  common_fixed HL RL p =
  {| c_version := get_field HL (fx_header p) "version";
     c_ts := get_field HL (fx_header p) "sys_up_time";
     c_flows := map (common_fixed_flow RL) (fx_records p) |}
  /\ forall r, let f := common_fixed_flow RL r in
       c_src f = Some (Ip4 (get_field RL r "src_addr")) /\ c_dst f = Some (Ip4 (get_field RL r "dst_addr"))
       /\ c_sport f = Some (get_field RL r "src_port") /\ c_dport f = Some (get_field RL r "dst_port")
       /\ c_pnum f = Some (get_field RL r "protocol_number") /\ c_ptype f = Some (get_field RL r "protocol_type")
       /\ c_first f = Some (get_field RL r "first") /\ c_last f = Some (get_field RL r "last")
       /\ c_smac f = None /\ c_dmac f = None.
Proof. intros HL RL p. split; [reflexivity|]. intro r. cbn. repeat split. Qed.
Print Assumptions C13_fixed.

(* V9: one flow per decoded record of every data flowset, in order; IPFIX: per decoded map *)
Theorem C13_v9_flows : forall p,
  c_flows (common_v9 p) =
  flat_map (fun f => match fs_body f with V9Data recs _ => map v9_common_flow recs | _ => [] end) (v9_sets p)
  /\ c_version (common_v9 p) = get_field v9_header_layout (v9_header p) "version"
  /\ c_ts (common_v9 p) = get_field v9_header_layout (v9_header p) "sys_up_time".
Proof. intro p. repeat split. Qed.
Print Assumptions C13_v9_flows.

(* field selection: a field type is absent from the selection exactly when no value of the record
   has that type; when present it is one of the record's values of that type (the last) *)
Theorem C13_selection_absent : forall d rec,
  get_last d rec = None <-> Forall (fun tv : N * fval => fst tv <> d) rec.
Proof. exact get_last_none. Qed.
Print Assumptions C13_selection_absent.

Theorem C13_selection_present : forall d rec v, get_last d rec = Some v -> In (d, v) rec.
Proof. exact get_last_some. Qed.
Print Assumptions C13_selection_present.

(* IPv4 before IPv6; addresses, MACs come from values of the matching kind only *)
Theorem C13_addresses : forall vs pn pt up s4 s6 d4 d6 sp dp pr fi la sm dm rec,
  c_src (common_flow vs pn pt up s4 s6 d4 d6 sp dp pr fi la sm dm rec)
  = opt_bind (opt_or (get_last (vdisc vs s4) rec) (get_last (vdisc vs s6) rec)) fval_ip
  /\ c_smac (common_flow vs pn pt up s4 s6 d4 d6 sp dp pr fi la sm dm rec)
  = opt_bind (get_last (vdisc vs sm) rec) fval_string.
Proof. intros. split; reflexivity. Qed.
Print Assumptions C13_addresses.

(* V9: the protocol and the first/last-switched times are present whenever the record has the
   field (repair 39ac76d): a PROTOCOL value decoded as the protocol named d (any but Unknown,
   which does not keep its number) gives that protocol's number and name; a FIRST/LAST_SWITCHED
   value decoded as a duration gives its millisecond count whenever that fits 32 bits (always,
   for the 4-byte width RFC 3954 gives those fields) *)
Theorem C13_v9_protocol_and_times : forall rec d secs nanos,
  (get_last (vdisc v9_variants "Protocol") rec = Some (VProto d) -> d <> vdisc proto_variants "Unknown" ->
     c_pnum (v9_common_flow rec) = Some (proto_to_u8 d)
     /\ c_ptype (v9_common_flow rec) = Some d)
  /\ (get_last (vdisc v9_variants "FirstSwitched") rec = Some (VDur secs nanos) ->
      (secs * 1000 + nanos / 1000000 < 2 ^ 32)%N ->
      c_first (v9_common_flow rec) = Some (secs * 1000 + nanos / 1000000)%N)
  /\ (get_last (vdisc v9_variants "LastSwitched") rec = Some (VDur secs nanos) ->
      (secs * 1000 + nanos / 1000000 < 2 ^ 32)%N ->
      c_last (v9_common_flow rec) = Some (secs * 1000 + nanos / 1000000)%N).
Proof.
  intros rec d secs nanos. unfold v9_common_flow, common_flow. cbn [c_pnum c_ptype c_first c_last].
  split; [|split].
  - intros H Hd. rewrite H. cbn [opt_bind v9_pnum v9_ptype option_map].
    destruct (N.eqb_spec d (vdisc proto_variants "Unknown")); [contradiction|]. split; reflexivity.
  - intros H Hb. rewrite H. cbn [opt_bind v9_upt]. apply N.ltb_lt in Hb. cbv zeta. now rewrite Hb.
  - intros H Hb. rewrite H. cbn [opt_bind v9_upt]. apply N.ltb_lt in Hb. cbv zeta. now rewrite Hb.
Qed.
Print Assumptions C13_v9_protocol_and_times.

(* the 4-byte FIRST/LAST_SWITCHED of RFC 3954: decoded as milliseconds, the view returns the
   number that was on the wire *)
Theorem C13_v9_uptime_roundtrip : forall n, (n < 2 ^ 32)%N ->
  v9_upt (dur_of DDurMillis n) = Some n.
Proof.
  intros n Hn. unfold dur_of, v9_upt. cbv zeta.
  assert (E : (n / 1000 * 1000 + n mod 1000 * 1000000 / 1000000 = n)%N).
  { rewrite N.div_mul by lia. pose proof (N.div_mod n 1000 ltac:(lia)). lia. }
  rewrite E. apply N.ltb_lt in Hn. now rewrite Hn.
Qed.
Print Assumptions C13_v9_uptime_roundtrip.


(* errors convert to an error; the flat view is the in-order concatenation over the non-error
   packets of the buffer *)
Theorem C13_errors : forall e b, common_elem (PErr e b) = None.
Proof. reflexivity. Qed.
Print Assumptions C13_errors.

Theorem C13_flatten : forall r,
  common_flowsets r = flat_map (fun e => match common_elem e with Some c => c_flows c | None => [] end) r.
Proof. reflexivity. Qed.
Print Assumptions C13_flatten.

Theorem C13_flatten_app : forall a b, common_flowsets (a ++ b) = common_flowsets a ++ common_flowsets b.
Proof. intros a b. unfold common_flowsets. apply flat_map_app. Qed.
Print Assumptions C13_flatten_app.

(* ports, protocol and times sent with another width than the usual one (repair 555d804): an
   unsigned number of ANY width reaches the view whenever its value fits the common field *)
Theorem C13_any_width : forall rec d,
  let n := match d with U8 n | U16 n | U24 n | U32 n | U64 n | U128 n => n | I24 _ | I32 _ => 0 end in
  match d with I24 _ | I32 _ => False | _ => True end ->
  (get_last (vdisc v9_variants "L4SrcPort") rec = Some (VNum d) -> n < 2 ^ 16 -> c_sport (v9_common_flow rec) = Some n)
  /\ (get_last (vdisc v9_variants "L4DstPort") rec = Some (VNum d) -> n < 2 ^ 16 -> c_dport (v9_common_flow rec) = Some n)
  /\ (get_last (vdisc ipfix_variants "SourceTransportPort") rec = Some (VNum d) -> n < 2 ^ 16 -> c_sport (ipfix_common_flow rec) = Some n)
  /\ (get_last (vdisc ipfix_variants "ProtocolIdentifier") rec = Some (VNum d) -> n < 2 ^ 8 -> c_pnum (ipfix_common_flow rec) = Some n)
  /\ (get_last (vdisc v9_variants "FirstSwitched") rec = Some (VNum d) -> n < 2 ^ 32 -> c_first (v9_common_flow rec) = Some n).
Proof.
  intros rec d n Hd. unfold v9_common_flow, ipfix_common_flow, common_flow. cbn [c_sport c_dport c_pnum c_first].
  repeat split; intros H Hn; rewrite H; cbn [opt_bind v9_upt fval_un]; apply N.ltb_lt in Hn;
    destruct d; try contradiction; cbn [fval_un] in *; subst n; now rewrite Hn.
Qed.
Print Assumptions C13_any_width.

(* the fields the view projects are looked up by the library's NAME for them; these are the
   element numbers RFC 3954 (table 6) and the IANA IPFIX registry give those names, checked on the
   regenerated tables: number -> variant -> name, for both protocols *)
Definition v9_field_anchors : list (N * string) :=
  [(8, "Ipv4SrcAddr"); (12, "Ipv4DstAddr"); (27, "Ipv6SrcAddr"); (28, "Ipv6DstAddr"); (7, "L4SrcPort"); (11, "L4DstPort");
   (4, "Protocol"); (22, "FirstSwitched"); (21, "LastSwitched"); (56, "InSrcMac"); (80, "InDstMac")]%N.
Definition ipfix_field_anchors : list (N * string) :=
  [(8, "SourceIpv4address"); (12, "DestinationIpv4address"); (27, "SourceIpv6address"); (28, "DestinationIpv6address");
   (7, "SourceTransportPort"); (11, "DestinationTransportPort"); (4, "ProtocolIdentifier");
   (22, "FlowStartSysUpTime"); (21, "FlowEndSysUpTime"); (56, "SourceMacaddress"); (80, "DestinationMacaddress")]%N.

Theorem C13_field_anchors :
  forallb (fun a => String.eqb (variant_name v9_variants (v9_from_u16 (fst a))) (snd a)) v9_field_anchors = true
  /\ forallb (fun a => String.eqb (variant_name ipfix_variants (ipfix_from_u16 (fst a))) (snd a)) ipfix_field_anchors = true.
Proof. split; vm_compute; reflexivity. Qed.
Print Assumptions C13_field_anchors.

(* The full statement ("absent only when the record has no such field", "one flow per record")
   is FALSE of the faithful model: the known-finding classes, each with its witness.
   K_C13_v9_protocol (narrowed by repair 39ac76d to the protocol bytes, 145..254, that decode to
   Unknown): the record has the field, the view has no number; K_C13_v9_switched (narrowed to
   durations whose millisecond count exceeds 32 bits: an 8-byte FIRST_SWITCHED); K_C13_v9_width (narrowed by repair 555d804
   to values that do not fit the common field): a 4-byte port holding 70000 is absent; K_C13_ipfix_per_field: an IPFIX data set of one record with three
   fields gives three flows. *)
Theorem C13_refuted :
  (let rec := [(vdisc v9_variants "Protocol", VProto (vdisc proto_variants "Unknown"))] in
   get_last (vdisc v9_variants "Protocol") rec <> None /\ c_pnum (v9_common_flow rec) = None /\ c_ptype (v9_common_flow rec) = None)
  /\ (let rec := [(vdisc v9_variants "FirstSwitched", dur_of DDurMillis (2 ^ 40))] in
      get_last (vdisc v9_variants "FirstSwitched") rec <> None /\ c_first (v9_common_flow rec) = None)
  /\ (let rec := [(vdisc v9_variants "L4SrcPort", VNum (U32 70000))] in
      get_last (vdisc v9_variants "L4SrcPort") rec <> None /\ c_sport (v9_common_flow rec) = None)
  /\ (let p := {| ix_header := [10; 32; 0; 0; 0]%N;
                  ix_sets := [ {| is_id := 256; is_len := 16;
                                  is_body := IxData [ (0, vdisc ipfix_variants "SourceIpv4address", VIp4 167772161);
                                                      (1, vdisc ipfix_variants "DestinationIpv4address", VIp4 167772162);
                                                      (2, vdisc ipfix_variants "SourceTransportPort", VNum (U16 443)) ]%N [] |} ] |} in
      length (c_flows (common_ipfix p)) = 3%nat).
Proof. vm_compute. repeat split; discriminate. Qed.
Print Assumptions C13_refuted.

(* non-vacuity, end to end on the model: a V9 template with the seven projected fields and one
   record (10.0.0.1 -> 192.168.1.1, ports 443 -> 53, TCP, first 1000 ms, last 2000 ms) gives ONE
   common flow carrying all of them -- protocol and times included (repairs 39ac76d, 555d804) *)
Example C13_example :
  match parse_bytes true (allow_list default_allowed) empty_state ([x00; x09; x00; x01; x00; x00; x00; x01; x00; x00; x00; x02; x00; x00; x00; x03; x00; x00; x00; x04; x00; x00; x00; x24; x01; x00; x00; x07; x00; x08; x00; x04; x00; x0c; x00; x04; x00; x07; x00; x02; x00; x0b; x00; x02; x00; x04; x00; x01; x00; x16; x00; x04; x00; x15; x00; x04] ++ [x00; x09; x00; x01; x00; x00; xff; xff; x00; x00; x00; x02; x00; x00; x00; x04; x00; x00; x00; x04; x01; x00; x00; x1c; x0a; x00; x00; x01; xc0; xa8; x01; x01; x01; xbb; x00; x35; x06; x00; x00; x03; xe8; x00; x00; x07; xd0; x00; x00; x00]) with
  | Some [_; (e, _)] =>
      match common_elem e with
      | Some c => c_version c = 9 /\ c_ts c = 65535 /\
                  c_flows c = [ {| c_src := Some (Ip4 167772161); c_dst := Some (Ip4 3232235777);
                                   c_sport := Some 443; c_dport := Some 53;
                                   c_pnum := Some 6; c_ptype := Some (proto_from_u8 6);
                                   c_first := Some 1000; c_last := Some 2000;
                                   c_smac := None; c_dmac := None |} ]
      | None => False
      end
  | _ => False
  end.
Proof. vm_compute. repeat split; reflexivity. Qed.
