(* Props/C14.v — C14: a truncated packet is reported as an error, never as a shorter valid one.
   Theorems only. *)
From NF Require Import Base Nom Types Layout Value V9 Ipfix Parser.
From NF Require Import LayoutFacts C03Proofs C03Inst C14Proofs RunFacts CutFacts CutAnyFacts VarFacts.
Open Scope list_scope.

(* V5 / V7: fewer bytes than 24 + 48*count (52*count): one Error whose remaining is the buffer,
   parser state untouched — for every content, state and allowed set containing the version. *)
Theorem C14_v5 : forall puf allow s x,
  allow 5 = true -> firstn 2 x = enc 2 5 ->
  (length x < 24 \/ length x < 24 + N.to_nat (be (slice x 2 2)) * 48)%nat ->
  exists k, parse_one puf allow s x = StErr (PErr (NPartial 5 (skipn 2 x) k) x) s /\ k <> EFuel.
Proof. exact v5_short. Qed.
Print Assumptions C14_v5.

Theorem C14_v7 : forall puf allow s x,
  allow 7 = true -> firstn 2 x = enc 2 7 ->
  (length x < 24 \/ length x < 24 + N.to_nat (be (slice x 2 2)) * 52)%nat ->
  exists k, parse_one puf allow s x = StErr (PErr (NPartial 7 (skipn 2 x) k) x) s /\ k <> EFuel.
Proof. exact v7_short. Qed.
Print Assumptions C14_v7.

(* IPFIX: fewer bytes than the message length announces (or than a header): same, and no set of
   the message is interpreted, so the caches are untouched. *)
Theorem C14_ipfix : forall puf allow s x,
  allow 10 = true -> firstn 2 x = enc 2 10 ->
  (length x < 16 \/ length x < N.to_nat (be (slice x 2 2)))%nat ->
  exists k, parse_one puf allow s x = StErr (PErr (NPartial 10 (skipn 2 x) k) x) s /\ k <> EFuel.
Proof. exact ipfix_short. Qed.
Print Assumptions C14_ipfix.

(* V9: a flowset cut before the end its length field announces fails (and with it the packet:
   parse_flowsets propagates the error); the state is the one the earlier flowsets left. *)
Theorem C14_v9_flowset : forall puf s i,
  i <> [] ->
  (length i < 4 \/ length i < 4 + N.to_nat (be (slice i 2 2) - 4))%nat ->
  exists e, parse_flowset puf s i = (Err e, s) /\ e <> EFuel.
Proof. exact v9_flowset_short. Qed.
Print Assumptions C14_v9_flowset.

(* V9, whole packet: a packet that parse_bytes accepts (ending its buffer), cut strictly inside
   at any point that is not a flowset boundary (20, 20 + first flowset, ...): one Error whose
   remaining is the truncated packet *)
Theorem C14_v9_packet : forall puf allow s x p s' c,
  parse_one puf allow s x = StOk (PV9 p) [] s' ->
  (0 < c < length x)%nat -> ~ In c (boundaries (v9_sets p) 20) ->
  exists err s'', parse_one puf allow s (firstn c x) = StErr (PErr err (firstn c x)) s''.
Proof. exact v9_step_cut. Qed.
Print Assumptions C14_v9_packet.

(* V5, V7, IPFIX, whole packet: a packet / message that parse_bytes accepts (ending its buffer),
   cut at ANY point strictly inside: one Error whose remaining is the truncated packet, and the
   parser state (all four caches) is exactly what it was -- in particular no template set of a
   truncated IPFIX message is learned.  Derived from the accepted result alone: no hypothesis on
   the bytes. *)
Theorem C14_packet_cut : forall puf allow s x e s' c,
  parse_one puf allow s x = StOk e [] s' -> (forall p, e <> PV9 p) ->
  (0 < c < length x)%nat ->
  exists err, parse_one puf allow s (firstn c x) = StErr (PErr err (firstn c x)) s.
Proof. exact fixed_or_ipfix_cut. Qed.
Print Assumptions C14_packet_cut.

(* the same through parse_bytes: the result of the truncated buffer is that one Error *)
Theorem C14_buffer_cut : forall puf allow s x e s' c,
  parse_one puf allow s x = StOk e [] s' -> (forall p, e <> PV9 p) ->
  (0 < c < length x)%nat ->
  exists err, parse_bytes puf allow s (firstn c x) = Some [(PErr err (firstn c x), s)].
Proof. exact fixed_or_ipfix_cut_bytes. Qed.
Print Assumptions C14_buffer_cut.

(* packets before the truncated one are reported unchanged: the error element of the tail is
   appended to their results (instance of C11's concatenation theorem) *)
Theorem C14_after_prefix : forall puf allow s a b ra rb,
  parse_bytes puf allow s a = Some ra -> clean ra -> total_wire (map fst ra) = length a ->
  parse_bytes puf allow (final_state s ra) b = Some rb ->
  parse_bytes puf allow s (a ++ b) = Some (ra ++ rb).
Proof. exact parse_bytes_concat. Qed.
Print Assumptions C14_after_prefix.

From Coq Require Import Lia.

(* non-vacuity: the crate's V5 test vector cut one byte short meets the hypotheses of C14_v5 and
   is one Error carrying the truncated packet; preceded by a complete packet, that packet is
   still reported and the Error carries only the truncated one *)
Example C14_example :
  let x := [x00; x05; x00; x01; x03; x00; x04; x00; x05; x00; x06; x07; x08; x09; x00; x01; x02; x03; x04; x05; x06; x07; x08; x09; x00; x01; x02; x03; x04; x05; x06; x07; x08; x09; x00; x01; x02; x03; x04; x05; x06; x07; x08; x09; x00; x01; x02; x03; x04; x05; x06; x07; x08; x09; x00; x01; x02; x03; x04; x05; x06; x07; x08; x09; x00; x01; x02; x03; x04; x05; x06; x07] in
  let cutx := removelast x in
  allow_list default_allowed 5 = true /\ firstn 2 cutx = enc 2 5
  /\ (length cutx < 24 + N.to_nat (be (slice cutx 2 2)) * 48)%nat
  /\ (match parse_bytes true (allow_list default_allowed) empty_state cutx with
      | Some [(PErr (NPartial 5 _ _) rem, s)] => rem = cutx /\ s = empty_state
      | _ => False end)
  /\ (match parse_bytes true (allow_list default_allowed) empty_state (x ++ cutx) with
      | Some [(PV5 _, _); (PErr (NPartial 5 _ _) rem, _)] => rem = cutx
      | _ => False end).
Proof. vm_compute. repeat split; try reflexivity; lia. Qed.

(* non-vacuity of C14_packet_cut / C14_buffer_cut: an IPFIX message carrying a template set is
   accepted and the template learned; cut at each of the 27 points strictly inside, the result is
   one Error carrying the truncated bytes and the parser is still in the empty state (the template
   set before the cut was not learned) *)
Example C14_cut_example :
  let x := [x00; x0a; x00; x1c; x00; x00; x00; x01; x00; x00; x00; x02; x00; x00; x00; x03;
            x00; x02; x00; x0c; x01; x00; x00; x01; x00; x07; x00; x02] in
  (match parse_one true (allow_list default_allowed) empty_state x with
   | StOk (PIx _) [] s' => lookup 256 (ix_t (stx s')) <> None
   | _ => False end)
  /\ forallb (fun c => match parse_bytes true (allow_list default_allowed) empty_state (firstn c x) with
                       | Some [(PErr _ rem, s)] =>
                           andb (N.eqb (N.of_nat (length rem)) (N.of_nat c))
                                (match lookup 256 (ix_t (stx s)) with None => true | Some _ => false end)
                       | _ => false end) (seq 1 27) = true.
Proof. vm_compute. split; [discriminate|reflexivity]. Qed.
