(* Props/C07.v — C07: data for an unknown template is never turned into flow records.
   Theorems only. *)
From NF Require Import Base Nom Types Layout Value V9 Ipfix Parser.
From NF Require Import BaseFacts CacheFacts.
Open Scope list_scope.

(* V9: a flowset whose id is neither 0 nor 1 and has no template in either V9 map fails
   (whatever its bytes), leaving the state as it was; parse_flowsets propagates the failure, so
   the packet is an error and the state is the one the flowsets before it left *)
Theorem C07_v9_flowset : forall puf s i id len r r2,
  u_s 2 i = Ok id r -> u_s 2 r = Ok len r2 ->
  id <> v9_template_id -> id <> v9_options_template_id ->
  lookup id (v9_o s) = None -> lookup id (v9_t s) = None ->
  parse_flowset puf s i = (Err EError, s).
Proof. exact parse_flowset_unknown. Qed.
Print Assumptions C07_v9_flowset.

Theorem C07_v9_packet_fails : forall puf n s i e s',
  i <> [] -> parse_flowset puf s i = (Err e, s') -> parse_flowsets puf (S n) s i = (Err e, s').
Proof.
  intros puf n s i e s' Hne H. cbn [parse_flowsets]. destruct i; [contradiction|]. cbn [is_nil]. now rewrite H.
Qed.
Print Assumptions C07_v9_packet_fails.

(* IPFIX: a set whose id is >= 255 and has no template in either IPFIX map fails, state
   untouched; the set loop of the message stops there successfully, so the message is reported
   with the sets before it only *)
Theorem C07_ipfix_set : forall puf s i id len r r2,
  u_s 2 i = Ok id r -> u_s 2 r = Ok len r2 ->
  (ipfix_set_min_range <= id)%N ->
  lookup id (ix_t s) = None -> lookup id (ix_o s) = None ->
  parse_iset puf s i = (Err EError, s).
Proof. exact parse_iset_unknown. Qed.
Print Assumptions C07_ipfix_set.

Theorem C07_ipfix_loop_stops : forall puf fuel s i,
  parse_iset puf s i = (Err EError, s) ->
  many0_st_aux (S fuel) (complete_st (parse_iset puf)) s i = (Ok [] i, s).
Proof.
  intros puf fuel s i H. apply many0_st_stop. unfold complete_st. now rewrite H.
Qed.
Print Assumptions C07_ipfix_loop_stops.

(* the other protocol's caches are never consulted: the V9 step is a function of the V9 state
   only and vice versa (by the types of parse_v9 / parse_ipfix); and an unknown id stays unknown
   until a template of that id is inserted *)
Theorem C07_unknown_until_defined : forall (V : Type) k (v : V) m id,
  lookup id m = None -> id <> k -> lookup id (insert k v m) = None.
Proof. intros V k v m id H Hne. now rewrite lookup_insert_neq. Qed.
Print Assumptions C07_unknown_until_defined.

(* ---- packet level (imports kept local) ---- *)
From NF Require Import UnknownFacts.

(* V9, the whole packet: if after n flowsets that decode (leaving the caches s1: their templates
   are learned) the next flowset is data for an id in neither map of s1, then the packet -- whatever
   follows in it -- is reported as ONE Error element whose remaining bytes are the buffer from
   this packet on, no record of it is reported, and the caches are exactly s1: the offending
   flowset and everything after it change nothing. *)
Theorem C07_v9_packet : forall puf allow s x h r0 n m l r s1 id len r1 r2,
  allow 9%N = true -> firstn 2 x = enc 2 9 ->
  parse_layout v9_header_layout (skipn 2 x) = Ok h r0 ->
  N.to_nat (get_field v9_header_layout h "count") = (n + S m)%nat ->
  parse_flowsets puf n (st9 s) r0 = (Ok l r, s1) ->
  u_s 2 r = Ok id r1 -> u_s 2 r1 = Ok len r2 ->
  id <> v9_template_id -> id <> v9_options_template_id ->
  lookup id (v9_o s1) = None -> lookup id (v9_t s1) = None ->
  parse_one puf allow s x = StErr (PErr (NPartial 9 (skipn 2 x) EError) x) {| st9 := s1; stx := stx s |}.
Proof. exact parse_one_v9_unknown. Qed.
Print Assumptions C07_v9_packet.

From NF Require Import Interp IxStream IxStreamFacts LayoutFacts.

(* IPFIX, the whole message: any list of conformant sets (Spec/IxStream.v), then a data set for an
   id that is in neither IPFIX map after those sets, then anything up to the message length: the
   message is reported with exactly the sets before the offending one, the caches are what those
   sets made them, and the bytes after the message are the rest -- the unknown set and everything
   behind it inside the message are omitted, silently *)
Theorem C07_ipfix_message : forall puf s h l xs s' tail rest id len r1 r2,
  wf_vals ipfix_header_layout [] h ->
  get_field ipfix_header_layout h "length" = (16 + lenN (enc_isets s l ++ tail))%N ->
  conformant_isets puf s l -> expect_isets s l = Some (xs, s') ->
  u_s 2 tail = Ok id r1 -> u_s 2 r1 = Ok len r2 -> (ipfix_set_min_range <= id)%N ->
  lookup id (ix_t s') = None -> lookup id (ix_o s') = None ->
  parse_ipfix puf s (wire_bytes ipfix_header_layout h ++ (enc_isets s l ++ tail) ++ rest)
  = (Ok {| ix_header := h; ix_sets := xs |} rest, s').
Proof. exact decode_message_unknown. Qed.
Print Assumptions C07_ipfix_message.

From Coq Require Import Lia.

(* non-vacuity, and the property at call level on concrete input: data for an id the parser has
   no template for -- V9: the packet is one Error, caches unchanged; IPFIX: the message is
   reported without the set, caches unchanged; after the template arrives the same V9 data
   bytes decode *)
Example C07_example :
  let tmpl := [x00; x09; x00; x01; x00; x00; x00; x01; x00; x00; x00; x02; x00; x00; x00; x03; x00; x00; x00; x04; x00; x00; x00; x0c; x01; x00; x00; x01; x00; x08; x00; x04] in
  let data := [x00; x09; x00; x01; x00; x00; x00; x01; x00; x00; x00; x02; x00; x00; x00; x05; x00; x00; x00; x04; x01; x00; x00; x08; x01; xbb; x00; x35] in
  let ixu := [x00; x0a; x00; x18; x00; x00; x00; x01; x00; x00; x00; x02; x00; x00; x00; x03; x01; x01; x00; x08; x01; xbb; x00; x35] in
  (match parse_bytes true (allow_list default_allowed) empty_state data with
   | Some [(PErr (NPartial 9 _ _) rem, s)] => rem = data /\ s = empty_state
   | _ => False end)
  /\ (match parse_bytes true (allow_list default_allowed) empty_state ixu with
      | Some [(PIx p, s)] => ix_sets p = [] /\ s = empty_state
      | _ => False end)
  /\ (match parse_bytes true (allow_list default_allowed) empty_state (tmpl ++ data) with
      | Some [(PV9 _, _); (PV9 p, _)] => exists recs, v9_sets p = [ {| fs_id := 256; fs_len := 8; fs_body := V9Data recs [] |} ] /\ length recs = 1%nat
      | _ => False end).
Proof. vm_compute. repeat split; try reflexivity. eexists. split; reflexivity. Qed.
