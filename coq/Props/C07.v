(* Props/C07.v — C07: data for an unknown template is never turned into flow records.
   Theorems only. *)
From NF Require Import Base Nom Types Layout Value V9 Ipfix Parser.
From NF Require Import BaseFacts CacheFacts.
Open Scope list_scope.

(* V9: a flowset whose id is neither 0 nor 1 and has no template in either V9 map fails
   (whatever its bytes), leaving the state as it was; parse_flowsets propagates the failure, so
   the packet is an error and the state is the one the flowsets before it left *)
Theorem C07_v9_flowset : forall puf s i id len r r2,
  u_s 2 i = Ok id r -> u_s 2 r = Ok len r2 ->
  id <> v9_template_id -> id <> v9_options_template_id ->
  lookup id (v9_o s) = None -> lookup id (v9_t s) = None ->
  parse_flowset puf s i = (Err EError, s).
Proof. exact parse_flowset_unknown. Qed.
Print Assumptions C07_v9_flowset.

Theorem C07_v9_packet_fails : forall puf n s i e s',
  i <> [] -> parse_flowset puf s i = (Err e, s') -> parse_flowsets puf (S n) s i = (Err e, s').
Proof.
  intros puf n s i e s' Hne H. cbn [parse_flowsets]. destruct i; [contradiction|]. cbn [is_nil]. now rewrite H.
Qed.
Print Assumptions C07_v9_packet_fails.

(* IPFIX: a set whose id is >= 255 and has no template in either IPFIX map fails, state
   untouched; the set loop of the message stops there successfully, so the message is reported
   with the sets before it only *)
Theorem C07_ipfix_set : forall puf s i id len r r2,
  u_s 2 i = Ok id r -> u_s 2 r = Ok len r2 ->
  (ipfix_set_min_range <= id)%N ->
  lookup id (ix_t s) = None -> lookup id (ix_o s) = None ->
  parse_iset puf s i = (Err EError, s).
Proof. exact parse_iset_unknown. Qed.
Print Assumptions C07_ipfix_set.

Theorem C07_ipfix_loop_stops : forall puf fuel s i,
  parse_iset puf s i = (Err EError, s) ->
  many0_st_aux (S fuel) (complete_st (parse_iset puf)) s i = (Ok [] i, s).
Proof.
  intros puf fuel s i H. apply many0_st_stop. unfold complete_st. now rewrite H.
Qed.
Print Assumptions C07_ipfix_loop_stops.

(* the other protocol's caches are never consulted: the V9 step is a function of the V9 state
   only and vice versa (by the types of parse_v9 / parse_ipfix); and an unknown id stays unknown
   until a template of that id is inserted *)
Theorem C07_unknown_until_defined : forall (V : Type) k (v : V) m id,
  lookup id m = None -> id <> k -> lookup id (insert k v m) = None.
Proof. intros V k v m id H Hne. now rewrite lookup_insert_neq. Qed.
Print Assumptions C07_unknown_until_defined.
