(* Props/C16.v — C16: every parse result serializes to JSON, deterministically and faithfully.
   Theorems only.  The model's serde shape (Model/Json.v: json_elem) is a total function of the
   result, so serialization cannot fail and equal results give equal trees and equal text; the
   text itself (serde_json's printer) is compared, not modelled (DESIGN.md 11). *)
From NF Require Import Base Nom Types Layout Value V9 Ipfix Parser Export Common Json.
From NF Require Import MiscFacts RunFacts.
Open Scope string_scope.
Open Scope list_scope.

(* determinism: the text is a function of (state, allowed set, bytes): two parsers fed the same
   history, or the same result serialized twice, give identical text *)
Theorem C16_deterministic : forall puf allow s x r1 r2,
  parse_bytes puf allow s x = Some r1 -> parse_bytes puf allow s x = Some r2 ->
  map (fun es => print_json (json_elem (fst es))) r1 = map (fun es => print_json (json_elem (fst es))) r2.
Proof. intros puf allow s x r1 r2 H1 H2. rewrite H1 in H2. inversion H2. reflexivity. Qed.
Print Assumptions C16_deterministic.

(* records list their fields in template order: member j of a record object is keyed by the
   decimal index j and holds [field name, value] of the j-th decoded field *)
Theorem C16_record_order : forall vs rec j,
  nth_error (json_record vs 0 rec) j =
  option_map (fun tv : N * fval => (dec_string (N.of_nat j), JArr [JStr (variant_name vs (fst tv)); json_fval (snd tv)]))
             (nth_error rec j).
Proof. intros vs rec j. rewrite json_record_nth. reflexivity. Qed.
Print Assumptions C16_record_order.

Theorem C16_record_complete : forall vs rec, length (json_record vs 0 rec) = length rec.
Proof. intros vs rec. apply json_record_length. Qed.
Print Assumptions C16_record_complete.

(* values are carried by kind: the tag names the kind, numbers (up to 128 bits, signed where the
   decoder made them signed) are printed as JSON integers, never as floats or strings *)
Theorem C16_numbers : forall d, exists z, json_dnum d = JNum z /\
  match d with U8 n | U16 n | U24 n | U32 n | U64 n | U128 n => z = Z.of_N n | I24 y | I32 y => z = y end.
Proof. intro d. destruct d; eexists; split; reflexivity. Qed.
Print Assumptions C16_numbers.

Theorem C16_value_tags : forall v,
  match v, json_fval v with
  | VStr _, JObj [("String", JText _)] | VNum _, JObj [("DataNumber", _)] | VF64 _, JObj [("Float64", JF64 _)]
  | VDur _ _, JObj [("Duration", JObj [("secs", _); ("nanos", _)])] | VIp4 _, JObj [("Ip4Addr", JIp4 _)]
  | VIp6 _, JObj [("Ip6Addr", JIp6 _)] | VMac _, JObj [("MacAddr", JText _)] | VVec _, JObj [("Vec", JArr _)]
  | VProto _, JObj [("ProtocolType", JStr _)] => True
  | _, _ => False
  end.
Proof. intro v. destruct v; cbn; exact I. Qed.
Print Assumptions C16_value_tags.

(* error elements carry their bytes as arrays of numbers: arbitrary remaining bytes cannot break
   the text *)
Theorem C16_error_bytes : forall e b,
  json_elem (PErr e b) = JObj [("Error", JObj [("error", json_nferr e); ("remaining", jbytes b)])].
Proof. reflexivity. Qed.
Print Assumptions C16_error_bytes.
