(* Props/C16.v — C16: every parse result serializes to JSON, deterministically and faithfully.
   Theorems only.  The model's serde shape (Model/Json.v: json_elem) is a total function of the
   result, so serialization cannot fail and equal results give equal trees and equal text; the
   text itself (serde_json's printer) is compared, not modelled (DESIGN.md 11). *)
From NF Require Import Base Nom Types Layout Value V9 Ipfix Parser Export Common Json.
From NF Require Import MiscFacts RunFacts JsonRead JsonFacts.
Open Scope string_scope.
Open Scope list_scope.

(* determinism: the text is a function of (state, allowed set, bytes): two parsers fed the same
   history, or the same result serialized twice, give identical text *)
Theorem C16_deterministic : forall puf allow s x r1 r2,
  parse_bytes puf allow s x = Some r1 -> parse_bytes puf allow s x = Some r2 ->
  map (fun es => print_json (json_elem (fst es))) r1 = map (fun es => print_json (json_elem (fst es))) r2.
Proof. intros puf allow s x r1 r2 H1 H2. rewrite H1 in H2. inversion H2. reflexivity. Qed.
Print Assumptions C16_deterministic.

(* records list their fields in template order: member j of a record object is keyed by the
   decimal index j and holds [field name, value] of the j-th decoded field *)
Theorem C16_record_order : forall vs rec j,
  nth_error (json_record vs 0 rec) j =
  option_map (fun tv : N * fval => (dec_string (N.of_nat j), JArr [JStr (variant_name vs (fst tv)); json_fval (snd tv)]))
             (nth_error rec j).
Proof. intros vs rec j. rewrite json_record_nth. reflexivity. Qed.
Print Assumptions C16_record_order.

Theorem C16_record_complete : forall vs rec, length (json_record vs 0 rec) = length rec.
Proof. intros vs rec. apply json_record_length. Qed.
Print Assumptions C16_record_complete.

(* values are carried by kind: the tag names the kind, numbers (up to 128 bits, signed where the
   decoder made them signed) are printed as JSON integers, never as floats or strings *)
Theorem C16_numbers : forall d, exists z, json_dnum d = JNum z /\
  match d with U8 n | U16 n | U24 n | U32 n | U64 n | U128 n => z = Z.of_N n | I24 y | I32 y => z = y end.
Proof. intro d. destruct d; eexists; split; reflexivity. Qed.
Print Assumptions C16_numbers.

Theorem C16_value_tags : forall v,
  match v, json_fval v with
  | VStr _, JObj [("String", JText _)] | VNum _, JObj [("DataNumber", _)] | VF64 _, JObj [("Float64", JF64 _)]
  | VDur _ _, JObj [("Duration", JObj [("secs", _); ("nanos", _)])] | VIp4 _, JObj [("Ip4Addr", JIp4 _)]
  | VIp6 _, JObj [("Ip6Addr", JIp6 _)] | VMac _, JObj [("MacAddr", JText _)] | VVec _, JObj [("Vec", JArr _)]
  | VProto _, JObj [("ProtocolType", JStr _)] => True
  | _, _ => False
  end.
Proof. intro v. destruct v; cbn; exact I. Qed.
Print Assumptions C16_value_tags.

(* error elements carry their bytes as arrays of numbers: arbitrary remaining bytes cannot break
   the text *)
Theorem C16_error_bytes : forall e b,
  json_elem (PErr e b) = JObj [("Error", JObj [("error", json_nferr e); ("remaining", jbytes b)])].
Proof. reflexivity. Qed.
Print Assumptions C16_error_bytes.

(* well-formed text: the printed text of every result element is accepted by the JSON reader of
   Model/JsonRead.v (a grammar-directed reader: literals, integers, strings with the escapes the
   printer uses, arrays, objects), which consumes ALL of it and returns the tree back -- names as
   strings, marker leaves as one-member objects.  So the text is well formed, and it determines
   the tree: two results with equal text have equal (plain) trees. *)
Theorem C16_wellformed : forall puf allow s x r es,
  parse_bytes puf allow s x = Some r -> In es r ->
  read_json (print_json (json_elem (fst es))) = Some (plain (json_elem (fst es))).
Proof. intros puf allow s x r es _ _. apply read_print. Qed.
Print Assumptions C16_wellformed.

Theorem C16_text_faithful : forall j1 j2, print_json j1 = print_json j2 -> plain j1 = plain j2.
Proof.
  intros j1 j2 H. pose proof (read_print j1) as H1. pose proof (read_print j2) as H2.
  rewrite H in H1. rewrite H1 in H2. now inversion H2.
Qed.
Print Assumptions C16_text_faithful.

(* the reader is not vacuous: it rejects text that is not JSON *)
Example C16_reader_rejects :
  read_json (str_bytes "{""a"":1,}") = None /\ read_json (str_bytes "[1 2]") = None /\
  read_json (str_bytes "{""a"":1}x") = None /\ read_json (str_bytes """abc") = None /\
  read_json (str_bytes "{""a"":[1,{""b"":null}],""c"":""x\\u0001""}") <> None.
Proof. vm_compute. repeat split; discriminate. Qed.
