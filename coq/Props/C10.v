(* Props/C10.v — C10: re-exporting a decoded IPFIX message reproduces the bytes it came from.
   Theorems only; same shape as C09 (the value-level predicate exact_dtype is shared). *)
From NF Require Import Base Nom Types Layout Value Ipfix Parser Export.
From NF Require Import ReexportFacts ExportFacts VarFacts RunFacts TotalFacts PacketFacts IxPacketFacts.
Open Scope list_scope.

Theorem C10_value : forall puf dt len i v r,
  from_field_type puf dt len i = Ok v r ->
  exists pre, i = pre ++ r /\ (exact_dtype dt len pre = true -> fval_to_be v = XOk pre).
Proof. exact reexport_value. Qed.
Print Assumptions C10_value.

(* a field specifier comes back with its enterprise bit and enterprise number *)
Theorem C10_field_specifier : forall i f r, parse_ifield i = Ok f r -> i = export_ifield f ++ r.
Proof. exact ifield_print. Qed.
Print Assumptions C10_field_specifier.

(* template and options-template sets re-export exactly for EVERY accepted body (a set with
   several template records is merged at decode, but every specifier is stored and re-emitted) *)
Theorem C10_template_set : forall body t r,
  parse_itemplate body = Ok t r -> export_ix_body (IxTemplate t) = XOk body.
Proof. exact itemplate_body_exact. Qed.
Print Assumptions C10_template_set.

Theorem C10_options_template_set : forall body t r,
  parse_iotemplate body = Ok t r -> export_ix_body (IxOTemplate t) = XOk body.
Proof. exact iotemplate_body_exact. Qed.
Print Assumptions C10_options_template_set.

(* the message occupies max(length,16) bytes whatever its sets were (the class "sets dropped":
   when the set loop stops early the stored sets are fewer than that) *)
Theorem C10_message_envelope : forall puf s i p r s',
  parse_ipfix puf s i = (Ok p r, s') -> exists pre, i = pre ++ r /\ (2 + length pre = ix_wire p)%nat.
Proof. exact parse_ipfix_consumes. Qed.
Print Assumptions C10_message_envelope.

(* one pass over a template consumes exactly what it reports; fixed-length fields therefore
   re-export in place when each value is exact *)
Theorem C10_record_consumes : forall puf fs c i ents taken vt r,
  parse_irecord puf fs c i = Ok (ents, (taken, vt)) r ->
  exists pre, i = pre ++ r /\ N.of_nat (length pre) = taken /\ ientries_ok ents.
Proof. intros puf fs. exact (parse_irecord_ok puf fs). Qed.
Print Assumptions C10_record_consumes.

(* a whole data set: under a template without variable-length fields, when every decoded value is
   of a lossless kind, values followed by the stored padding are exactly the set body *)
Theorem C10_data_set_roundtrip : forall puf fs body ents pad r,
  parse_idata puf fs body = Ok (ents, pad) r ->
  existsb is_varlen fs = false -> forallb ient_lossless ents = true ->
  export_ix_body (IxData ents pad) = XOk body.
Proof. exact parse_idata_reexport. Qed.
Print Assumptions C10_data_set_roundtrip.

(* THE ROUND TRIP, whole message: every IPFIX message parse_bytes reports (any state, allowed
   set, mix of template / options-template / data / options-data sets, padding, templates cached
   earlier) re-exports to EXACTLY the bytes it occupied, provided (ix_lossless, decidable on the
   reported message and the caches it met) its data sets are governed by templates without
   variable-length fields, their values are of the lossless kinds, and the reported sets fill the
   message length (no set was dropped).  The three excluded situations are the classes
   K_C10_varlen_prefix, K_C10_{duration,mac,string_lossy,proto_unknown,signed_widened} and
   K_C10_sets_dropped. *)
Theorem C10_message_roundtrip : forall puf allow s x p rest s',
  parse_one puf allow s x = StOk (PIx p) rest s' -> ix_lossless (stx s) p = true ->
  exists pre, x = pre ++ rest /\ export_ipfix p = XOk pre.
Proof. exact ix_step_reexport. Qed.
Print Assumptions C10_message_roundtrip.

(* non-vacuity: a message with a template set, an options template set and a data set for the
   template just defined (two records, two padding bytes) is reported, is ix_lossless from the
   empty cache, and re-exports to itself *)
Example C10_message_example :
  let msg := [x00; x0a; x00; x40; x00; x00; x00; x01; x00; x00; x00; x02; x00; x00; x00; x03; x00; x02; x00; x10; x01; x00; x00; x02; x00; x08; x00; x04; x00; x07; x00; x02; x00; x03; x00; x0e; x01; x01; x00; x01; x00; x01; x00; x04; x00; x01; x01; x00; x00; x12; x0a; x00; x00; x01; x01; xbb; xc0; xa8; x01; x01; x00; x35; x00; x00] in
  match parse_one true (allow_list default_allowed) empty_state msg with
  | StOk (PIx p) [] _ => ix_lossless ix_empty p = true /\ export_ipfix p = XOk msg /\ length (ix_sets p) = 3%nat
  | _ => False
  end.
Proof. vm_compute. repeat split; reflexivity. Qed.

Theorem C10_no_panic : forall puf allow s x r,
  parse_bytes puf allow s x = Some r -> Forall (fun es => export_elem (fst es) <> Some XPanic) r.
Proof.
  intros puf allow s x r H. pose proof (run_elems_ok puf allow _ s x r H) as Hok.
  eapply Forall_impl; [|exact Hok]. intros es He. now apply export_elem_no_panic.
Qed.
Print Assumptions C10_no_panic.

Theorem C10_refuted :
  reexports_exactly true DSigned 1 [xff] = false /\
  reexports_exactly true DDurMillis 4 [x00; x00; x00; x64] = false /\
  reexports_exactly true DMac 6 [x00; x1b; x44; x11; x3a; xb7] = false.
Proof. repeat split; vm_compute; reflexivity. Qed.
Print Assumptions C10_refuted.

(* ---- buffer level (imports kept local) ---- *)
From NF Require Import RunFacts RoundtripFacts.

(* THE ROUND TRIP over a whole buffer: whatever parse_bytes reports for a buffer -- any mix of
   V5, V7, V9 and IPFIX packets, any state, any allowed set -- if every reported element is of the
   lossless kind (V5/V7 always; V9: v9_lossless; IPFIX: ix_lossless for the caches the message
   met; no error element), then the concatenation of the elements' to_be_bytes is exactly the
   prefix of the buffer they occupied: buffer = that concatenation ++ the unconsumed rest. *)
Theorem C10_buffer_roundtrip : forall puf allow s x r,
  parse_bytes puf allow s x = Some r -> lossless_run s r = true ->
  exists pre rest, x = pre ++ rest /\ export_run r = XOk pre /\ length pre = total_wire (map fst r).
Proof. intros puf allow s x r. unfold parse_bytes. apply run_reexport. Qed.
Print Assumptions C10_buffer_roundtrip.
