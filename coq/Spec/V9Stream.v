(* Spec/V9Stream.v — an RFC 3954 export packet as an exporter builds it, and what a collector
   must report for it.  Written as an ENCODER plus the expected decode (no second hand-written
   parser): a packet is a header and a list of flowsets; a flowset is a list of template records
   or the data records of one template followed by padding. *)
From NF Require Import Base Types Layout Value V9 Interp.
Open Scope list_scope.
Open Scope N_scope.

Inductive fs_spec :=
| FTemplates (ts : list template)
| FData (id : N) (recs : list (list bytes)) (pad : bytes)
| FOTemplates (ts : list otemplate) (pad : bytes)
| FOData (id : N) (scope : list bytes) (opts : list bytes) (pad : bytes).   (* one options record *)

Definition enc_tfield (f : tfield) : bytes := enc 2 (tf_num f) ++ enc 2 (tf_len f).
Definition enc_template (t : template) : bytes :=
  enc 2 (t_id t) ++ enc 2 (t_count t) ++ flat_map enc_tfield (t_fields t).

Definition enc_sfield (f : sfield) : bytes := enc 2 (sf_num f) ++ enc 2 (sf_len f).
(* Option Scope Length and Option Length are in bytes: four per field specifier (RFC 3954 6.1) *)
Definition enc_otemplate (t : otemplate) : bytes :=
  enc 2 (ot_id t) ++ enc 2 (ot_scope_len t) ++ enc 2 (ot_opt_len t)
  ++ flat_map enc_sfield (ot_scope t) ++ flat_map enc_tfield (ot_opts t).

Definition fs_body_bytes (f : fs_spec) : bytes :=
  match f with
  | FTemplates ts => flat_map enc_template ts
  | FData _ recs pad => List.concat (map (@List.concat byte) recs) ++ pad
  | FOTemplates ts pad => flat_map enc_otemplate ts ++ pad
  | FOData _ scope opts pad => List.concat scope ++ List.concat opts ++ pad
  end.
Definition fs_id_of (f : fs_spec) : N :=
  match f with FTemplates _ => 0 | FData id _ _ => id | FOTemplates _ _ => 1 | FOData id _ _ _ => id end.

(* FlowSet ID, Length (which includes the 4 header bytes), body *)
Definition enc_fs (f : fs_spec) : bytes :=
  enc 2 (fs_id_of f) ++ enc 2 (4 + lenN (fs_body_bytes f)) ++ fs_body_bytes f.

(* what the collector knows after a flowset: template records are remembered, last wins, and an
   id names one template: a definition of either kind supersedes the other kind's entry *)
Definition learn_fs (s : v9state) (f : fs_spec) : v9state :=
  match f with
  | FTemplates ts => {| v9_t := learn_templates ts (v9_t s); v9_o := remove_keys (map t_id ts) (v9_o s) |}
  | FOTemplates ts _ => {| v9_t := remove_keys (map ot_id ts) (v9_t s); v9_o := learn_otemplates ts (v9_o s) |}
  | FData _ _ _ | FOData _ _ _ _ => s
  end.

(* values of one record, interpreted in the types of the template's fields *)
Fixpoint interp_record (fs : list tfield) (vals : list bytes) : option (list (N * fval)) :=
  match fs, vals with
  | [], [] => Some []
  | f :: fs', b :: vals' =>
      if (lenN b =? tf_len f)%N then
        match interp (v9_dtype (tf_type f)) b, interp_record fs' vals' with
        | Some v, Some l => Some ((tf_type f, v) :: l)
        | _, _ => None
        end
      else None
  | _, _ => None
  end.

Fixpoint interp_records (fs : list tfield) (recs : list (list bytes)) : option (list (list (N * fval))) :=
  match recs with
  | [] => Some []
  | r :: recs' => match interp_record fs r, interp_records fs recs' with
                  | Some a, Some l => Some (a :: l)
                  | _, _ => None
                  end
  end.

(* options data: the bytes of each scope / option field, as allotted by the options template *)
Fixpoint pair_scope (fs : list sfield) (vals : list bytes) : option (list (N * bytes)) :=
  match fs, vals with
  | [], [] => Some []
  | f :: fs', b :: vals' =>
      if (lenN b =? sf_len f)%N then
        match pair_scope fs' vals' with Some l => Some ((sf_type f, b) :: l) | None => None end
      else None
  | _, _ => None
  end.
Fixpoint pair_opts (fs : list tfield) (vals : list bytes) : option (list (N * bytes)) :=
  match fs, vals with
  | [], [] => Some []
  | f :: fs', b :: vals' =>
      if (lenN b =? tf_len f)%N then
        match pair_opts fs' vals' with Some l => Some ((tf_type f, b) :: l) | None => None end
      else None
  | _, _ => None
  end.

(* the flowset a collector in state s must report, if the flowset is decodable at all *)
Definition expect_fs (s : v9state) (f : fs_spec) : option v9_flowset :=
  let len := 4 + lenN (fs_body_bytes f) in
  match f with
  | FTemplates ts => Some {| fs_id := 0; fs_len := len; fs_body := V9Templates ts [] |}
  | FData id recs pad =>
      match lookup id (v9_t s) with
      | Some t => match interp_records (t_fields t) recs with
                  | Some rs => Some {| fs_id := id; fs_len := len; fs_body := V9Data rs pad |}
                  | None => None
                  end
      | None => None
      end
  | FOTemplates ts pad => Some {| fs_id := 1; fs_len := len; fs_body := V9OTemplates ts pad |}
  | FOData id scope opts pad =>
      match lookup id (v9_o s) with
      | Some t => match pair_scope (ot_scope t) scope, pair_opts (ot_opts t) opts with
                  | Some sc, Some op => Some {| fs_id := id; fs_len := len; fs_body := V9OData sc op pad |}
                  | _, _ => None
                  end
      | None => None
      end
  end.

Fixpoint expect_stream (s : v9state) (l : list fs_spec) : option (list v9_flowset * v9state) :=
  match l with
  | [] => Some ([], s)
  | f :: l' =>
      match expect_fs s f, expect_stream (learn_fs s f) l' with
      | Some x, Some (xs, s') => Some (x :: xs, s')
      | _, _ => None
      end
  end.
