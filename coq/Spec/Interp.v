(* Spec/Interp.v — "the big-endian interpretation, in the type the library assigns to that field,
   of exactly the bytes the template allots to it" (C04/C05), written from the property text and
   the data-type list, not from the decoders.  None = the (data type, width) pair is outside the
   supported set (those are the known-finding classes of C04/C05). *)
From NF Require Import Base Types Layout Value.
Open Scope N_scope.

Definition interp (dt : dtype) (b : bytes) : option fval :=
  match dt with
  | DUnsigned =>
      match length b with
      | 1 => Some (VNum (U8 (be b))) | 2 => Some (VNum (U16 (be b))) | 3 => Some (VNum (U24 (be b)))
      | 4 => Some (VNum (U32 (be b))) | 8 => Some (VNum (U64 (be b))) | 16 => Some (VNum (U128 (be b)))
      | _ => None
      end%nat
  | DSigned =>
      (* two's complement of the declared width; 8- and 16-byte signed values are truncated to 32
         bits by the library and are excluded here (class K_C05_signed_wide) *)
      match length b with
      | 1 => Some (VNum (I32 (to_signed 8 (be b)))) | 2 => Some (VNum (I32 (to_signed 16 (be b))))
      | 3 => Some (VNum (I24 (to_signed 24 (be b)))) | 4 => Some (VNum (I32 (to_signed 32 (be b))))
      | _ => None
      end%nat
  | DString => Some (VStr (utf8_lossy b))
  | DIp4 => if Nat.eqb (length b) 4 then Some (VIp4 (be b)) else None
  | DIp6 => if Nat.eqb (length b) 16 then Some (VIp6 (be b)) else None
  | DMac => if Nat.eqb (length b) 6 then Some (VMac b) else None
  | DFloat64 => if Nat.eqb (length b) 8 then Some (VF64 (be b)) else None
  | DDurSecs | DDurMillis | DDurMicros | DDurNanos =>
      match length b with
      | 1 | 2 | 3 | 4 | 8 => Some (dur_of dt (be b))
      | _ => None
      end%nat
  | DProto => if Nat.eqb (length b) 1
              then Some (VProto (proto_decode (be b)))     (* a number without a name is Unknown *)
              else None
  | DVec | DUnknown => Some (VVec b)
  end.
