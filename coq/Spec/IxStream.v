(* Spec/IxStream.v — an RFC 7011 message as an exporting process builds it, and what a collecting
   process must report for it.  Written as an ENCODER plus the expected decode (no second
   hand-written parser): a message is a header and a list of sets; a set is one template record,
   one options template record, or the data records of one template followed by padding.  A
   value of a variable-length information element is sent with the one-byte length prefix or
   with the three-byte form (RFC 7011 section 7), at the exporter's choice. *)
From NF Require Import Base Types Layout Value Ipfix Interp.
Open Scope list_scope.
Open Scope N_scope.

(* field specifier: the enterprise bit and the enterprise number, RFC 7011 3.2 *)
Definition enc_ifield (f : ifield) : bytes :=
  match if_ent f with
  | Some e => enc 2 (32768 + if_num f) ++ enc 2 (if_len f) ++ enc 4 e
  | None => enc 2 (if_num f) ++ enc 2 (if_len f)
  end.

(* one value as sent: the exporter's choice of prefix form, and the content bytes *)
Definition ivalue_spec := (bool * bytes)%type.

Definition var_prefix (long : bool) (n : N) : bytes :=
  if long then xff :: enc 2 n else [byte_of n].

Definition enc_ivalue (f : ifield) (v : ivalue_spec) : bytes :=
  if if_len f =? 65535 then var_prefix (fst v) (lenN (snd v)) ++ snd v else snd v.

Definition value_fits (f : ifield) (v : ivalue_spec) : bool :=
  if if_len f =? 65535 then lenN (snd v) <? (if fst v then 65536 else 255)
  else lenN (snd v) =? if_len f.

(* enterprise-specific elements are opaque; the others are interpreted in the type of the
   information element *)
Definition interp_ivalue (f : ifield) (b : bytes) : option fval :=
  match if_ent f with
  | Some _ => Some (VVec b)
  | None => interp (ipfix_dtype (if_type f)) b
  end.

Fixpoint enc_irecord (fs : list ifield) (vals : list ivalue_spec) : bytes :=
  match fs, vals with
  | f :: fs', v :: vals' => enc_ivalue f v ++ enc_irecord fs' vals'
  | _, _ => []
  end.

Fixpoint interp_irecord (fs : list ifield) (c : N) (vals : list ivalue_spec) : option (list ientry) :=
  match fs, vals with
  | [], [] => Some []
  | f :: fs', v :: vals' =>
      if value_fits f v then
        match interp_ivalue f (snd v), interp_irecord fs' (c + 1) vals' with
        | Some x, Some l => Some ((c, if_type f, x) :: l)
        | _, _ => None
        end
      else None
  | _, _ => None
  end.

Fixpoint interp_irecords (fs : list ifield) (recs : list (list ivalue_spec)) : option (list ientry) :=
  match recs with
  | [] => Some []
  | r :: recs' => match interp_irecord fs 0 r, interp_irecords fs recs' with
                  | Some a, Some l => Some (a ++ l)
                  | _, _ => None
                  end
  end.

Inductive iset_spec :=
| STemplate (t : itemplate)                 (* it_pad: the set's padding *)
| SOTemplate (t : iotemplate)
| SData (id : N) (recs : list (list ivalue_spec)) (pad : bytes).

Definition iset_body_bytes (fs_of : N -> list ifield) (f : iset_spec) : bytes :=
  match f with
  | STemplate t => enc 2 (it_id t) ++ enc 2 (it_count t) ++ flat_map enc_ifield (it_fields t) ++ it_pad t
  | SOTemplate t => enc 2 (io_id t) ++ enc 2 (io_count t) ++ enc 2 (io_scope_count t)
                      ++ flat_map enc_ifield (io_fields t) ++ io_pad t
  | SData id recs pad => List.concat (map (enc_irecord (fs_of id)) recs) ++ pad
  end.

Definition iset_id_of (f : iset_spec) : N :=
  match f with STemplate _ => 2 | SOTemplate _ => 3 | SData id _ _ => id end.

(* the template governing a data set: the collector's templates map first, then its options
   templates (an id is in one of them in a conformant stream) *)
Definition fields_of (s : ixstate) (id : N) : list ifield :=
  match lookup id (ix_t s) with
  | Some t => it_fields t
  | None => match lookup id (ix_o s) with Some t => io_fields t | None => [] end
  end.

(* Set ID, Length (which includes the 4 header bytes), content *)
Definition enc_iset (s : ixstate) (f : iset_spec) : bytes :=
  let body := iset_body_bytes (fields_of s) f in
  enc 2 (iset_id_of f) ++ enc 2 (4 + lenN body) ++ body.

Definition learn_iset (s : ixstate) (f : iset_spec) : ixstate :=
  match f with
  | STemplate t => {| ix_t := insert (it_id t) t (ix_t s); ix_o := remove (it_id t) (ix_o s) |}
  | SOTemplate t => {| ix_t := remove (io_id t) (ix_t s); ix_o := insert (io_id t) t (ix_o s) |}
  | SData _ _ _ => s
  end.

Definition expect_iset (s : ixstate) (f : iset_spec) : option ix_set :=
  let len := 4 + lenN (iset_body_bytes (fields_of s) f) in
  match f with
  | STemplate t => Some {| is_id := 2; is_len := len; is_body := IxTemplate t |}
  | SOTemplate t => Some {| is_id := 3; is_len := len; is_body := IxOTemplate t |}
  | SData id recs pad =>
      match lookup id (ix_t s) with
      | Some t => match interp_irecords (it_fields t) recs with
                  | Some ents => Some {| is_id := id; is_len := len; is_body := IxData ents pad |}
                  | None => None
                  end
      | None =>
          match lookup id (ix_o s) with
          | Some t => match interp_irecords (io_fields t) recs with
                      | Some ents => Some {| is_id := id; is_len := len; is_body := IxOData ents pad |}
                      | None => None
                      end
          | None => None
          end
      end
  end.

(* the bytes of a list of sets, each encoded against the collector state it will meet *)
Fixpoint enc_isets (s : ixstate) (l : list iset_spec) : bytes :=
  match l with
  | [] => []
  | f :: l' => enc_iset s f ++ enc_isets (learn_iset s f) l'
  end.

Fixpoint expect_isets (s : ixstate) (l : list iset_spec) : option (list ix_set * ixstate) :=
  match l with
  | [] => Some ([], s)
  | f :: l' =>
      match expect_iset s f, expect_isets (learn_iset s f) l' with
      | Some x, Some (xs, s') => Some (x :: xs, s')
      | _, _ => None
      end
  end.
