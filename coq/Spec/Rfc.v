(* Spec/Rfc.v — packet/message header layouts of RFC 3954 (NetFlow V9) and RFC 7011 (IPFIX) as
   (field, offset from the start of the packet, width); field names are the crate's. *)
From Coq Require Import List String.
Import ListNotations.
Open Scope string_scope.

Definition rfc3954_header : list (string * nat * nat) := [
  ("count", 2, 2); ("sys_up_time", 4, 4); ("unix_secs", 8, 4); ("sequence_number", 12, 4); ("source_id", 16, 4) ].
Definition rfc7011_header : list (string * nat * nat) := [
  ("length", 2, 2); ("export_time", 4, 4); ("sequence_number", 8, 4); ("observation_domain_id", 12, 4) ].
(* flowset / set header: id then length, 2 bytes each *)
Definition rfc_set_header : list (string * nat * nat) := [ ("id", 0, 2); ("length", 2, 2) ].
