(* Spec/Cisco.v — the published NetFlow V5 and V7 export formats, as (field, offset, width)
   tables.  Header offsets are from the start of the packet (the version word is bytes 0-1);
   record offsets are from the start of the record.  Field names are the crate's.
   Source: Cisco "NetFlow Export Datagram Format", Tables B-3, B-4 (V5) and B-5, B-6 (V7). *)
From Coq Require Import List String.
Import ListNotations.
Open Scope string_scope.

Definition cisco_v5_header_size : nat := 24.
Definition cisco_v5_record_size : nat := 48.
Definition cisco_v5_header : list (string * nat * nat) := [
  ("count", 2, 2); ("sys_up_time", 4, 4); ("unix_secs", 8, 4); ("unix_nsecs", 12, 4);
  ("flow_sequence", 16, 4); ("engine_type", 20, 1); ("engine_id", 21, 1); ("sampling_interval", 22, 2) ].
Definition cisco_v5_record : list (string * nat * nat) := [
  ("src_addr", 0, 4); ("dst_addr", 4, 4); ("next_hop", 8, 4); ("input", 12, 2); ("output", 14, 2);
  ("d_pkts", 16, 4); ("d_octets", 20, 4); ("first", 24, 4); ("last", 28, 4);
  ("src_port", 32, 2); ("dst_port", 34, 2); ("pad1", 36, 1); ("tcp_flags", 37, 1);
  ("protocol_number", 38, 1); ("tos", 39, 1); ("src_as", 40, 2); ("dst_as", 42, 2);
  ("src_mask", 44, 1); ("dst_mask", 45, 1); ("pad2", 46, 2) ].

Definition cisco_v7_header_size : nat := 24.
Definition cisco_v7_record_size : nat := 52.
Definition cisco_v7_header : list (string * nat * nat) := [
  ("count", 2, 2); ("sys_up_time", 4, 4); ("unix_secs", 8, 4); ("unix_nsecs", 12, 4);
  ("flow_sequence", 16, 4); ("reserved", 20, 4) ].
Definition cisco_v7_record : list (string * nat * nat) := [
  ("src_addr", 0, 4); ("dst_addr", 4, 4); ("next_hop", 8, 4); ("input", 12, 2); ("output", 14, 2);
  ("d_pkts", 16, 4); ("d_octets", 20, 4); ("first", 24, 4); ("last", 28, 4);
  ("src_port", 32, 2); ("dst_port", 34, 2); ("flags_fields_valid", 36, 1); ("tcp_flags", 37, 1);
  ("protocol_number", 38, 1); ("tos", 39, 1); ("src_as", 40, 2); ("dst_as", 42, 2);
  ("src_mask", 44, 1); ("dst_mask", 45, 1); ("flags_fields_invalid", 46, 2); ("router_src", 48, 4) ].

(* IANA protocol numbers: anchor assignments cross-checked against the crate's enum so that a
   uniformly shifted or permuted enum is caught (the enum itself carries the full IANA list). *)
Definition iana_anchors : list (nat * string) := [
  (1, "Icmp"); (2, "Igmp"); (4, "Ipv4"); (6, "Tcp"); (8, "Egp"); (9, "Igp"); (17, "Udp");
  (27, "Rdp"); (33, "Dccp"); (41, "Ipv6"); (46, "Rsvp"); (47, "Gre"); (50, "Esp"); (51, "Ah");
  (58, "Ipv6Icmp"); (88, "Eigrp"); (89, "Ospfigp"); (103, "Pim"); (112, "Vrrp"); (115, "L2Tp");
  (132, "Sctp"); (136, "Udplite"); (143, "Ethernet") ].

(* IANA Assigned Internet Protocol Numbers 0..144 (keywords in the crate's spelling), the full
   list: the name of every protocol number, whichever code path produces it (From<u8> for V5/V7,
   the enum discriminants for the V9 PROTOCOL field). *)
Definition iana_protocols : list (nat * string) := [
  (0, "Hopopt"); (1, "Icmp"); (2, "Igmp"); (3, "Ggp"); (4, "Ipv4"); (5, "St");
  (6, "Tcp"); (7, "Cbt"); (8, "Egp"); (9, "Igp"); (10, "Bbcrccmon"); (11, "Nvpii");
  (12, "Pup"); (13, "Argus"); (14, "Emcon"); (15, "Xnet"); (16, "Chaos"); (17, "Udp");
  (18, "Mux"); (19, "Dcnmeas"); (20, "Hmp"); (21, "Prm"); (22, "Xnxidp"); (23, "Trunk1");
  (24, "Trunk2"); (25, "Leaf1"); (26, "Leaf2"); (27, "Rdp"); (28, "Irtp"); (29, "Isotp4");
  (30, "Netblt"); (31, "Mfensp"); (32, "Meritinp"); (33, "Dccp"); (34, "Threepc"); (35, "Idpr");
  (36, "Xtp"); (37, "Ddp"); (38, "Idprcmtp"); (39, "Tppp"); (40, "Il"); (41, "Ipv6");
  (42, "Sdrp"); (43, "Ipv6Route"); (44, "Ipv6Frag"); (45, "Idrp"); (46, "Rsvp"); (47, "Gre");
  (48, "Dsr"); (49, "Bna"); (50, "Esp"); (51, "Ah"); (52, "Inlsp"); (53, "Swipe");
  (54, "Narp"); (55, "Mobile"); (56, "Tlsp"); (57, "Skip"); (58, "Ipv6Icmp"); (59, "Ipv6Nonxt");
  (60, "Ipv6Opts"); (61, "Anydistributedprotocol"); (62, "Cftp"); (63, "Anylocalnetwork"); (64, "Satexpak"); (65, "Kryptolan");
  (66, "Rvd"); (67, "Ippc"); (68, "Anydistributedfilesystem"); (69, "Satmon"); (70, "Visa"); (71, "Ipcv");
  (72, "Cpnx"); (73, "Cphb"); (74, "Wsn"); (75, "Pvp"); (76, "Brsatmon"); (77, "Sunnd");
  (78, "Wbmon"); (79, "Wbexpak"); (80, "Isoip"); (81, "Vmtp"); (82, "Securevmtp"); (83, "Vines");
  (84, "Iptm"); (85, "Nsfnetigp"); (86, "Dgp"); (87, "Tcf"); (88, "Eigrp"); (89, "Ospfigp");
  (90, "Spriterpc"); (91, "Larp"); (92, "Mtp"); (93, "Ax25"); (94, "Ipip"); (95, "Micp");
  (96, "Sccsp"); (97, "Etherip"); (98, "Encap"); (99, "Anyprivateencryptionscheme"); (100, "Gmtp"); (101, "Ifmp");
  (102, "Pnni"); (103, "Pim"); (104, "Aris"); (105, "Scps"); (106, "Qnx"); (107, "An");
  (108, "Ipcomp"); (109, "Snp"); (110, "Compaqpeer"); (111, "Ipxinip"); (112, "Vrrp"); (113, "Pgm");
  (114, "Any0Hopprotocol"); (115, "L2Tp"); (116, "Ddx"); (117, "Iatp"); (118, "Stp"); (119, "Srp");
  (120, "Uti"); (121, "Smp"); (122, "Sm"); (123, "Ptp"); (124, "Isisoveripv4"); (125, "Fire");
  (126, "Crtp"); (127, "Crudp"); (128, "Sscopmce"); (129, "Iplt"); (130, "Sps"); (131, "Pipe");
  (132, "Sctp"); (133, "Fc"); (134, "Rsvpe2Eignore"); (135, "Mobilityheader"); (136, "Udplite"); (137, "Mplsinip");
  (138, "Manet"); (139, "Hip"); (140, "Shim6"); (141, "Wesp"); (142, "Rohc"); (143, "Ethernet");
  (144, "Aggfrag") ].
