(* Spec/Cisco.v — the published NetFlow V5 and V7 export formats, as (field, offset, width)
   tables.  Header offsets are from the start of the packet (the version word is bytes 0-1);
   record offsets are from the start of the record.  Field names are the crate's.
   Source: Cisco "NetFlow Export Datagram Format", Tables B-3, B-4 (V5) and B-5, B-6 (V7). *)
From Coq Require Import List String.
Import ListNotations.
Open Scope string_scope.

Definition cisco_v5_header_size : nat := 24.
Definition cisco_v5_record_size : nat := 48.
Definition cisco_v5_header : list (string * nat * nat) := [
  ("count", 2, 2); ("sys_up_time", 4, 4); ("unix_secs", 8, 4); ("unix_nsecs", 12, 4);
  ("flow_sequence", 16, 4); ("engine_type", 20, 1); ("engine_id", 21, 1); ("sampling_interval", 22, 2) ].
Definition cisco_v5_record : list (string * nat * nat) := [
  ("src_addr", 0, 4); ("dst_addr", 4, 4); ("next_hop", 8, 4); ("input", 12, 2); ("output", 14, 2);
  ("d_pkts", 16, 4); ("d_octets", 20, 4); ("first", 24, 4); ("last", 28, 4);
  ("src_port", 32, 2); ("dst_port", 34, 2); ("pad1", 36, 1); ("tcp_flags", 37, 1);
  ("protocol_number", 38, 1); ("tos", 39, 1); ("src_as", 40, 2); ("dst_as", 42, 2);
  ("src_mask", 44, 1); ("dst_mask", 45, 1); ("pad2", 46, 2) ].

Definition cisco_v7_header_size : nat := 24.
Definition cisco_v7_record_size : nat := 52.
Definition cisco_v7_header : list (string * nat * nat) := [
  ("count", 2, 2); ("sys_up_time", 4, 4); ("unix_secs", 8, 4); ("unix_nsecs", 12, 4);
  ("flow_sequence", 16, 4); ("reserved", 20, 4) ].
Definition cisco_v7_record : list (string * nat * nat) := [
  ("src_addr", 0, 4); ("dst_addr", 4, 4); ("next_hop", 8, 4); ("input", 12, 2); ("output", 14, 2);
  ("d_pkts", 16, 4); ("d_octets", 20, 4); ("first", 24, 4); ("last", 28, 4);
  ("src_port", 32, 2); ("dst_port", 34, 2); ("flags_fields_valid", 36, 1); ("tcp_flags", 37, 1);
  ("protocol_number", 38, 1); ("tos", 39, 1); ("src_as", 40, 2); ("dst_as", 42, 2);
  ("src_mask", 44, 1); ("dst_mask", 45, 1); ("flags_fields_invalid", 46, 2); ("router_src", 48, 4) ].

(* IANA protocol numbers: anchor assignments cross-checked against the crate's enum so that a
   uniformly shifted or permuted enum is caught (the enum itself carries the full IANA list). *)
Definition iana_anchors : list (nat * string) := [
  (1, "Icmp"); (2, "Igmp"); (4, "Ipv4"); (6, "Tcp"); (8, "Egp"); (9, "Igp"); (17, "Udp");
  (27, "Rdp"); (33, "Dccp"); (41, "Ipv6"); (46, "Rsvp"); (47, "Gre"); (50, "Esp"); (51, "Ah");
  (58, "Ipv6Icmp"); (88, "Eigrp"); (89, "Ospfigp"); (103, "Pim"); (112, "Vrrp"); (115, "L2Tp");
  (132, "Sctp"); (136, "Udplite"); (143, "Ethernet") ].
