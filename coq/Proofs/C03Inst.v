(* Proofs/C03Inst.v — instantiating the generic fixed-format theorem on the generated layouts. *)
From NF Require Import Base Nom Types Layout Value V9 Ipfix Parser Cisco.
From NF Require Import BaseFacts NomFacts LayoutFacts FixedFacts C03Proofs ParserFacts.
From Coq Require Import Lia.
Open Scope list_scope.
Open Scope string_scope.
Open Scope N_scope.

Lemma layouts_are_cisco :
  map (shift 2) (offsets v5_header_layout) = cisco_v5_header /\
  offsets v5_record_layout = cisco_v5_record /\
  map (shift 2) (offsets v7_header_layout) = cisco_v7_header /\
  offsets v7_record_layout = cisco_v7_record /\
  (2 + wire_width v5_header_layout = cisco_v5_header_size)%nat /\
  wire_width v5_record_layout = cisco_v5_record_size /\
  (2 + wire_width v7_header_layout = cisco_v7_header_size)%nat /\
  wire_width v7_record_layout = cisco_v7_record_size.
Proof. repeat split; vm_compute; reflexivity. Qed.

(* derived fields of a well-formed struct *)
Lemma wf_const_first L v0 vs n name w sh env :
  L = {| f_name := name; f_width := w; f_kind := KConst n; f_show := sh |} :: tl L ->
  wf_vals L env (v0 :: vs) -> get_field L (v0 :: vs) name = n.
Proof.
  intros HL H. rewrite HL in *. cbn in H. destruct H as [-> _]. cbn. now rewrite String.eqb_refl.
Qed.

(* protocol_type is From<u8>(protocol_number): by unfolding wf_vals along the concrete layout *)
Lemma v5_record_proto r : wf_vals v5_record_layout [] r ->
  get_field v5_record_layout r "protocol_type" = proto_from_u8 (get_field v5_record_layout r "protocol_number").
Proof.
  intro H. pose proof (wf_vals_length _ _ _ H) as HL.
  do 21 (destruct r as [|? r]; [discriminate HL|]). destruct r; [|discriminate HL].
  cbn in H. decompose [and] H. cbn. assumption.
Qed.
Lemma v7_record_proto r : wf_vals v7_record_layout [] r ->
  get_field v7_record_layout r "protocol_type" = proto_from_u8 (get_field v7_record_layout r "protocol_number").
Proof.
  intro H. pose proof (wf_vals_length _ _ _ H) as HL.
  do 22 (destruct r as [|? r]; [discriminate HL|]). destruct r; [|discriminate HL].
  cbn in H. decompose [and] H. cbn. assumption.
Qed.
Lemma v5_header_version h : wf_vals v5_header_layout [] h -> get_field v5_header_layout h "version" = 5.
Proof.
  intro H. destruct h as [|v0 h]; [cbn in H; contradiction|]. cbn in H. destruct H as [-> _]. reflexivity.
Qed.
Lemma v7_header_version h : wf_vals v7_header_layout [] h -> get_field v7_header_layout h "version" = 7.
Proof.
  intro H. destruct h as [|v0 h]; [cbn in H; contradiction|]. cbn in H. destruct H as [-> _]. reflexivity.
Qed.

Lemma v5_complete : forall puf allow s x,
  allow 5 = true -> firstn 2 x = enc 2 5 ->
  let c := N.to_nat (be (slice x 2 2)) in
  (24 + c * 48 <= length x)%nat ->
  exists p, parse_one puf allow s x = StOk (PV5 p) (skipn (24 + c * 48) x) s
    /\ fields_at cisco_v5_header x 0 v5_header_layout (fx_header p)
    /\ get_field v5_header_layout (fx_header p) "version" = 5
    /\ length (fx_records p) = c
    /\ forall k r, nth_error (fx_records p) k = Some r ->
         fields_at cisco_v5_record x (24 + k * 48) v5_record_layout r
         /\ get_field v5_record_layout r "protocol_type"
            = proto_from_u8 (get_field v5_record_layout r "protocol_number").
Proof.
  intros puf allow s x Ha Hv c Hlen.
  destruct (fixed_complete 5 v5_header_layout v5_record_layout v5_count_field
              cisco_v5_header cisco_v5_record 0 eq_refl eq_refl eq_refl x Hv Hlen)
    as [p [Ep [Hh [Hwf [Hc Hr]]]]].
  exists p. rewrite (parse_one_v5 puf allow s x Ha Hv). unfold parse_v5. rewrite Ep.
  split; [reflexivity|]. split; [exact Hh|]. split; [now apply v5_header_version|].
  split; [exact Hc|]. intros k r H. split; [apply (Hr k r H)|apply v5_record_proto; apply (Hr k r H)].
Qed.

Lemma v7_complete : forall puf allow s x,
  allow 7 = true -> firstn 2 x = enc 2 7 ->
  let c := N.to_nat (be (slice x 2 2)) in
  (24 + c * 52 <= length x)%nat ->
  exists p, parse_one puf allow s x = StOk (PV7 p) (skipn (24 + c * 52) x) s
    /\ fields_at cisco_v7_header x 0 v7_header_layout (fx_header p)
    /\ get_field v7_header_layout (fx_header p) "version" = 7
    /\ length (fx_records p) = c
    /\ forall k r, nth_error (fx_records p) k = Some r ->
         fields_at cisco_v7_record x (24 + k * 52) v7_record_layout r
         /\ get_field v7_record_layout r "protocol_type"
            = proto_from_u8 (get_field v7_record_layout r "protocol_number").
Proof.
  intros puf allow s x Ha Hv c Hlen.
  destruct (fixed_complete 7 v7_header_layout v7_record_layout v7_count_field
              cisco_v7_header cisco_v7_record 0 eq_refl eq_refl eq_refl x Hv Hlen)
    as [p [Ep [Hh [Hwf [Hc Hr]]]]].
  exists p. rewrite (parse_one_v7 puf allow s x Ha Hv). unfold parse_v7. rewrite Ep.
  split; [reflexivity|]. split; [exact Hh|]. split; [now apply v7_header_version|].
  split; [exact Hc|]. intros k r H. split; [apply (Hr k r H)|apply v7_record_proto; apply (Hr k r H)].
Qed.

Lemma v5_short : forall puf allow s x,
  allow 5 = true -> firstn 2 x = enc 2 5 ->
  (length x < 24 \/ length x < 24 + N.to_nat (be (slice x 2 2)) * 48)%nat ->
  exists k, parse_one puf allow s x = StErr (PErr (NPartial 5 (skipn 2 x) k) x) s /\ k <> EFuel.
Proof.
  intros puf allow s x Ha Hv Hlen.
  destruct (fixed_short 5 v5_header_layout v5_record_layout v5_count_field
              cisco_v5_header 0 eq_refl eq_refl x Hv Hlen) as [e [Ee He]].
  exists e. rewrite (parse_one_v5 puf allow s x Ha Hv). unfold parse_v5. rewrite Ee. auto.
Qed.

Lemma v7_short : forall puf allow s x,
  allow 7 = true -> firstn 2 x = enc 2 7 ->
  (length x < 24 \/ length x < 24 + N.to_nat (be (slice x 2 2)) * 52)%nat ->
  exists k, parse_one puf allow s x = StErr (PErr (NPartial 7 (skipn 2 x) k) x) s /\ k <> EFuel.
Proof.
  intros puf allow s x Ha Hv Hlen.
  destruct (fixed_short 7 v7_header_layout v7_record_layout v7_count_field
              cisco_v7_header 0 eq_refl eq_refl x Hv Hlen) as [e [Ee He]].
  exists e. rewrite (parse_one_v7 puf allow s x Ha Hv). unfold parse_v7. rewrite Ee. auto.
Qed.

(* ---- protocol names ---- *)
(* known finding K_C03_proto: From<u8> names 0, 1 and 144 wrongly (the snapshot test pins it) *)
Definition K_C03_proto (n : N) : bool := (n =? 0) || (n =? 1) || (n =? 144).

Definition proto_name_ok (n : N) : bool :=
  let d := proto_from_u8 n in
  if n <=? 144 then d =? n                                  (* the variant declared with that number *)
  else if n <=? 254 then String.eqb (variant_name proto_variants d) "Unknown"
  else String.eqb (variant_name proto_variants d) "Unknown" || String.eqb (variant_name proto_variants d) "Reserved".

Fixpoint upto (n : nat) : list N := match n with O => [] | S n' => upto n' ++ [N.of_nat n'] end.
Lemma upto_in n : forall k, (N.to_nat k < n)%nat -> In k (upto n).
Proof.
  induction n as [|n IH]; intros k H; [lia|]. cbn [upto]. apply in_or_app.
  destruct (Nat.eq_dec (N.to_nat k) n) as [E|E].
  - right. left. rewrite <- E. apply N2Nat.id.
  - left. apply IH. lia.
Qed.

Lemma proto_names : forall n, n < 256 -> K_C03_proto n = false -> proto_name_ok n = true.
Proof.
  assert (H : forallb (fun n => K_C03_proto n || proto_name_ok n) (upto 256) = true) by (vm_compute; reflexivity).
  intros n Hn Hk. rewrite forallb_forall in H. specialize (H n (upto_in 256 n ltac:(lia))).
  rewrite Hk in H. exact H.
Qed.

Lemma proto_refuted : forall n, K_C03_proto n = true -> proto_name_ok n = false.
Proof.
  intros n H. unfold K_C03_proto in H.
  apply orb_prop in H. destruct H as [H|H]; [apply orb_prop in H; destruct H as [H|H]|];
    apply N.eqb_eq in H; subst; vm_compute; reflexivity.
Qed.

Lemma proto_anchors :
  forallb (fun a => String.eqb (variant_name proto_variants (N.of_nat (fst a))) (snd a)) iana_anchors = true.
Proof. vm_compute. reflexivity. Qed.
