(* Proofs/StreamFacts.v — C04 at full strength for packets of template and data flowsets:
   parsing the encoding of a conformant packet yields exactly the expected decode, the rest of
   the buffer, and the expected cache. *)
From NF Require Import Base Nom Types Layout Value V9 Interp V9Stream.
From NF Require Import BaseFacts NomFacts LayoutFacts FixedFacts ValueFacts VarFacts DecodeFacts.
From Coq Require Import Lia.
Open Scope string_scope.
Open Scope list_scope.

(* ---- many0 over template records: print-then-parse ---- *)
Lemma enc_template_length t : (4 <= length (enc_template t))%nat.
Proof. unfold enc_template. rewrite !app_length, !enc_length. lia. Qed.

Lemma parse_template_nil : complete parse_template [] = Err EError.
Proof. reflexivity. Qed.

Lemma many0_templates ts : forall fuel,
  Forall wf_template ts -> (length (flat_map enc_template ts) < fuel)%nat ->
  many0_aux fuel (complete parse_template) (flat_map enc_template ts) = Ok ts [].
Proof.
  induction ts as [|t ts IH]; intros fuel Hwf Hf.
  - destruct fuel; [cbn in Hf; lia|]. reflexivity.
  - inversion Hwf; subst. destruct fuel; [cbn in Hf; lia|]. cbn [flat_map many0_aux].
    unfold complete at 1. rewrite (decode_template t _ H1).
    rewrite shorter_spec. pose proof (enc_template_length t) as H4.
    assert (Hs : (length (flat_map enc_template ts) <? length (enc_template t ++ flat_map enc_template ts))%nat = true).
    { apply Nat.ltb_lt. rewrite app_length. lia. }
    rewrite Hs. cbn [flat_map] in Hf. rewrite app_length in Hf. rewrite IH; [reflexivity|assumption|lia].
Qed.

Lemma decode_templates ts : Forall wf_template ts -> parse_templates (flat_map enc_template ts) = Ok (ts, []) [].
Proof. intro H. unfold parse_templates, bind, many0. rewrite many0_templates; [reflexivity|exact H|lia]. Qed.

(* ---- options template records ---- *)
Definition wf_sfield (f : sfield) : Prop :=
  (sf_num f < 65536 /\ sf_len f < 65536)%N /\ sf_type f = scope_from_u16 (sf_num f).
Definition wf_otemplate (t : otemplate) : Prop :=
  (ot_id t < 65536)%N /\ ot_scope_len t = (4 * lenN (ot_scope t))%N /\ ot_opt_len t = (4 * lenN (ot_opts t))%N
  /\ (ot_scope_len t < 65536)%N /\ (ot_opt_len t < 65536)%N
  /\ Forall wf_sfield (ot_scope t) /\ Forall wf_tfield (ot_opts t).

Lemma decode_sfield f rest : wf_sfield f -> parse_sfield (enc_sfield f ++ rest) = Ok f rest.
Proof.
  intros [[Hn Hl] Ht]. unfold parse_sfield, enc_sfield, bind. rewrite <- app_assoc.
  rewrite u_s_enc by exact Hn. rewrite u_s_enc by exact Hl. destruct f; cbn in *. now rewrite Ht.
Qed.

Lemma decode_sfields fs : forall rest, Forall wf_sfield fs ->
  count (length fs) parse_sfield (flat_map enc_sfield fs ++ rest) = Ok fs rest.
Proof.
  induction fs as [|f fs IH]; intros rest H; cbn [length count flat_map]; [reflexivity|].
  inversion H; subst. rewrite <- app_assoc, decode_sfield by assumption. now rewrite IH.
Qed.

Lemma four_div {A} (n : list A) : N.to_nat (4 * lenN n / 4) = length n.
Proof. rewrite N.mul_comm, N.div_mul by lia. unfold lenN. apply Nat2N.id. Qed.

Lemma decode_otemplate t rest : wf_otemplate t -> parse_otemplate (enc_otemplate t ++ rest) = Ok t rest.
Proof.
  intros [Hid [Hs [Ho [Hs' [Ho' [Hsf Hof]]]]]]. unfold parse_otemplate, enc_otemplate, bind. rewrite <- !app_assoc.
  rewrite u_s_enc by exact Hid. rewrite u_s_enc by exact Hs'. rewrite u_s_enc by exact Ho'.
  rewrite Hs, (four_div (ot_scope t)), decode_sfields by exact Hsf.
  rewrite Ho, (four_div (ot_opts t)), decode_tfields by exact Hof.
  destruct t; cbn in *; subst; reflexivity.
Qed.

Lemma enc_otemplate_length t : (6 <= length (enc_otemplate t))%nat.
Proof. unfold enc_otemplate. rewrite !app_length, !enc_length. lia. Qed.

Lemma otemplate_short pad : (length pad < 6)%nat -> complete parse_otemplate pad = Err EError.
Proof.
  intro H. unfold complete, parse_otemplate, bind.
  destruct pad as [|a [|b [|c [|d [|e [|g p]]]]]]; try reflexivity. cbn [length] in H. lia.
Qed.

Lemma many0_otemplates ts pad : forall fuel,
  Forall wf_otemplate ts -> (length pad < 6)%nat -> (length (flat_map enc_otemplate ts ++ pad) < fuel)%nat ->
  many0_aux fuel (complete parse_otemplate) (flat_map enc_otemplate ts ++ pad) = Ok ts pad.
Proof.
  induction ts as [|t ts IH]; intros fuel Hwf Hp Hf.
  - destruct fuel; [lia|]. cbn [flat_map app many0_aux]. now rewrite (otemplate_short pad Hp).
  - inversion Hwf as [|? ? H1 H2]; subst. destruct fuel; [lia|]. cbn [flat_map many0_aux]. rewrite <- app_assoc.
    unfold complete at 1. rewrite (decode_otemplate t _ H1).
    rewrite shorter_spec. pose proof (enc_otemplate_length t) as H6.
    assert (Hs : (length (flat_map enc_otemplate ts ++ pad) <? length (enc_otemplate t ++ flat_map enc_otemplate ts ++ pad))%nat = true).
    { apply Nat.ltb_lt. rewrite (app_length (enc_otemplate t)). lia. }
    rewrite Hs. cbn [flat_map] in Hf. rewrite <- app_assoc, (app_length (enc_otemplate t)) in Hf.
    rewrite IH; [reflexivity|assumption|assumption|lia].
Qed.

Lemma decode_otemplates ts pad : Forall wf_otemplate ts -> (length pad < 6)%nat ->
  parse_otemplates (flat_map enc_otemplate ts ++ pad) = Ok (ts, pad) [].
Proof. intros H Hp. unfold parse_otemplates, bind, many0. rewrite many0_otemplates; [reflexivity|exact H|exact Hp|lia]. Qed.

(* ---- one options record ---- *)
Lemma decode_scope fs : forall vals sc rest,
  pair_scope fs vals = Some sc -> Forall (fun f => scope_known (sf_type f) = true /\ (0 < sf_len f)%N) fs ->
  scope_loop fs (List.concat vals ++ rest) = Ok sc rest.
Proof.
  induction fs as [|f fs IH]; intros vals sc rest H Hk; destruct vals as [|b vals]; cbn [pair_scope] in H; try discriminate.
  - inversion H; subst. reflexivity.
  - destruct (N.eqb_spec (lenN b) (sf_len f)) as [E|]; [|discriminate].
    destruct (pair_scope fs vals) as [l|] eqn:El; [|discriminate]. inversion H; subst.
    inversion Hk as [|? ? [Hkn Hpos] Hks]; subst.
    cbn [List.concat scope_loop]. rewrite <- app_assoc, <- E, take_c_lenN, Hkn.
    rewrite shorter_spec.
    assert (Hs : (length (List.concat vals ++ rest) <? length (b ++ List.concat vals ++ rest))%nat = true).
    { apply Nat.ltb_lt. rewrite (app_length b). unfold lenN in *. lia. }
    rewrite Hs. now rewrite (IH vals l rest El Hks).
Qed.

Lemma take_s_lenN (b rest : bytes) : take_s (lenN b) (b ++ rest) = Ok b rest.
Proof. unfold take_s, lenN. now rewrite Nat2N.id, take_app. Qed.

Lemma decode_opts fs : forall vals op rest,
  pair_opts fs vals = Some op -> Forall (fun f => (0 < tf_len f)%N) fs ->
  option_loop fs (List.concat vals ++ rest) = Ok op rest.
Proof.
  induction fs as [|f fs IH]; intros vals op rest H Hk; destruct vals as [|b vals]; cbn [pair_opts] in H; try discriminate.
  - inversion H; subst. reflexivity.
  - destruct (N.eqb_spec (lenN b) (tf_len f)) as [E|]; [|discriminate].
    destruct (pair_opts fs vals) as [l|] eqn:El; [|discriminate]. inversion H; subst.
    inversion Hk as [|? ? Hpos Hks]; subst.
    cbn [List.concat option_loop]. rewrite <- app_assoc, <- E, take_s_lenN.
    rewrite shorter_spec.
    assert (Hs : (length (List.concat vals ++ rest) <? length (b ++ List.concat vals ++ rest))%nat = true).
    { apply Nat.ltb_lt. rewrite (app_length b). unfold lenN in *. lia. }
    rewrite Hs. now rewrite (IH vals l rest El Hks).
Qed.

Lemma decode_odata t scope opts sc op pad :
  pair_scope (ot_scope t) scope = Some sc -> pair_opts (ot_opts t) opts = Some op ->
  Forall (fun f => scope_known (sf_type f) = true /\ (0 < sf_len f)%N) (ot_scope t) ->
  Forall (fun f => (0 < tf_len f)%N) (ot_opts t) ->
  parse_odata t (List.concat scope ++ List.concat opts ++ pad) = Ok (V9OData sc op pad) [].
Proof.
  intros Hs Ho Hks Hko. unfold parse_odata, bind.
  rewrite (decode_scope _ _ _ _ Hs Hks).
  (* after the last option field the iterator is exhausted: the loop stops with the padding left *)
  assert (Hop : option_loop (ot_opts t) (List.concat opts ++ pad) = Ok op pad) by exact (decode_opts _ _ _ _ Ho Hko).
  now rewrite Hop.
Qed.

(* ---- one flowset ---- *)
Definition conformant_fs (puf : bool) (s : v9state) (f : fs_spec) : Prop :=
  (4 + lenN (fs_body_bytes f) < 65536)%N /\
  match f with
  | FTemplates ts => Forall wf_template ts
  | FData id recs pad =>
      (id < 65536)%N /\ id <> v9_template_id /\ id <> v9_options_template_id
      /\ lookup id (v9_o s) = None
      /\ exists t, lookup id (v9_t s) = Some t /\ all_known_or_puf puf (t_fields t)
           /\ (0 < sum_len (t_fields t) <= 65535)%N /\ (lenN pad < sum_len (t_fields t))%N
  | FOTemplates ts pad => Forall wf_otemplate ts /\ (length pad < 6)%nat
  | FOData id scope opts pad =>
      (id < 65536)%N /\ id <> v9_template_id /\ id <> v9_options_template_id
      /\ lookup id (v9_t s) = None      (* the id names one template (always so in a state a parser can reach, since repair 4fcfdcb) *)
      /\ exists t, lookup id (v9_o s) = Some t
           /\ Forall (fun f => scope_known (sf_type f) = true /\ (0 < sf_len f)%N) (ot_scope t)
           /\ Forall (fun f => (0 < tf_len f)%N) (ot_opts t)
  end.

Lemma interp_records_Forall2 fs : forall recs rs,
  interp_records fs recs = Some rs -> Forall2 (fun vals rec => interp_record fs vals = Some rec) recs rs.
Proof.
  induction recs as [|r recs IH]; intros rs H; cbn [interp_records] in H.
  - inversion H. constructor.
  - destruct (interp_record fs r) as [a|] eqn:E1; [|discriminate].
    destruct (interp_records fs recs) as [l|] eqn:E2; [|discriminate]. inversion H; subst.
    constructor; [exact E1|now apply IH].
Qed.

Lemma lenN_small_nat (b : bytes) : N.to_nat (lenN b) = length b.
Proof. unfold lenN. apply Nat2N.id. Qed.

Lemma decode_flowset puf s f x rest :
  conformant_fs puf s f -> expect_fs s f = Some x ->
  parse_flowset puf s (enc_fs f ++ rest) = (Ok x rest, learn_fs s f).
Proof.
  intros [Hlen Hc] Hx. unfold parse_flowset, enc_fs. rewrite <- !app_assoc.
  assert (Hid : (fs_id_of f < 65536)%N) by (destruct f; cbn; [lia|tauto|lia|tauto]).
  rewrite u_s_enc by exact Hid. rewrite u_s_enc by exact Hlen.
  unfold map_res_take_st. replace (4 + lenN (fs_body_bytes f) - 4)%N with (lenN (fs_body_bytes f)) by lia.
  rewrite take_c_lenN.
  destruct f as [ts|id recs pad|ts pad|id scope opts pad]; cbn [fs_id_of fs_body_bytes learn_fs expect_fs] in *.
  - inversion Hx; subst. unfold parse_body. change (0 =? v9_template_id)%N with true. cbn iota.
    rewrite (decode_templates ts Hc). reflexivity.
  - destruct Hc as [_ [H0 [H1 [Ho [t [Ht [Hk [Hsz Hpad]]]]]]]]. rewrite Ht in Hx.
    destruct (interp_records (t_fields t) recs) as [rs|] eqn:Er; [|discriminate]. inversion Hx; subst.
    unfold parse_body. destruct (N.eqb_spec id v9_template_id); [contradiction|].
    destruct (N.eqb_spec id v9_options_template_id); [contradiction|]. rewrite Ho, Ht.
    rewrite (decode_data puf t recs rs pad (interp_records_Forall2 _ _ _ Er) Hk Hsz Hpad). reflexivity.
  - destruct Hc as [Hwf Hp]. inversion Hx; subst. unfold parse_body.
    change (1 =? v9_template_id)%N with false. change (1 =? v9_options_template_id)%N with true. cbn iota.
    rewrite (decode_otemplates ts pad Hwf Hp). reflexivity.
  - destruct Hc as [_ [H0 [H1 [_ [t [Ht [Hks Hko]]]]]]]. rewrite Ht in Hx.
    destruct (pair_scope (ot_scope t) scope) as [sc|] eqn:Es; [|discriminate].
    destruct (pair_opts (ot_opts t) opts) as [op|] eqn:Eo; [|discriminate]. inversion Hx; subst.
    unfold parse_body. destruct (N.eqb_spec id v9_template_id); [contradiction|].
    destruct (N.eqb_spec id v9_options_template_id); [contradiction|]. rewrite Ht.
    rewrite (decode_odata t scope opts sc op pad Es Eo Hks Hko). reflexivity.
Qed.

(* ---- a list of flowsets, the collector's state threaded through ---- *)
Fixpoint conformant_stream (puf : bool) (s : v9state) (l : list fs_spec) : Prop :=
  match l with
  | [] => True
  | f :: l' => conformant_fs puf s f /\ conformant_stream puf (learn_fs s f) l'
  end.

Lemma enc_fs_nonempty f rest : is_nil (enc_fs f ++ rest) = false.
Proof.
  unfold enc_fs. destruct (enc 2 (fs_id_of f)) as [|b l] eqn:E; [|reflexivity].
  apply (f_equal (@length byte)) in E. rewrite enc_length in E. discriminate.
Qed.

Lemma decode_stream puf : forall l s xs s' rest,
  conformant_stream puf s l -> expect_stream s l = Some (xs, s') ->
  parse_flowsets puf (length l) s (flat_map enc_fs l ++ rest) = (Ok xs rest, s').
Proof.
  induction l as [|f l IH]; intros s xs s' rest Hc Hx; cbn [expect_stream] in Hx.
  - inversion Hx; subst. reflexivity.
  - destruct Hc as [Hf Hc].
    destruct (expect_fs s f) as [x|] eqn:Ex; [|discriminate].
    destruct (expect_stream (learn_fs s f) l) as [[xs' s2]|] eqn:Es; [|discriminate]. inversion Hx; subst.
    cbn [length flat_map parse_flowsets]. rewrite <- app_assoc, enc_fs_nonempty.
    rewrite (decode_flowset puf s f x _ Hf Ex). now rewrite (IH _ _ _ rest Hc Es).
Qed.

(* ---- the packet ---- *)
Definition enc_v9_packet (h : list N) (l : list fs_spec) : bytes :=
  wire_bytes v9_header_layout h ++ flat_map enc_fs l.

Lemma decode_packet puf s h l xs s' rest :
  wf_vals v9_header_layout [] h ->
  get_field v9_header_layout h "count" = lenN l ->
  conformant_stream puf s l -> expect_stream s l = Some (xs, s') ->
  parse_v9 puf s (enc_v9_packet h l ++ rest) = (Ok {| v9_header := h; v9_sets := xs |} rest, s').
Proof.
  intros Hwf Hcnt Hc Hx. unfold parse_v9, enc_v9_packet, parse_layout. rewrite <- app_assoc.
  rewrite (parse_layout_aux_enc _ _ _ _ Hwf). rewrite Hcnt. unfold lenN at 1. rewrite Nat2N.id.
  now rewrite (decode_stream puf l s xs s' rest Hc Hx).
Qed.
