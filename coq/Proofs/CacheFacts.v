(* Proofs/CacheFacts.v — the template caches over histories (C06, C07). *)
From NF Require Import Base Nom Types Layout Value V9 Ipfix Parser.
From NF Require Import BaseFacts NomFacts LayoutFacts FixedFacts VarFacts ParserFacts RunFacts.
From Coq Require Import Lia.
Open Scope string_scope.
Open Scope list_scope.

(* ---- monotonicity: nothing is ever evicted ---- *)
Definition keeps {V W} (m : list (N * V)) (m' : list (N * W)) : Prop :=
  forall id, lookup id m <> None -> lookup id m' <> None.

Lemma keeps_refl {V} (m : list (N * V)) : keeps m m.
Proof. intros id H. exact H. Qed.
Lemma keeps_trans {V} (a b c : list (N * V)) : keeps a b -> keeps b c -> keeps a c.
Proof. intros H1 H2 id H. auto. Qed.
Lemma keeps_insert {V} k (v : V) m : keeps m (insert k v m).
Proof. intros id H. now apply lookup_insert_some. Qed.

Lemma keeps_fold {V A} (f : A -> N) (g : A -> V) (ts : list A) : forall m,
  keeps m (fold_left (fun m t => insert (f t) (g t) m) ts m).
Proof.
  induction ts as [|t ts IH]; intro m; cbn [fold_left]; [apply keeps_refl|].
  eapply keeps_trans; [apply keeps_insert|apply IH].
Qed.

(* an id that has a template in EITHER map of a protocol still has one afterwards: a definition
   of the other kind supersedes (the repair of the kind-change defect: the id moves to the other
   map), nothing else ever removes an entry *)
Definition has2 {V W} (a : list (N * V)) (b : list (N * W)) (id : N) : Prop :=
  lookup id a <> None \/ lookup id b <> None.
Definition v9_grows (s s' : v9state) : Prop :=
  forall id, has2 (v9_t s) (v9_o s) id -> has2 (v9_t s') (v9_o s') id.
Definition ix_grows (s s' : ixstate) : Prop :=
  forall id, has2 (ix_t s) (ix_o s) id -> has2 (ix_t s') (ix_o s') id.
Definition grows (s s' : pstate) : Prop := v9_grows (st9 s) (st9 s') /\ ix_grows (stx s) (stx s').

Lemma v9_grows_refl s : v9_grows s s. Proof. intros id H. exact H. Qed.
Lemma ix_grows_refl s : ix_grows s s. Proof. intros id H. exact H. Qed.
Lemma grows_refl s : grows s s. Proof. split; [apply v9_grows_refl|apply ix_grows_refl]. Qed.
Lemma v9_grows_trans a b c : v9_grows a b -> v9_grows b c -> v9_grows a c.
Proof. intros A B id H. auto. Qed.
Lemma ix_grows_trans a b c : ix_grows a b -> ix_grows b c -> ix_grows a c.
Proof. intros A B id H. auto. Qed.
Lemma grows_trans a b c : grows a b -> grows b c -> grows a c.
Proof. intros [A1 A2] [B1 B2]. split; [eapply v9_grows_trans|eapply ix_grows_trans]; eauto. Qed.

Lemma fold_insert_in {A} (f : A -> N) (ts : list A) : forall (m : list (N * A)) id,
  In id (map f ts) -> lookup id (fold_left (fun m t => insert (f t) t m) ts m) <> None.
Proof.
  induction ts as [|t ts IH]; intros m id H; [contradiction|]. cbn [fold_left map] in *.
  destruct (in_dec N.eq_dec id (map f ts)) as [Hi|Hn]; [now apply IH|].
  destruct H as [<-|H]; [|contradiction].
  apply (keeps_fold f (fun t => t) ts). rewrite lookup_insert_eq. discriminate.
Qed.

Lemma parse_body_grows puf id s i : v9_grows s (snd (parse_body puf id s i)).
Proof.
  unfold parse_body. destruct (id =? v9_template_id)%N.
  { destruct (parse_templates i) as [[ts pad] r|e]; cbn [snd]; [|apply v9_grows_refl].
    intros k [H|H]; cbn [v9_t v9_o].
    - left. now apply (keeps_fold t_id (fun t => t)).
    - destruct (in_dec N.eq_dec k (map t_id ts)) as [Hi|Hn].
      + left. now apply fold_insert_in.
      + right. now rewrite lookup_remove_keys_out. }
  destruct (id =? v9_options_template_id)%N.
  { destruct (parse_otemplates i) as [[ts pad] r|e]; cbn [snd]; [|apply v9_grows_refl].
    intros k [H|H]; cbn [v9_t v9_o].
    - destruct (in_dec N.eq_dec k (map ot_id ts)) as [Hi|Hn].
      + right. now apply fold_insert_in.
      + left. now rewrite lookup_remove_keys_out.
    - right. now apply (keeps_fold ot_id (fun t => t)). }
  destruct (lookup id (v9_o s)); [cbn [snd]; apply v9_grows_refl|].
  destruct (lookup id (v9_t s)); cbn [snd]; apply v9_grows_refl.
Qed.

Lemma map_res_take_st_snd {St A} len (inner : sparser St A) (R : St -> St -> Prop) s i :
  R s s -> (forall b, R s (snd (inner s b))) -> R s (snd (map_res_take_st len inner s i)).
Proof.
  intros Hr H. unfold map_res_take_st. destruct (take_c len i) as [body rest|e]; [|exact Hr].
  specialize (H body). destruct (inner s body) as [[a r|[]] s']; exact H.
Qed.

Lemma parse_flowset_grows puf s i : v9_grows s (snd (parse_flowset puf s i)).
Proof.
  unfold parse_flowset. destruct (u_s 2 i) as [id r|e]; [|apply v9_grows_refl].
  destruct (u_s 2 r) as [len r'|e]; [|apply v9_grows_refl].
  pose proof (map_res_take_st_snd (len - 4) (parse_body puf id) v9_grows s r' (v9_grows_refl s)
                (fun b => parse_body_grows puf id s b)) as H.
  destruct (map_res_take_st _ _ s r') as [[b r2|e] s2]; exact H.
Qed.

Lemma parse_flowsets_grows puf n : forall s i, v9_grows s (snd (parse_flowsets puf n s i)).
Proof.
  induction n as [|n IH]; intros s i; cbn [parse_flowsets]; [apply v9_grows_refl|].
  destruct (is_nil i); [apply v9_grows_refl|].
  pose proof (parse_flowset_grows puf s i) as H1.
  destruct (parse_flowset puf s i) as [[f r|e] s1]; cbn [snd] in *; [|exact H1].
  specialize (IH s1 r). destruct (parse_flowsets puf n s1 r) as [[l r'|e] s2]; cbn [snd] in *;
    eapply v9_grows_trans; eauto.
Qed.

Lemma parse_v9_grows puf s i : v9_grows s (snd (parse_v9 puf s i)).
Proof.
  unfold parse_v9. destruct (parse_layout v9_header_layout i) as [h r|e]; [|apply v9_grows_refl].
  pose proof (parse_flowsets_grows puf (N.to_nat (get_field v9_header_layout h "count")) s r) as H.
  destruct (parse_flowsets _ _ s r) as [[l r'|e] s']; exact H.
Qed.

Lemma parse_ibody_grows puf id s i : ix_grows s (snd (parse_ibody puf id s i)).
Proof.
  unfold parse_ibody.
  destruct ((id <? ipfix_set_min_range)%N && negb (id =? ipfix_options_template_id)%N).
  { destruct (parse_itemplate i) as [t r|e]; [|apply ix_grows_refl].
    destruct (fields_valid _); cbn [snd]; [|apply ix_grows_refl].
    intros k [H|H]; cbn [ix_t ix_o].
    - left. now apply keeps_insert.
    - destruct (N.eq_dec k (it_id t)) as [->|Hne].
      + left. rewrite lookup_insert_eq. discriminate.
      + right. now rewrite lookup_remove_neq. }
  destruct (id =? ipfix_options_template_id)%N.
  { destruct (parse_iotemplate i) as [t r|e]; [|apply ix_grows_refl].
    destruct (fields_valid _); cbn [snd]; [|apply ix_grows_refl].
    intros k [H|H]; cbn [ix_t ix_o].
    - destruct (N.eq_dec k (io_id t)) as [->|Hne].
      + right. rewrite lookup_insert_eq. discriminate.
      + left. now rewrite lookup_remove_neq.
    - right. now apply keeps_insert. }
  destruct (lookup id (ix_t s)) as [t|].
  { destruct (parse_idata _ _ i) as [[? ?] ?|?]; apply ix_grows_refl. }
  destruct (lookup id (ix_o s)) as [t|]; [|apply ix_grows_refl].
  destruct (parse_idata _ _ i) as [[? ?] ?|?]; apply ix_grows_refl.
Qed.

Lemma parse_iset_grows puf s i : ix_grows s (snd (parse_iset puf s i)).
Proof.
  unfold parse_iset. destruct (u_s 2 i) as [id r|e]; [|apply ix_grows_refl].
  destruct (u_s 2 r) as [len r'|e]; [|apply ix_grows_refl].
  pose proof (map_res_take_st_snd (len - 4) (parse_ibody puf id) ix_grows s r' (ix_grows_refl s)
                (fun b => parse_ibody_grows puf id s b)) as H.
  destruct (map_res_take_st _ _ s r') as [[b r2|e] s2]; exact H.
Qed.

Lemma many0_st_aux_rel {St A} (p : sparser St A) (R : St -> St -> Prop) :
  (forall s, R s s) -> (forall a b c, R a b -> R b c -> R a c) ->
  (forall s i, R s (snd (p s i))) ->
  forall fuel s i, R s (snd (many0_st_aux fuel p s i)).
Proof.
  intros Hr Ht Hp. induction fuel as [|fuel IH]; intros s i; cbn [many0_st_aux]; [apply Hr|].
  specialize (Hp s i). destruct (p s i) as [[a r|e] s1]; cbn [snd] in *.
  - destruct (shorter r i); [|exact Hp]. specialize (IH s1 r).
    destruct (many0_st_aux fuel p s1 r) as [[l r'|e'] s2]; cbn [snd] in *; eapply Ht; eauto.
  - destruct e; exact Hp.
Qed.

Lemma parse_ipfix_grows puf s i : ix_grows s (snd (parse_ipfix puf s i)).
Proof.
  unfold parse_ipfix. destruct (parse_layout ipfix_header_layout i) as [h r|e]; [|apply ix_grows_refl].
  pose proof (map_res_take_st_snd (get_field ipfix_header_layout h "length" - 16)
                (many0_st (complete_st (parse_iset puf))) ix_grows s r (ix_grows_refl s)) as H.
  destruct (map_res_take_st _ _ s r) as [[sets r'|e] s'] eqn:E; apply H; intro b; unfold many0_st;
    apply (many0_st_aux_rel _ ix_grows ix_grows_refl ix_grows_trans);
    intros s0 i0; unfold complete_st; pose proof (parse_iset_grows puf s0 i0) as Hg;
    destruct (parse_iset puf s0 i0) as [[? ?|[]] ?]; exact Hg.
Qed.

(* ---- one step: which caches may change at all (scoped to protocol; version gate first) ---- *)
Definition step_state (st : step) (s : pstate) : pstate :=
  match st with StStop => s | StErr _ s' => s' | StOk _ _ s' => s' end.

Lemma parse_one_state puf allow s x :
  let s' := step_state (parse_one puf allow s x) s in
  grows s s'
  /\ (forall v body, u_s 2 x = Ok v body -> v <> 9 -> st9 s' = st9 s)
  /\ (forall v body, u_s 2 x = Ok v body -> v <> 10 -> stx s' = stx s)
  /\ (forall v body, u_s 2 x = Ok v body -> allow v = false -> s' = s)
  /\ (forall e, u_s 2 x = Err e -> s' = s).
Proof.
  unfold parse_one. destruct (u_s 2 x) as [v body|k] eqn:Eu; cbn [step_state].
  2:{ split; [apply grows_refl|]. repeat split; auto; try (intros; discriminate). }
  destruct (allow v) eqn:Ea; cbn [negb step_state].
  2:{ split; [apply grows_refl|]. repeat split; auto; try (intros; discriminate). }
  destruct (version_kind v) as [[]|] eqn:Ek.
  - destruct (parse_v5 body); cbn [step_state]; (split; [apply grows_refl|]); repeat split; auto; intros; discriminate.
  - destruct (parse_v7 body); cbn [step_state]; (split; [apply grows_refl|]); repeat split; auto; intros; discriminate.
  - apply version_kind_inv in Ek. subst v. pose proof (parse_v9_grows puf (st9 s) body) as Hg.
    destruct (parse_v9 puf (st9 s) body) as [[p r|k] s9]; cbn [step_state snd st9 stx] in *;
      (split; [split; [exact Hg|apply ix_grows_refl]|]);
      (split; [intros v b H Hn; inversion H; subst; contradiction|]); (split; [reflexivity|]);
      (split; [intros v b H Hf; inversion H; subst; rewrite Ea in Hf; discriminate|intros; discriminate]).
  - apply version_kind_inv in Ek. subst v. pose proof (parse_ipfix_grows puf (stx s) body) as Hg.
    destruct (parse_ipfix puf (stx s) body) as [[p r|k] sx]; cbn [step_state snd st9 stx] in *;
      (split; [split; [apply v9_grows_refl|exact Hg]|]); (split; [reflexivity|]);
      (split; [intros v b H Hn; inversion H; subst; contradiction|]);
      (split; [intros v b H Hf; inversion H; subst; rewrite Ea in Hf; discriminate|intros; discriminate]).
  - cbn [step_state]. split; [apply grows_refl|]. repeat split; auto; intros; discriminate.
Qed.

Lemma run_grows puf allow : forall fuel s x r, run fuel puf allow s x = Some r -> grows s (final_state s r).
Proof.
  induction fuel as [|fuel IH]; intros s x r H.
  - destruct x; [|discriminate]. inversion H; subst. apply grows_refl.
  - destruct x as [|b x']; [inversion H; subst; apply grows_refl|]. cbn [run] in H.
    pose proof (parse_one_state puf allow s (b :: x')) as [Hg _].
    destruct (parse_one puf allow s (b :: x')) as [|e s'|e rest s']; cbn [step_state] in Hg.
    + inversion H; subst. apply grows_refl.
    + inversion H; subst. exact Hg.
    + destruct (is_nil rest); [inversion H; subst; exact Hg|].
      destruct (run fuel puf allow s' rest) as [r'|] eqn:Er; [|discriminate]. inversion H; subst.
      rewrite final_state_cons. eapply grows_trans; [exact Hg|]. eapply IH; eauto.
Qed.

(* ---- latest definition wins ---- *)
Fixpoint last_def {A} (f : A -> N) (id : N) (ts : list A) : option A :=
  match ts with
  | [] => None
  | t :: ts' => match last_def f id ts' with
                | Some t' => Some t'
                | None => if (f t =? id)%N then Some t else None
                end
  end.

Lemma lookup_fold_insert {A} (f : A -> N) (ts : list A) : forall (m : list (N * A)) id,
  lookup id (fold_left (fun m t => insert (f t) t m) ts m)
  = match last_def f id ts with Some t => Some t | None => lookup id m end.
Proof.
  induction ts as [|t ts IH]; intros m id; cbn [fold_left last_def]; [reflexivity|].
  rewrite IH. destruct (last_def f id ts); [reflexivity|].
  destruct (N.eqb_spec (f t) id) as [<-|Hne]; [apply lookup_insert_eq|].
  apply lookup_insert_neq. congruence.
Qed.

(* ---- C07: data for an unknown template ---- *)
Lemma parse_body_unknown puf id s i :
  id <> v9_template_id -> id <> v9_options_template_id ->
  lookup id (v9_o s) = None -> lookup id (v9_t s) = None ->
  parse_body puf id s i = (Err EError, s).
Proof.
  intros H0 H1 Ho Ht. unfold parse_body.
  destruct (N.eqb_spec id v9_template_id); [contradiction|].
  destruct (N.eqb_spec id v9_options_template_id); [contradiction|].
  now rewrite Ho, Ht.
Qed.

Lemma parse_flowset_unknown puf s i id len r r2 :
  u_s 2 i = Ok id r -> u_s 2 r = Ok len r2 ->
  id <> v9_template_id -> id <> v9_options_template_id ->
  lookup id (v9_o s) = None -> lookup id (v9_t s) = None ->
  parse_flowset puf s i = (Err EError, s).
Proof.
  intros E1 E2 H0 H1 Ho Ht. unfold parse_flowset. rewrite E1, E2.
  unfold map_res_take_st. destruct (take_c (len - 4) r2) as [body rest|e] eqn:Et.
  - now rewrite parse_body_unknown.
  - apply take_c_err in Et. destruct Et as [-> _]. reflexivity.
Qed.

Lemma parse_ibody_unknown puf id s i :
  (ipfix_set_min_range <= id)%N ->
  lookup id (ix_t s) = None -> lookup id (ix_o s) = None ->
  parse_ibody puf id s i = (Err EError, s).
Proof.
  intros Hid Ht Ho. unfold parse_ibody.
  assert (H1 : (id <? ipfix_set_min_range)%N = false) by (apply N.ltb_ge; exact Hid).
  rewrite H1. cbn [andb].
  assert (H2 : (id =? ipfix_options_template_id)%N = false).
  { apply N.eqb_neq. intro E. subst id. vm_compute in Hid. apply Hid. reflexivity. }
  now rewrite H2, Ht, Ho.
Qed.

Lemma parse_iset_unknown puf s i id len r r2 :
  u_s 2 i = Ok id r -> u_s 2 r = Ok len r2 ->
  (ipfix_set_min_range <= id)%N ->
  lookup id (ix_t s) = None -> lookup id (ix_o s) = None ->
  parse_iset puf s i = (Err EError, s).
Proof.
  intros E1 E2 Hid Ht Ho. unfold parse_iset. rewrite E1, E2.
  unfold map_res_take_st. destruct (take_c (len - 4) r2) as [body rest|e] eqn:Et.
  - now rewrite parse_ibody_unknown.
  - apply take_c_err in Et. destruct Et as [-> _]. reflexivity.
Qed.

(* the set loop of a message: a set that fails ends the loop successfully, keeping the sets
   before it and the state they left *)
Lemma many0_st_stop {St A} (p : sparser St A) fuel s i :
  p s i = (Err EError, s) -> many0_st_aux (S fuel) p s i = (Ok [] i, s).
Proof. intro H. cbn [many0_st_aux]. now rewrite H. Qed.
