(* Proofs/BufferFacts.v — C04/C05 over a whole buffer: any sequence of conformant V9 packets and
   IPFIX messages chained in one parse_bytes call decodes to exactly the expected elements, with
   the collector state threaded from packet to packet and across the two protocols. *)
From NF Require Import Base Nom Types Layout Value V9 Ipfix Parser Interp V9Stream IxStream.
From NF Require Import BaseFacts NomFacts LayoutFacts ParserFacts RunFacts StreamFacts IxStreamFacts.
From Coq Require Import Lia.
Open Scope string_scope.
Open Scope list_scope.

Inductive pkt_spec :=
| PktV9 (h : list N) (l : list fs_spec)
| PktIx (h : list N) (l : list iset_spec).

Definition enc_pkt (s : pstate) (p : pkt_spec) : bytes :=
  match p with
  | PktV9 h l => enc 2 9 ++ enc_v9_packet h l
  | PktIx h l => enc 2 10 ++ enc_ix_message (stx s) h l
  end.

Definition conformant_pkt (puf : bool) (s : pstate) (p : pkt_spec) : Prop :=
  match p with
  | PktV9 h l => wf_vals v9_header_layout [] h /\ get_field v9_header_layout h "count" = lenN l
                 /\ conformant_stream puf (st9 s) l
  | PktIx h l => wf_vals ipfix_header_layout [] h
                 /\ get_field ipfix_header_layout h "length" = (16 + lenN (enc_isets (stx s) l))%N
                 /\ conformant_isets puf (stx s) l
  end.

Definition expect_pkt (s : pstate) (p : pkt_spec) : option (elem * pstate) :=
  match p with
  | PktV9 h l => match expect_stream (st9 s) l with
                 | Some (xs, s9) => Some (PV9 {| v9_header := h; v9_sets := xs |}, {| st9 := s9; stx := stx s |})
                 | None => None
                 end
  | PktIx h l => match expect_isets (stx s) l with
                 | Some (xs, sx) => Some (PIx {| ix_header := h; ix_sets := xs |}, {| st9 := st9 s; stx := sx |})
                 | None => None
                 end
  end.

Fixpoint enc_pkts (s : pstate) (ps : list pkt_spec) (ex : list (elem * pstate)) : bytes :=
  match ps, ex with
  | p :: ps', (_, s') :: ex' => enc_pkt s p ++ enc_pkts s' ps' ex'
  | _, _ => []
  end.

(* the expected result list; every packet conformant for the state it meets *)
Fixpoint expect_pkts (puf : bool) (s : pstate) (ps : list pkt_spec) (ex : list (elem * pstate)) : Prop :=
  match ps, ex with
  | [], [] => True
  | p :: ps', (e, s') :: ex' => conformant_pkt puf s p /\ expect_pkt s p = Some (e, s') /\ expect_pkts puf s' ps' ex'
  | _, _ => False
  end.

Lemma enc2_split v : exists a b, enc 2 v = [a; b].
Proof.
  pose proof (enc_length 2 v) as H. destruct (enc 2 v) as [|a [|b [|c l]]]; try discriminate. eauto.
Qed.
Lemma enc2_firstn v rest : firstn 2 (enc 2 v ++ rest) = enc 2 v.
Proof. destruct (enc2_split v) as [a [b ->]]. reflexivity. Qed.
Lemma enc2_skipn v rest : skipn 2 (enc 2 v ++ rest) = rest.
Proof. destruct (enc2_split v) as [a [b ->]]. reflexivity. Qed.

Lemma decode_pkt puf allow s p e s' rest :
  allow 9%N = true -> allow 10%N = true ->
  conformant_pkt puf s p -> expect_pkt s p = Some (e, s') ->
  parse_one puf allow s (enc_pkt s p ++ rest) = StOk e rest s'.
Proof.
  intros A9 A10 Hc Hx. destruct p as [h l|h l]; cbn [enc_pkt conformant_pkt expect_pkt] in *.
  - destruct Hc as [Hwf [Hcnt Hcs]]. destruct (expect_stream (st9 s) l) as [[xs s9]|] eqn:Ex; [|discriminate].
    inversion Hx; subst. rewrite <- app_assoc.
    rewrite (parse_one_v9 puf allow s _ A9 (enc2_firstn 9 _)), enc2_skipn.
    now rewrite (decode_packet puf (st9 s) h l xs s9 rest Hwf Hcnt Hcs Ex).
  - destruct Hc as [Hwf [Hlen Hcs]]. destruct (expect_isets (stx s) l) as [[xs sx]|] eqn:Ex; [|discriminate].
    inversion Hx; subst. rewrite <- app_assoc.
    rewrite (parse_one_ipfix puf allow s _ A10 (enc2_firstn 10 _)), enc2_skipn.
    now rewrite (decode_message puf (stx s) h l xs sx rest Hwf Hlen Hcs Ex).
Qed.

Lemma enc_pkt_nonempty s p rest : is_nil (enc_pkt s p ++ rest) = false.
Proof.
  destruct p; cbn [enc_pkt]; destruct (enc 2 _) as [|b l0] eqn:E; try reflexivity;
    apply (f_equal (@length byte)) in E; rewrite enc_length in E; discriminate.
Qed.

Lemma decode_pkts puf allow : allow 9%N = true -> allow 10%N = true ->
  forall ps s ex fuel, expect_pkts puf s ps ex -> (length (enc_pkts s ps ex) < fuel)%nat ->
  run fuel puf allow s (enc_pkts s ps ex) = Some ex.
Proof.
  intros A9 A10. induction ps as [|p ps IH]; intros s ex fuel Hx Hf; destruct ex as [|[e s'] ex]; cbn [expect_pkts] in Hx; try contradiction.
  - cbn [enc_pkts]. destruct fuel; reflexivity.
  - destruct Hx as [Hc [He Hx]]. cbn [enc_pkts] in *.
    pose proof (enc_pkt_nonempty s p (enc_pkts s' ps ex)) as Hne.
    destruct (enc_pkt s p ++ enc_pkts s' ps ex) as [|b x] eqn:Eb; [discriminate|].
    destruct fuel as [|fuel]; [cbn in Hf; lia|]. cbn [run]. rewrite <- Eb.
    rewrite (decode_pkt puf allow s p e s' _ A9 A10 Hc He).
    destruct ps as [|p2 ps].
    + destruct ex; cbn [expect_pkts] in Hx; [|contradiction]. cbn [enc_pkts is_nil]. reflexivity.
    + destruct ex as [|[e2 s2] ex]; cbn [expect_pkts] in Hx; [contradiction|].
      assert (Hn2 : is_nil (enc_pkts s' (p2 :: ps) ((e2, s2) :: ex)) = false) by (cbn [enc_pkts]; apply enc_pkt_nonempty).
      rewrite Hn2. rewrite (IH s' ((e2, s2) :: ex) fuel Hx); [reflexivity|].
      rewrite <- Eb in Hf. rewrite app_length in Hf.
      assert (0 < length (enc_pkt s p))%nat; [|lia].
      destruct p; cbn [enc_pkt]; rewrite app_length, enc_length; lia.
Qed.

Theorem decode_buffer puf allow s ps ex :
  allow 9%N = true -> allow 10%N = true -> expect_pkts puf s ps ex ->
  parse_bytes puf allow s (enc_pkts s ps ex) = Some ex.
Proof. intros A9 A10 Hx. unfold parse_bytes. apply (decode_pkts puf allow A9 A10); [exact Hx|lia]. Qed.
