(* Proofs/C03Proofs.v — V5/V7 decode exactly per the Cisco tables. *)
From NF Require Import Base Nom Types Layout Value V9 Ipfix Parser BaseFacts NomFacts LayoutFacts FixedFacts Cisco.
From Coq Require Import Lia.
Open Scope list_scope.

(* ---- offsets ---- *)
Definition shift (off : nat) (e : string * nat * nat) : string * nat * nat :=
  (fst (fst e), off + snd (fst e), snd e)%nat.

Lemma offsets_from_shift L : forall off, offsets_from L off = map (shift off) (offsets_from L 0).
Proof.
  induction L as [|f L IH]; intro off; cbn [offsets_from]; [reflexivity|].
  destruct (on_wire f).
  - cbn [map]. unfold shift at 1. cbn [fst snd]. rewrite Nat.add_0_r. f_equal.
    rewrite (IH (off + f_width f)%nat), (IH (0 + f_width f)%nat), map_map. apply map_ext.
    intros [[n o] w]. unfold shift. cbn [fst snd]. f_equal. f_equal. lia.
  - apply IH.
Qed.

(* a decoded struct, read back from the buffer it came from, through an offset table *)
Definition fields_at (tbl : list (string * nat * nat)) (x : bytes) (base : nat)
           (L : list fld) (vs : list N) : Prop :=
  map f_name (filter on_wire L) = map (fun e => fst (fst e)) tbl
  /\ wire_vals L vs = map (fun e => be (slice x (base + snd (fst e)) (snd e))) tbl.

Lemma offsets_names L : forall off, map (fun e : string * nat * nat => fst (fst e)) (offsets_from L off)
                                   = map f_name (filter on_wire L).
Proof.
  induction L as [|f L IH]; intro off; cbn [offsets_from filter]; [reflexivity|].
  destruct (on_wire f); cbn [map fst]; [f_equal|]; apply IH.
Qed.

Lemma fields_at_intro tbl0 tbl sh L env vs (pre rest : bytes) :
  offsets L = tbl0 -> map (shift sh) tbl0 = tbl ->
  wf_vals L env vs -> (sh <= length pre)%nat ->
  fields_at tbl (pre ++ wire_bytes L vs ++ rest) (length pre - sh) L vs.
Proof.
  intros Ho Ht Hwf Hsh. subst tbl tbl0. split.
  - rewrite map_map. cbn [shift fst]. unfold offsets. now rewrite <- (offsets_names L 0).
  - rewrite (wire_vals_slices L env vs (length pre) pre rest Hwf eq_refl).
    rewrite offsets_from_shift, !map_map. apply map_ext. intros [[n o] w]. unfold shift. cbn [fst snd].
    do 2 f_equal. lia.
Qed.

(* get_field by name against the positional wire values *)
Fixpoint wire_index (L : list fld) (name : string) : option nat :=
  match L with
  | [] => None
  | f :: L' =>
      if String.eqb (f_name f) name then (if on_wire f then Some O else None)
      else match wire_index L' name with
           | Some j => Some (if on_wire f then S j else j)
           | None => None
           end
  end.

Lemma get_field_wire_index L : forall vs name j,
  length vs = length L -> wire_index L name = Some j -> get_field L vs name = nth j (wire_vals L vs) 0%N.
Proof.
  induction L as [|f L IH]; intros [|v vs] name j HL H; cbn in HL; try discriminate; cbn [wire_index] in H.
  cbn [get_field wire_vals]. destruct (String.eqb (f_name f) name).
  - destruct (on_wire f); inversion H; subst. reflexivity.
  - destruct (wire_index L name) as [j'|] eqn:E; [|discriminate]. inversion H; subst.
    destruct (on_wire f); cbn [nth]; apply IH; auto.
Qed.

(* splitting the records of a packet around the k-th *)
Lemma flat_map_split {A B} (f : A -> list B) (l : list A) k r :
  nth_error l k = Some r ->
  exists l1 l2, l = l1 ++ r :: l2 /\ length l1 = k
                /\ flat_map f l = flat_map f l1 ++ f r ++ flat_map f l2.
Proof.
  intro H. apply nth_error_split in H. destruct H as [l1 [l2 [-> HL]]].
  exists l1, l2. repeat split; auto. rewrite flat_map_app. reflexivity.
Qed.

Lemma flat_map_const_length {A B} (f : A -> list B) (w : nat) (l : list A) :
  Forall (fun a => length (f a) = w) l -> length (flat_map f l) = (length l * w)%nat.
Proof.
  induction 1 as [|a l Ha Hl IH]; [reflexivity|]. cbn [flat_map length]. rewrite app_length, IH, Ha. lia.
Qed.

(* ---- the generic decode theorem for a fixed-format version ---- *)
Section Fixed.
  Variables (ver : N) (HL RL : list fld) (cnt : string) (HT RT : list (string * nat * nat)) (ci : nat).
  Hypothesis HHT : map (shift 2) (offsets HL) = HT.
  Hypothesis HRT : offsets RL = RT.
  Hypothesis Hci : wire_index HL cnt = Some ci.

  Let hsz := (2 + wire_width HL)%nat.
  Let rsz := wire_width RL.
  Definition count_of (x : bytes) : nat :=
    match nth_error HT ci with
    | Some e => N.to_nat (be (slice x (snd (fst e)) (snd e)))
    | None => O
    end.

  Lemma fixed_complete (x : bytes) :
    firstn 2 x = enc 2 ver -> (hsz + count_of x * rsz <= length x)%nat ->
    exists p, parse_fixed HL RL cnt (skipn 2 x) = Ok p (skipn (hsz + count_of x * rsz) x)
      /\ fields_at HT x 0 HL (fx_header p)
      /\ wf_vals HL [] (fx_header p)
      /\ length (fx_records p) = count_of x
      /\ forall k r, nth_error (fx_records p) k = Some r ->
           fields_at RT x (hsz + k * rsz) RL r /\ wf_vals RL [] r.
  Proof.
    intros Hv Hlen. subst hsz rsz.
    assert (Hx : x = enc 2 ver ++ skipn 2 x) by (rewrite <- Hv; symmetry; apply firstn_skipn).
    set (body := skipn 2 x) in *.
    assert (Hbl : length x = (2 + length body)%nat) by (rewrite Hx, app_length, enc_length; reflexivity).
    destruct (parse_layout_aux_long HL [] body ltac:(lia)) as [h [r Eh]].
    pose proof (parse_layout_aux_ok _ _ _ _ _ Eh) as [Hb Hwf].
    destruct (parse_layout_rest _ _ _ _ _ Eh) as [Hr _].
    (* the count the parser uses is the number at the table's count offset *)
    assert (Hcount : N.to_nat (get_field HL h cnt) = count_of x).
    { rewrite (get_field_wire_index HL h cnt ci (wf_vals_length _ _ _ Hwf) Hci).
      pose proof (fields_at_intro (offsets HL) HT 2 HL [] h (enc 2 ver) r eq_refl HHT Hwf) as [_ Hvals].
      { rewrite enc_length. lia. }
      rewrite enc_length, Nat.sub_diag in Hvals. rewrite <- Hb, <- Hx in Hvals.
      unfold count_of. rewrite Hvals.
      destruct (nth_error HT ci) as [e|] eqn:En.
      - rewrite (nth_error_nth _ _ 0%N (map_nth_error _ _ _ En)). reflexivity.
      - apply nth_error_None in En.
        rewrite nth_overflow by (rewrite map_length; exact En). reflexivity. }
    destruct (parse_fixed_long HL RL cnt body h r Eh) as [recs Ep].
    { rewrite Hcount, Hr, skipn_length. lia. }
    exists {| fx_header := h; fx_records := recs |}.
    pose proof (parse_fixed_ok _ _ _ _ _ _ Ep) as [Hbody [_ [HF HLr]]]. cbn [fx_header fx_records] in *.
    rewrite Hcount in *.
    split; [|split; [|split; [|split]]].
    - rewrite Ep. f_equal. rewrite Hr, skipn_skipn. unfold body. rewrite skipn_skipn. f_equal; lia.
    - pose proof (fields_at_intro (offsets HL) HT 2 HL [] h (enc 2 ver) r eq_refl HHT Hwf) as Hf.
      rewrite enc_length, Nat.sub_diag in Hf. rewrite <- Hb, <- Hx in Hf. apply Hf. lia.
    - exact Hwf.
    - exact HLr.
    - intros k rec Hk.
      destruct (flat_map_split (wire_bytes RL) recs k rec Hk) as [l1 [l2 [Hl [Hl1 Hfm]]]].
      assert (Hwr : wf_vals RL [] rec) by (rewrite Forall_forall in HF; apply HF; eapply nth_error_In; eauto).
      split; [|exact Hwr].
      assert (HF1 : Forall (fun a => length (wire_bytes RL a) = wire_width RL) l1).
      { rewrite Forall_forall in *. intros a Ha. apply wire_bytes_length, wf_vals_length with (env := []).
        apply HF. rewrite Hl. apply in_or_app. now left. }
      pose proof (flat_map_const_length _ _ _ HF1) as Hpre.
      pose proof (fields_at_intro (offsets RL) RT 0 RL [] rec
                    (enc 2 ver ++ wire_bytes HL h ++ flat_map (wire_bytes RL) l1)
                    (flat_map (wire_bytes RL) l2 ++ skipn (count_of x * wire_width RL) r)
                    eq_refl) as Hf.
      replace (map (shift 0) (offsets RL)) with RT in Hf.
      2:{ rewrite <- HRT. rewrite <- (map_id (offsets RL)) at 1. apply map_ext. intros [[n o] w]. reflexivity. }
      specialize (Hf eq_refl Hwr ltac:(lia)).
      rewrite !app_length, enc_length, Hpre, Hl1, Nat.sub_0_r in Hf.
      rewrite (wire_bytes_length HL h (wf_vals_length _ _ _ Hwf)) in Hf.
      replace (2 + (wire_width HL + k * wire_width RL))%nat with (2 + wire_width HL + k * wire_width RL)%nat in Hf by lia.
      replace ((enc 2 ver ++ wire_bytes HL h ++ flat_map (wire_bytes RL) l1) ++
               wire_bytes RL rec ++ flat_map (wire_bytes RL) l2 ++ skipn (count_of x * wire_width RL) r)
        with x in Hf; [exact Hf|].
      rewrite Hx at 1. rewrite Hbody, Hfm. rewrite <- !app_assoc. reflexivity.
  Qed.

  Lemma fixed_short (x : bytes) :
    firstn 2 x = enc 2 ver -> (length x < hsz \/ length x < hsz + count_of x * rsz)%nat ->
    exists e, parse_fixed HL RL cnt (skipn 2 x) = Err e /\ e <> EFuel.
  Proof.
    intros Hv Hlen. subst hsz rsz.
    assert (Hx : x = enc 2 ver ++ skipn 2 x) by (rewrite <- Hv; symmetry; apply firstn_skipn).
    set (body := skipn 2 x) in *.
    assert (Hbl : length x = (2 + length body)%nat) by (rewrite Hx, app_length, enc_length; reflexivity).
    destruct (Nat.lt_ge_cases (length body) (wire_width HL)) as [Hs|Hl].
    - now apply parse_fixed_header_short.
    - destruct Hlen as [Hlen|Hlen]; [lia|].
      destruct (parse_layout_aux_long HL [] body Hl) as [h [r Eh]].
      pose proof (parse_layout_aux_ok _ _ _ _ _ Eh) as [Hb Hwf].
      destruct (parse_layout_rest _ _ _ _ _ Eh) as [Hr _].
      assert (Hcount : N.to_nat (get_field HL h cnt) = count_of x).
      { rewrite (get_field_wire_index HL h cnt ci (wf_vals_length _ _ _ Hwf) Hci).
        pose proof (fields_at_intro (offsets HL) HT 2 HL [] h (enc 2 ver) r eq_refl HHT Hwf) as [_ Hvals].
        { rewrite enc_length. lia. }
        rewrite enc_length, Nat.sub_diag in Hvals. rewrite <- Hb, <- Hx in Hvals.
        unfold count_of. rewrite Hvals.
        destruct (nth_error HT ci) as [e|] eqn:En.
        - rewrite (nth_error_nth _ _ 0%N (map_nth_error _ _ _ En)). reflexivity.
        - apply nth_error_None in En.
          rewrite nth_overflow by (rewrite map_length; exact En). reflexivity. }
      apply (parse_fixed_short HL RL cnt body h r Eh).
      rewrite Hcount, Hr, skipn_length. lia.
  Qed.
End Fixed.
