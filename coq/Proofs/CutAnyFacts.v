(* Proofs/CutAnyFacts.v — C14 at packet level for V5, V7 and IPFIX: an accepted packet that ends
   its buffer, cut at ANY point strictly inside, is one Error carrying the truncated bytes, and
   the parser state is untouched.  (V9: CutFacts.v, where flowset boundaries are excluded.) *)
From NF Require Import Base Nom Types Layout Value V9 Ipfix Parser.
From NF Require Import BaseFacts NomFacts LayoutFacts FixedFacts VarFacts ParserFacts RunFacts C03Proofs C03Inst C14Proofs CutFacts.
From Coq Require Import Lia.
Open Scope string_scope.
Open Scope list_scope.

(* an accepted V5 packet that ends its buffer is exactly 24 + 48*count bytes, count read at offset 2 *)
Lemma v5_exact puf allow s x p s' :
  parse_one puf allow s x = StOk (PV5 p) [] s' ->
  allow 5 = true /\ firstn 2 x = enc 2 5 /\ length x = (24 + N.to_nat (be (slice x 2 2)) * 48)%nat.
Proof.
  intro H. pose proof H as H0. apply parse_one_ok_inv in H0. destruct H0 as [v [Hv [Ha Hs]]].
  assert (Hvs : v = 5%N /\ s' = s) by (inversion Hs; auto). destruct Hvs as [-> ->]. split; [exact Ha|]. split; [exact Hv|].
  destruct (Nat.le_gt_cases (24 + N.to_nat (be (slice x 2 2)) * 48) (length x)) as [Hle|Hgt].
  - destruct (v5_complete puf allow s x Ha Hv Hle) as [p' [Ep _]]. rewrite Ep in H.
    pose proof (f_equal (fun st => match st with StOk _ r _ => length r | _ => 0%nat end) H) as HL.
    cbv beta iota in HL. rewrite skipn_length in HL. cbn [length] in HL. lia.
  - destruct (v5_short puf allow s x Ha Hv (or_intror Hgt)) as [k [Ek _]]. rewrite Ek in H. discriminate.
Qed.

Lemma v7_exact puf allow s x p s' :
  parse_one puf allow s x = StOk (PV7 p) [] s' ->
  allow 7 = true /\ firstn 2 x = enc 2 7 /\ length x = (24 + N.to_nat (be (slice x 2 2)) * 52)%nat.
Proof.
  intro H. pose proof H as H0. apply parse_one_ok_inv in H0. destruct H0 as [v [Hv [Ha Hs]]].
  assert (Hvs : v = 7%N /\ s' = s) by (inversion Hs; auto). destruct Hvs as [-> ->]. split; [exact Ha|]. split; [exact Hv|].
  destruct (Nat.le_gt_cases (24 + N.to_nat (be (slice x 2 2)) * 52) (length x)) as [Hle|Hgt].
  - destruct (v7_complete puf allow s x Ha Hv Hle) as [p' [Ep _]]. rewrite Ep in H.
    pose proof (f_equal (fun st => match st with StOk _ r _ => length r | _ => 0%nat end) H) as HL.
    cbv beta iota in HL. rewrite skipn_length in HL. cbn [length] in HL. lia.
  - destruct (v7_short puf allow s x Ha Hv (or_intror Hgt)) as [k [Ek _]]. rewrite Ek in H. discriminate.
Qed.

(* an accepted IPFIX message that ends its buffer is max(length field, 16) bytes *)
Lemma ipfix_exact puf allow s x p s' :
  parse_one puf allow s x = StOk (PIx p) [] s' ->
  allow 10 = true /\ firstn 2 x = enc 2 10 /\ length x = N.to_nat (N.max (be (slice x 2 2)) 16).
Proof.
  intro H. pose proof H as H0. apply parse_one_ok_inv in H0. destruct H0 as [v [Hv [Ha Hs]]].
  assert (Hvs : v = 10%N /\ exists sx, parse_ipfix puf (stx s) (skipn 2 x) = (Ok p [], sx)) by (inversion Hs; eauto).
  destruct Hvs as [-> [sx Ep]]. split; [exact Ha|]. split; [exact Hv|].
  apply parse_one_consumes in H. destruct H as [pre [Hx [HL _]]]. rewrite app_nil_r in Hx. subst pre.
  cbn [wire_len] in HL. rewrite HL, ix_wire_max. f_equal. f_equal.
  unfold parse_ipfix in Ep.
  destruct (parse_layout ipfix_header_layout (skipn 2 x)) as [h r1|e] eqn:E1; [|inversion Ep].
  destruct (map_res_take_st _ _ (stx s) r1) as [[sets r2|e] s2] eqn:E2; inversion Ep; subst.
  unfold ix_length. cbn [ix_header]. rewrite (ipfix_header_length _ _ _ E1). reflexivity.
Qed.

Lemma firstn2_cut (x : bytes) c : (2 <= c)%nat -> firstn 2 (firstn c x) = firstn 2 x.
Proof. intro H. rewrite firstn_firstn. now replace (Nat.min 2 c) with 2%nat by lia. Qed.

Lemma fixed_or_ipfix_cut puf allow s x e s' c :
  parse_one puf allow s x = StOk e [] s' -> (forall p, e <> PV9 p) ->
  (0 < c < length x)%nat ->
  exists err, parse_one puf allow s (firstn c x) = StErr (PErr err (firstn c x)) s.
Proof.
  intros H Hn9 [Hc0 Hc].
  assert (HLc : length (firstn c x) = c) by (apply firstn_length_le; lia).
  destruct (Nat.lt_ge_cases c 2) as [H2|H2].
  { rewrite parse_one_short by lia. eauto. }
  destruct e as [p|p|p|p|err b].
  - destruct (v5_exact _ _ _ _ _ _ H) as [Ha [Hv HL]].
    destruct (v5_short puf allow s (firstn c x) Ha) as [k [Ek _]]; [now rewrite firstn2_cut| |eauto].
    rewrite HLc. destruct (Nat.lt_ge_cases c 24) as [H24|H24]; [now left|right].
    rewrite slice_firstn by lia. lia.
  - destruct (v7_exact _ _ _ _ _ _ H) as [Ha [Hv HL]].
    destruct (v7_short puf allow s (firstn c x) Ha) as [k [Ek _]]; [now rewrite firstn2_cut| |eauto].
    rewrite HLc. destruct (Nat.lt_ge_cases c 24) as [H24|H24]; [now left|right].
    rewrite slice_firstn by lia. lia.
  - exfalso. exact (Hn9 p eq_refl).
  - destruct (ipfix_exact _ _ _ _ _ _ H) as [Ha [Hv HL]].
    destruct (ipfix_short puf allow s (firstn c x) Ha) as [k [Ek _]]; [now rewrite firstn2_cut| |eauto].
    rewrite HLc. destruct (Nat.lt_ge_cases c 16) as [H16|H16]; [now left|right].
    rewrite slice_firstn by lia. lia.
  - apply parse_one_consumes in H. destruct H as [_ [_ [_ [He _]]]]. discriminate.
Qed.

Lemma fixed_or_ipfix_cut_bytes puf allow s x e s' c :
  parse_one puf allow s x = StOk e [] s' -> (forall p, e <> PV9 p) ->
  (0 < c < length x)%nat ->
  exists err, parse_bytes puf allow s (firstn c x) = Some [(PErr err (firstn c x), s)].
Proof.
  intros H Hn Hc. destruct (fixed_or_ipfix_cut _ _ _ _ _ _ _ H Hn Hc) as [err E]. exists err.
  unfold parse_bytes. cbn [run].
  destruct (firstn c x) as [|b y] eqn:Ef.
  - exfalso. assert (HL : length (firstn c x) = c) by (apply firstn_length_le; lia). rewrite Ef in HL. cbn in HL. lia.
  - rewrite E. reflexivity.
Qed.
