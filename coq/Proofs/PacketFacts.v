(* Proofs/PacketFacts.v — whole-packet parse-then-print for V9 (C09 at full strength on packets
   whose decoded values are of the lossless kinds) and set-level for IPFIX (C10). *)
From NF Require Import Base Nom Types Layout Value V9 Ipfix Parser Export.
From NF Require Import BaseFacts NomFacts LayoutFacts FixedFacts ValueFacts VarFacts ParserFacts RunFacts TotalFacts ReexportFacts.
From Coq Require Import Lia.
Open Scope string_scope.
Open Scope list_scope.

(* a decoded value whose re-export is exact whatever bytes it came from: decidable on the value *)
Definition lossless_value (v : fval) : bool :=
  match v with
  | VNum (U8 _) | VNum (U16 _) | VNum (U24 _) | VNum (U32 _) | VNum (U64 _) | VNum (U128 _) | VNum (I24 _) => true
  | VNum (I32 _) => false               (* the declared width (1, 2, 4, 8, 16) is not kept *)
  | VIp4 _ | VIp6 _ | VF64 _ | VVec _ => true
  | VProto d => (proto_to_u8 d =? d)%N  (* Unknown (bytes 145..254) goes out as 255 *)
  | VStr _ | VMac _ | VDur _ _ => false
  end.

Lemma dnum_kind len signed i d r :
  dnum_parse len signed i = Ok d r ->
  match d with
  | I32 _ => True
  | I24 _ => signed = true /\ len = 3%N
  | _ => signed = false
  end.
Proof.
  unfold dnum_parse. intro H. destruct len as [|p]; [discriminate|].
  destruct_pos H; destruct signed; try discriminate; apply pmap_ok in H; destruct H as [n [_ ->]]; auto.
Qed.

Lemma reexport_value_kind puf dt len i v r :
  from_field_type puf dt len i = Ok v r -> lossless_value v = true ->
  exists pre, i = pre ++ r /\ fval_to_be v = XOk pre.
Proof.
  intros H Hl. destruct (reexport_value puf dt len i v r H) as [pre [Hi Hex]].
  exists pre. split; [exact Hi|]. apply Hex.
  unfold from_field_type in H. destruct dt; cbn [exact_dtype].
  - apply pmap_ok in H. destruct H as [a [_ ->]]. discriminate.
  - apply pmap_ok in H. destruct H as [d [H ->]]. apply dnum_kind in H.
    destruct d; cbn in Hl; try discriminate; try (destruct H; discriminate).
    destruct H as [_ ->]. reflexivity.
  - reflexivity.
  - reflexivity.
  - apply pmap_ok in H. destruct H as [d [_ ->]]. unfold dur_of in Hl. discriminate.
  - apply pmap_ok in H. destruct H as [d [_ ->]]. unfold dur_of in Hl. discriminate.
  - apply pmap_ok in H. destruct H as [d [_ ->]]. unfold dur_of in Hl. discriminate.
  - apply pmap_ok in H. destruct H as [d [_ ->]]. unfold dur_of in Hl. discriminate.
  - reflexivity.
  - reflexivity.
  - apply pmap_ok in H. destruct H as [a [_ ->]]. discriminate.
  - reflexivity.
  - (* protocol: the byte is the discriminant *)
    destruct (u_s 1 i) as [b r1|e] eqn:E; [|discriminate]. unfold u_s in E.
    destruct (take 1 i) as [[a r']|] eqn:Et; [|discriminate]. inversion E; subst. apply take_spec in Et.
    destruct Et as [Hx HL]. destruct a as [|x [|? ?]]; try discriminate.
    assert (Hb : be [x] = bN x) by (unfold be; cbn; lia). rewrite Hb in H.
    inversion H; subst. apply app_inv_tail in Hx. subst pre.
    unfold proto_decode, proto_parse in *. destruct (memN (bN x) proto_variants); [exact Hl|].
    vm_compute in Hl. discriminate.
  - reflexivity.
Qed.

(* ---- records and data flowsets ---- *)
Definition rec_lossless (rec : list (N * fval)) : bool := forallb (fun tv => lossless_value (snd tv)) rec.
Definition export_rec (rec : list (N * fval)) : xres := xconcat (map (fun tv => fval_to_be (snd tv)) rec).

Lemma parse_record_reexport puf fs : forall i rec r,
  parse_record puf fs i = Ok rec r -> rec_lossless rec = true ->
  exists pre, i = pre ++ r /\ export_rec rec = XOk pre.
Proof.
  induction fs as [|f fs IH]; intros i rec r H Hl; cbn [parse_record] in H.
  - inversion H; subst. exists []. split; reflexivity.
  - destruct (from_field_type _ _ _ i) as [v r1|e] eqn:E1; [|discriminate].
    destruct (parse_record puf fs r1) as [l r2|e] eqn:E2; [|discriminate]. inversion H; subst.
    cbn [rec_lossless forallb snd] in Hl. apply andb_prop in Hl. destruct Hl as [Hv Hl].
    destruct (reexport_value_kind _ _ _ _ _ _ E1 Hv) as [p1 [-> Hb1]].
    destruct (IH _ _ _ E2 Hl) as [p2 [-> Hb2]].
    exists (p1 ++ p2). rewrite <- app_assoc. split; [reflexivity|].
    unfold export_rec in *. cbn [map xconcat snd]. now rewrite Hb1, Hb2.
Qed.

Lemma parse_records_reexport puf n fs : forall i recs r,
  parse_records puf n fs i = (recs, r) -> forallb rec_lossless recs = true ->
  exists pre, i = pre ++ r /\ xconcat (map export_rec recs) = XOk pre.
Proof.
  induction n as [|n IH]; intros i recs r H Hl; cbn [parse_records] in H.
  - inversion H; subst. exists []. split; reflexivity.
  - destruct (parse_record puf fs i) as [rec r1|e] eqn:E1.
    + destruct (parse_records puf n fs r1) as [l r2] eqn:E2. inversion H; subst.
      cbn [forallb] in Hl. apply andb_prop in Hl. destruct Hl as [Hr Hl].
      destruct (parse_record_reexport _ _ _ _ _ E1 Hr) as [p1 [-> Hb1]].
      destruct (IH _ _ _ E2 Hl) as [p2 [-> Hb2]].
      exists (p1 ++ p2). rewrite <- app_assoc. split; [reflexivity|]. cbn [map xconcat]. now rewrite Hb1, Hb2.
    + inversion H; subst. exists []. split; reflexivity.
Qed.

Definition body_lossless (b : v9_body) : bool :=
  match b with V9Data recs _ => forallb rec_lossless recs | _ => true end.

Lemma parse_body_reexport puf id s body b r0 s' :
  parse_body puf id s body = (Ok b r0, s') -> body_lossless b = true -> export_v9_body b = XOk body.
Proof.
  unfold parse_body. destruct (id =? v9_template_id)%N.
  { destruct (parse_templates body) as [[ts pad] r|e] eqn:E; intro H; inversion H; subst. intros _.
    eapply templates_body_exact; eauto. }
  destruct (id =? v9_options_template_id)%N.
  { destruct (parse_otemplates body) as [[ts pad] r|e] eqn:E; intro H; inversion H; subst. intros _.
    eapply otemplates_body_exact; eauto. }
  destruct (lookup id (v9_o s)) as [ot|].
  { intro H. inversion H as [[Hp Hs]]. intros _. eapply odata_body_exact; eauto. }
  destruct (lookup id (v9_t s)) as [t|]; intro H; inversion H; subst. intro Hl.
  unfold parse_data in *.
  destruct (parse_records puf _ (t_fields t) body) as [recs r] eqn:E. cbn [body_lossless] in Hl.
  destruct (parse_records_reexport _ _ _ _ _ _ E Hl) as [pre [-> Hb]].
  cbn [export_v9_body]. unfold xapp. fold export_rec. change (fun rec => xconcat (map (fun tv => fval_to_be (snd tv)) rec)) with export_rec.
  now rewrite Hb.
Qed.

Definition set_lossless (f : v9_flowset) : bool := body_lossless (fs_body f).

Lemma parse_flowset_reexport puf s i f r s' :
  parse_flowset puf s i = (Ok f r, s') -> set_lossless f = true ->
  exists pre, i = pre ++ r /\ export_v9_set f = XOk pre.
Proof.
  intros H Hl. apply parse_flowset_ok in H. destruct H as [body [r0 [-> [_ Hb]]]].
  exists (enc 2 (fs_id f) ++ enc 2 (fs_len f) ++ body). rewrite <- !app_assoc. split; [reflexivity|].
  unfold export_v9_set, xpre. rewrite (parse_body_reexport _ _ _ _ _ _ _ Hb Hl). now rewrite <- app_assoc.
Qed.

Lemma parse_flowsets_reexport puf n : forall s i l r s',
  parse_flowsets puf n s i = (Ok l r, s') -> forallb set_lossless l = true ->
  exists pre, i = pre ++ r /\ xconcat_map export_v9_set l = XOk pre.
Proof.
  induction n as [|n IH]; intros s i l r s' H Hl; cbn [parse_flowsets] in H.
  - inversion H; subst. exists []. split; reflexivity.
  - destruct (is_nil i) eqn:En; [inversion H; subst; exists []; split; reflexivity|].
    destruct (parse_flowset puf s i) as [[f r1|e] s1] eqn:E1; [|inversion H].
    destruct (parse_flowsets puf n s1 r1) as [[l' r2|e] s2] eqn:E2; inversion H; subst.
    cbn [forallb] in Hl. apply andb_prop in Hl. destruct Hl as [Hf Hl].
    destruct (parse_flowset_reexport _ _ _ _ _ _ E1 Hf) as [p1 [-> Hb1]].
    destruct (IH _ _ _ _ _ E2 Hl) as [p2 [-> Hb2]].
    exists (p1 ++ p2). rewrite <- app_assoc. split; [reflexivity|].
    cbn [xconcat_map]. unfold xseq, xpre. now rewrite Hb1, Hb2.
Qed.

Definition v9_lossless (p : v9_packet) : bool := forallb set_lossless (v9_sets p).

Lemma v9_header_export_ok :
  header_shape v9_header_layout 9 2 = true
  /\ nodup_str (map f_name v9_header_layout) = true
  /\ v9_header_export = sel_names (fun _ => true) v9_header_layout.
Proof. repeat split; vm_compute; reflexivity. Qed.

Lemma export_header_bytes L ver vw order h :
  header_shape L ver vw = true -> nodup_str (map f_name L) = true -> order = sel_names (fun _ => true) L ->
  wf_vals L [] h -> export_fields L order h = enc vw ver ++ wire_bytes L h.
Proof.
  intros Hs Hnd -> Hwf. rewrite export_fields_spec; [|symmetry; eapply wf_vals_length; eauto|exact Hnd].
  destruct L as [|f L']; [discriminate|]. cbn [header_shape] in Hs.
  apply andb_prop in Hs. destruct Hs as [Hs Hw]. apply andb_prop in Hs. destruct Hs as [Hk Hvw].
  destruct h as [|v vs]; [cbn in Hwf; contradiction|]. cbn [wf_vals] in Hwf. destruct Hwf as [Hv _].
  destruct (f_kind f) eqn:K; try discriminate. apply N.eqb_eq in Hk. apply Nat.eqb_eq in Hvw. subst.
  cbn [sel_bytes wire_bytes]. unfold on_wire at 1. rewrite K. cbn [app]. now rewrite sel_bytes_all_wire.
Qed.

Lemma parse_v9_reexport puf s i p r s' :
  parse_v9 puf s i = (Ok p r, s') -> v9_lossless p = true ->
  exists pre, i = pre ++ r /\ export_v9 p = XOk (enc 2 9 ++ pre).
Proof.
  unfold parse_v9. intros H Hl.
  destruct (parse_layout v9_header_layout i) as [h r1|e] eqn:E1; [|inversion H].
  destruct (parse_flowsets _ _ s r1) as [[l r2|e] s2] eqn:E2; inversion H; subst.
  unfold parse_layout in E1. apply parse_layout_aux_ok in E1. destruct E1 as [-> Hwf].
  unfold v9_lossless in Hl. cbn [v9_sets] in Hl.
  destruct (parse_flowsets_reexport _ _ _ _ _ _ _ E2 Hl) as [p2 [-> Hb2]].
  exists (wire_bytes v9_header_layout h ++ p2). rewrite <- app_assoc. split; [reflexivity|].
  unfold export_v9, xpre. cbn [v9_header v9_sets]. rewrite Hb2.
  destruct v9_header_export_ok as [Hs [Hnd Ho]].
  rewrite (export_header_bytes _ 9 2 _ h Hs Hnd Ho Hwf). now rewrite <- app_assoc.
Qed.

(* the whole step: a reported V9 packet whose values are of the lossless kinds re-exports to
   exactly the bytes it occupied *)
Lemma v9_step_reexport puf allow s x p rest s' :
  parse_one puf allow s x = StOk (PV9 p) rest s' -> v9_lossless p = true ->
  exists pre, x = pre ++ rest /\ export_v9 p = XOk pre.
Proof.
  intros H Hl. apply parse_one_ok_inv in H. destruct H as [v [Hv [Ha Hs]]]. inversion Hs; subst.
  match goal with E : parse_v9 _ _ _ = _ |- _ => destruct (parse_v9_reexport _ _ _ _ _ _ E Hl) as [pre [Hb Hx]] end.
  exists (enc 2 9 ++ pre). split; [|exact Hx].
  rewrite <- app_assoc, <- Hb, <- Hv. symmetry. apply firstn_skipn.
Qed.

(* ---- IPFIX data sets over templates without variable-length fields ---- *)
Definition ient_lossless (e : ientry) : bool := lossless_value (snd e).

Lemma parse_ivalue_reexport puf f i v r :
  parse_ivalue puf f i = Ok v r -> is_varlen f = false -> lossless_value v = true ->
  exists pre, i = pre ++ r /\ fval_to_be v = XOk pre.
Proof.
  unfold parse_ivalue, bind, parse_field_length, is_varlen. intros H Hv Hl. rewrite Hv in H.
  destruct (if_ent f).
  - apply pmap_ok in H. destruct H as [a [H ->]]. apply take_c_ok in H. destruct H as [-> _].
    exists a. split; reflexivity.
  - eapply reexport_value_kind; eauto.
Qed.

Lemma parse_irecord_reexport puf fs : forall c i ents tk r,
  parse_irecord puf fs c i = Ok (ents, tk) r ->
  forallb is_varlen fs = false \/ True ->
  existsb is_varlen fs = false -> forallb ient_lossless ents = true ->
  exists pre, i = pre ++ r /\ export_ientries ents = XOk pre.
Proof.
  induction fs as [|f fs IH]; intros c i ents tk r H _ Hv Hl; cbn [parse_irecord] in H.
  - inversion H; subst. exists []. split; reflexivity.
  - destruct (parse_ivalue puf f i) as [v r1|e] eqn:E1; [|discriminate].
    destruct (parse_irecord puf fs (c + 1) r1) as [[l [t vt]] r2|e] eqn:E2; [|discriminate]. inversion H; subst.
    cbn [existsb] in Hv. apply orb_false_elim in Hv. destruct Hv as [Hvf Hvs].
    cbn [forallb ient_lossless snd] in Hl. apply andb_prop in Hl. destruct Hl as [Hlv Hls].
    destruct (parse_ivalue_reexport _ _ _ _ _ E1 Hvf Hlv) as [p1 [-> Hb1]].
    destruct (IH _ _ _ _ _ E2 (or_intror I) Hvs Hls) as [p2 [-> Hb2]].
    exists (p1 ++ p2). rewrite <- app_assoc. split; [reflexivity|].
    unfold export_ientries in *. cbn [map xconcat snd]. now rewrite Hb1, Hb2.
Qed.

Lemma export_ientries_app a b pa pb :
  export_ientries a = XOk pa -> export_ientries b = XOk pb -> export_ientries (a ++ b) = XOk (pa ++ pb).
Proof.
  unfold export_ientries. revert pa. induction a as [|e a IH]; intros pa Ha Hb; cbn [app map xconcat] in *.
  - inversion Ha; subst. exact Hb.
  - destruct (fval_to_be (snd e)) as [b0| |]; try discriminate.
    match type of Ha with context [xconcat ?m] => destruct (xconcat m) as [b1| |] eqn:E end; try discriminate.
    inversion Ha; subst. rewrite (IH b1 eq_refl Hb). now rewrite app_assoc.
Qed.

Lemma parse_irecords_reexport puf fs : forall fuel i ents r,
  parse_irecords fuel puf fs i = Ok ents r ->
  existsb is_varlen fs = false -> forallb ient_lossless ents = true ->
  exists pre, i = pre ++ r /\ export_ientries ents = XOk pre.
Proof.
  induction fuel as [|fuel IH]; intros i ents r H Hv Hl; cbn [parse_irecords] in H; [discriminate|].
  destruct (parse_irecord puf fs 0 i) as [[e1 [tk vt]] r1|e] eqn:E; [|discriminate].
  destruct ((0 <? tk)%N && has_at_least _ r1).
  - destruct (parse_irecords fuel puf fs r1) as [more r2|e] eqn:E2; [|discriminate]. inversion H; subst.
    rewrite forallb_app in Hl. apply andb_prop in Hl. destruct Hl as [Hl1 Hl2].
    destruct (parse_irecord_reexport _ _ _ _ _ _ _ E (or_intror I) Hv Hl1) as [p1 [-> Hb1]].
    destruct (IH _ _ _ E2 Hv Hl2) as [p2 [-> Hb2]].
    exists (p1 ++ p2). rewrite <- app_assoc. split; [reflexivity|]. now apply export_ientries_app.
  - inversion H; subst. eapply parse_irecord_reexport; eauto.
Qed.

(* a data set over a template without variable-length fields, all values of lossless kinds:
   values then padding are exactly the set body *)
Lemma parse_idata_reexport puf fs body ents pad r :
  parse_idata puf fs body = Ok (ents, pad) r ->
  existsb is_varlen fs = false -> forallb ient_lossless ents = true ->
  export_ix_body (IxData ents pad) = XOk body.
Proof.
  unfold parse_idata, bind. destruct (is_nil fs); [discriminate|].
  destruct (parse_irecords _ puf fs body) as [e r1|e] eqn:E; [|discriminate]. intros H Hv Hl. inversion H; subst.
  destruct (parse_irecords_reexport _ _ _ _ _ _ E Hv Hl) as [pre [-> Hb]].
  cbn [export_ix_body]. unfold xapp. now rewrite Hb.
Qed.
