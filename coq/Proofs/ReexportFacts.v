(* Proofs/ReexportFacts.v — parse-then-print (C09/C10): which decoded values re-export to exactly
   the bytes they came from (the class predicate exact_dtype, defined once, here), and that
   template records, options-template records and IPFIX field specifiers re-export exactly for
   EVERY accepted input. *)
From NF Require Import Base Nom Types Layout Value V9 Ipfix Parser Export.
From NF Require Import BaseFacts NomFacts ValueFacts TotalFacts.
From Coq Require Import Lia ZifyBool ZifyNat ZifyN.
Ltac Zify.zify_post_hook ::= Z.div_mod_to_equations.
Open Scope list_scope.
Open Scope N_scope.

Fixpoint bytes_eqb (a b : bytes) : bool :=
  match a, b with
  | [], [] => true
  | x :: a', y :: b' => Byte.eqb x y && bytes_eqb a' b'
  | _, _ => false
  end.
Lemma bytes_eqb_eq a : forall b, bytes_eqb a b = true -> a = b.
Proof.
  induction a as [|x a IH]; intros [|y b] H; cbn in H; try discriminate; [reflexivity|].
  apply andb_prop in H. destruct H as [H1 H2]. apply Byte.byte_dec_bl in H1. subst. f_equal. now apply IH.
Qed.

(* THE class predicate of C09/C10: is re-export of a value of this (data type, declared length),
   decoded from the bytes pre, exact?  false = a known-finding class. *)
Definition exact_dtype (dt : dtype) (len : N) (pre : bytes) : bool :=
  match dt with
  | DUnsigned | DIp4 | DIp6 | DFloat64 | DVec | DUnknown => true
  | DSigned => (len =? 3) || (len =? 4)                  (* 1, 2, 8, 16 are widened to 4 bytes *)
  | DString => bytes_eqb (utf8_lossy pre) pre            (* valid UTF-8 only *)
  | DMac => false                                         (* 17 ASCII bytes come back *)
  | DDurSecs => len =? 4                                  (* whole seconds on 4 bytes *)
  | DDurMillis | DDurMicros | DDurNanos => false
  | DProto => match pre with [b] => proto_to_u8 (proto_decode (bN b)) =? bN b | _ => false end   (* 145..254 -> Unknown -> 255 *)
  end.

(* ---- two's complement round trips at the widths that are kept ---- *)
Lemma signed24 n : n < 2 ^ 24 -> of_signed 24 (to_signed 24 n) = n.
Proof.
  intro H. unfold of_signed, to_signed. change (2 ^ (24 - 1)) with 8388608. change (2 ^ 24) with 16777216 in *.
  destruct (n <? 8388608) eqn:E; lia.
Qed.
Lemma signed32 n : n < 2 ^ 32 -> of_signed 32 (to_signed 32 n) = n.
Proof.
  intro H. unfold of_signed, to_signed. change (2 ^ (32 - 1)) with 2147483648. change (2 ^ 32) with 4294967296 in *.
  destruct (n <? 2147483648) eqn:E; lia.
Qed.

Lemma app_eq_len {A} (a b x y : list A) : length a = length b -> a ++ x = b ++ y -> a = b /\ x = y.
Proof.
  revert b. induction a as [|h a IH]; intros [|k b] HL H; cbn in HL; try discriminate; [auto|].
  cbn in H. inversion H; subst. destruct (IH b ltac:(lia) H2) as [-> ->]. auto.
Qed.

Lemma enc_be_w (w : nat) (a : bytes) : length a = w -> enc w (be a) = a.
Proof. intro H. subst w. apply enc_be. Qed.

(* ---- one number ---- *)
Lemma dnum_reexport len signed i d r :
  dnum_parse len signed i = Ok d r ->
  exists pre, i = pre ++ r /\ N.of_nat (length pre) = len
    /\ (signed = false \/ len = 3 \/ len = 4 -> dnum_to_be d = XOk pre).
Proof.
  unfold dnum_parse. intro H. destruct len as [|p]; [discriminate|].
  destruct_pos H; destruct signed; try discriminate;
    apply pmap_ok in H; destruct H as [n [H ->]];
    (unfold u_s in H || unfold u_c in H);
    match type of H with context [take ?w i] => destruct (take w i) as [[a r']|] eqn:Et; [|discriminate] end;
    inversion H; subst; apply take_spec in Et; destruct Et as [-> HL];
    exists a; (split; [reflexivity|]); (split; [rewrite HL; reflexivity|]); intro Hc; cbn [dnum_to_be];
    try (rewrite enc_be_w by exact HL; reflexivity);
    try (destruct Hc as [Hc|[Hc|Hc]]; discriminate).
  - (* 3 bytes signed *) rewrite signed24; [now rewrite enc_be_w|].
    pose proof (be_bound a) as Hb. rewrite HL in Hb. exact Hb.
  - (* 3 bytes unsigned *)
    pose proof (be_bound a) as Hb. rewrite HL in Hb. change (256 ^ N.of_nat 3) with (2 ^ 24) in Hb.
    apply N.ltb_lt in Hb. rewrite Hb. now rewrite enc_be_w.
  - (* 4 bytes signed *) rewrite signed32; [now rewrite enc_be_w|].
    pose proof (be_bound a) as Hb. rewrite HL in Hb. exact Hb.
Qed.

(* ---- one value: exact re-export outside the classes, for every accepted input ---- *)
Lemma reexport_value puf dt len i v r :
  from_field_type puf dt len i = Ok v r ->
  exists pre, i = pre ++ r /\ (exact_dtype dt len pre = true -> fval_to_be v = XOk pre).
Proof.
  unfold from_field_type. intro H. destruct dt; cbn [exact_dtype].
  - apply pmap_ok in H. destruct H as [a [H ->]]. apply take_c_ok in H. destruct H as [-> _].
    exists a. split; [reflexivity|]. intro E. apply bytes_eqb_eq in E. cbn. now rewrite E.
  - apply pmap_ok in H. destruct H as [d [H ->]]. apply dnum_reexport in H. destruct H as [pre [-> [_ Hd]]].
    exists pre. split; [reflexivity|]. intro E. cbn. apply Hd. right.
    apply orb_prop in E. destruct E as [E|E]; apply N.eqb_eq in E; auto.
  - apply pmap_ok in H. destruct H as [d [H ->]]. apply dnum_reexport in H. destruct H as [pre [-> [_ Hd]]].
    exists pre. split; [reflexivity|]. intros _. cbn. apply Hd. now left.
  - apply pmap_ok in H. destruct H as [n [H ->]]. unfold u_s in H.
    destruct (take 8 i) as [[a r']|] eqn:Et; [|discriminate]. inversion H; subst. apply take_spec in Et.
    destruct Et as [-> HL]. exists a. split; [reflexivity|]. intros _. cbn [fval_to_be]. now rewrite enc_be_w.
  - (* seconds: exact on 4 bytes *)
    apply pmap_ok in H. destruct H as [d [H ->]].
    destruct (dnum_reexport _ _ _ _ _ H) as [pre [-> [HL Hd]]].
    exists pre. split; [reflexivity|]. intro E. apply N.eqb_eq in E. rewrite E in H, HL.
    unfold dnum_parse in H. cbv beta iota in H. apply pmap_ok in H. destruct H as [n [H ->]]. unfold u_s in H.
    destruct (take 4 (pre ++ r)) as [[a r']|] eqn:Et; [|discriminate]. inversion H; subst.
    apply take_spec in Et. destruct Et as [Hx HL4].
    assert (Hp : length pre = 4%nat) by lia.
    destruct (app_eq_len a pre r r ltac:(lia) (eq_sym Hx)) as [-> _].
    cbn [dnum_to_usize dur_of fval_to_be].
    pose proof (be_bound pre) as Hb. rewrite Hp in Hb. change (256 ^ N.of_nat 4) with (2 ^ 32) in Hb.
    apply N.ltb_lt in Hb. rewrite Hb. now rewrite enc_be_w.
  - apply pmap_ok in H. destruct H as [d [H ->]]. apply dnum_reexport in H. destruct H as [pre [-> _]].
    exists pre. split; [reflexivity|discriminate].
  - apply pmap_ok in H. destruct H as [d [H ->]]. apply dnum_reexport in H. destruct H as [pre [-> _]].
    exists pre. split; [reflexivity|discriminate].
  - apply pmap_ok in H. destruct H as [d [H ->]]. apply dnum_reexport in H. destruct H as [pre [-> _]].
    exists pre. split; [reflexivity|discriminate].
  - apply pmap_ok in H. destruct H as [n [H ->]]. unfold u_c in H.
    destruct (take 4 i) as [[a r']|] eqn:Et; [|discriminate]. inversion H; subst. apply take_spec in Et.
    destruct Et as [-> HL]. exists a. split; [reflexivity|]. intros _. cbn [fval_to_be]. now rewrite enc_be_w.
  - apply pmap_ok in H. destruct H as [n [H ->]]. unfold u_c in H.
    destruct (take 16 i) as [[a r']|] eqn:Et; [|discriminate]. inversion H; subst. apply take_spec in Et.
    destruct Et as [-> HL]. exists a. split; [reflexivity|]. intros _. cbn [fval_to_be]. now rewrite enc_be_w.
  - apply pmap_ok in H. destruct H as [a [H ->]]. apply take_c_ok in H. destruct H as [-> _].
    exists a. split; [reflexivity|discriminate].
  - apply pmap_ok in H. destruct H as [a [H ->]]. apply take_c_ok in H. destruct H as [-> _].
    exists a. split; [reflexivity|]. intros _. reflexivity.
  - destruct (u_s 1 i) as [b r1|e] eqn:E; [|discriminate]. unfold u_s in E.
    destruct (take 1 i) as [[a r']|] eqn:Et; [|discriminate]. inversion E; subst. apply take_spec in Et.
    destruct Et as [-> HL]. destruct a as [|x [|? ?]]; try discriminate.
    assert (Hb : be [x] = bN x) by (unfold be; cbn; lia). rewrite Hb in H.
    inversion H; subst.
    exists [x]. split; [reflexivity|]. intro Ex. apply N.eqb_eq in Ex. cbn [fval_to_be]. rewrite Ex.
    cbn [enc app]. now rewrite byte_of_bN.
  - destruct puf; [|discriminate]. apply pmap_ok in H. destruct H as [a [H ->]]. apply take_c_ok in H.
    destruct H as [-> _]. exists a. split; [reflexivity|]. intros _. reflexivity.
Qed.

(* ---- many0 / count: parse-then-print lifts to lists ---- *)
Lemma many0_aux_print {A} (p : parser A) (pr : A -> bytes) :
  (forall i a r, p i = Ok a r -> i = pr a ++ r) ->
  forall fuel i l r, many0_aux fuel p i = Ok l r -> i = flat_map pr l ++ r.
Proof.
  intro Hp. induction fuel as [|fuel IH]; intros i l r H; cbn [many0_aux] in H; [discriminate|].
  destruct (p i) as [a r1|e] eqn:E.
  - destruct (shorter r1 i); [|discriminate].
    destruct (many0_aux fuel p r1) as [l' r2|e'] eqn:E2; [|discriminate]. inversion H; subst.
    rewrite (Hp _ _ _ E), (IH _ _ _ E2). cbn [flat_map]. now rewrite app_assoc.
  - destruct e; inversion H; subst; reflexivity.
Qed.

Lemma complete_print {A} (p : parser A) (pr : A -> bytes) :
  (forall i a r, p i = Ok a r -> i = pr a ++ r) -> forall i a r, complete p i = Ok a r -> i = pr a ++ r.
Proof. intros Hp i a r H. unfold complete in H. destruct (p i) as [a' r'|[]] eqn:E; inversion H; subst; eauto. Qed.

Lemma count_print {A} (p : parser A) (pr : A -> bytes) :
  (forall i a r, p i = Ok a r -> i = pr a ++ r) ->
  forall n i l r, count n p i = Ok l r -> i = flat_map pr l ++ r /\ length l = n.
Proof.
  intro Hp. induction n as [|n IH]; intros i l r H; cbn [count] in H.
  - inversion H; subst. split; reflexivity.
  - destruct (p i) as [a r1|e] eqn:E; [|discriminate].
    destruct (count n p r1) as [l' r2|e] eqn:E2; [|discriminate]. inversion H; subst.
    destruct (IH _ _ _ E2) as [-> HL]. rewrite (Hp _ _ _ E). cbn [flat_map length]. rewrite app_assoc. auto.
Qed.

(* ---- V9 template and options-template records: exact for every accepted input ---- *)
Lemma tfield_print i f r : parse_tfield i = Ok f r -> i = export_tfield f ++ r.
Proof.
  unfold parse_tfield, bind. destruct (u_s 2 i) as [n r1|e] eqn:E1; [|discriminate].
  destruct (u_s 2 r1) as [l r2|e] eqn:E2; [|discriminate]. intro H. inversion H; subst.
  apply u_s_ok in E1. destruct E1 as [-> _]. apply u_s_ok in E2. destruct E2 as [-> _].
  unfold export_tfield. cbn [tf_num tf_len]. now rewrite <- app_assoc.
Qed.
Lemma sfield_print i f r : parse_sfield i = Ok f r -> i = export_sfield f ++ r.
Proof.
  unfold parse_sfield, bind. destruct (u_s 2 i) as [n r1|e] eqn:E1; [|discriminate].
  destruct (u_s 2 r1) as [l r2|e] eqn:E2; [|discriminate]. intro H. inversion H; subst.
  apply u_s_ok in E1. destruct E1 as [-> _]. apply u_s_ok in E2. destruct E2 as [-> _].
  unfold export_sfield. cbn [sf_num sf_len]. now rewrite <- app_assoc.
Qed.

Lemma template_print i t r : parse_template i = Ok t r -> i = export_template t ++ r.
Proof.
  unfold parse_template, bind. destruct (u_s 2 i) as [id r1|e] eqn:E1; [|discriminate].
  destruct (u_s 2 r1) as [c r2|e] eqn:E2; [|discriminate].
  destruct (count (N.to_nat c) parse_tfield r2) as [fs r3|e] eqn:E3; [|discriminate].
  intro H. inversion H; subst.
  apply u_s_ok in E1. destruct E1 as [-> _]. apply u_s_ok in E2. destruct E2 as [-> _].
  destruct (count_print parse_tfield export_tfield tfield_print _ _ _ _ E3) as [-> _].
  unfold export_template. cbn [t_id t_count t_fields]. now rewrite <- !app_assoc.
Qed.

Lemma otemplate_print i t r : parse_otemplate i = Ok t r -> i = export_otemplate t ++ r.
Proof.
  unfold parse_otemplate, bind. destruct (u_s 2 i) as [id r1|e] eqn:E1; [|discriminate].
  destruct (u_s 2 r1) as [sl r2|e] eqn:E2; [|discriminate].
  destruct (u_s 2 r2) as [ol r3|e] eqn:E3; [|discriminate].
  destruct (count _ parse_sfield r3) as [sc r4|e] eqn:E4; [|discriminate].
  destruct (count _ parse_tfield r4) as [op r5|e] eqn:E5; [|discriminate].
  intro H. inversion H; subst.
  apply u_s_ok in E1. destruct E1 as [-> _]. apply u_s_ok in E2. destruct E2 as [-> _].
  apply u_s_ok in E3. destruct E3 as [-> _].
  destruct (count_print parse_sfield export_sfield sfield_print _ _ _ _ E4) as [-> _].
  destruct (count_print parse_tfield export_tfield tfield_print _ _ _ _ E5) as [-> _].
  unfold export_otemplate. cbn [ot_id ot_scope_len ot_opt_len ot_scope ot_opts]. now rewrite <- !app_assoc.
Qed.

(* a whole template flowset body, padding (or a torso left by a cut-short record) included *)
Lemma templates_body_exact body ts pad r :
  parse_templates body = Ok (ts, pad) r -> export_v9_body (V9Templates ts pad) = XOk body.
Proof.
  unfold parse_templates, bind, many0. destruct (many0_aux _ _ body) as [l r1|e] eqn:E; [|discriminate].
  intro H. inversion H; subst. cbn [export_v9_body]. f_equal. symmetry.
  exact (many0_aux_print _ export_template (complete_print _ _ template_print) _ _ _ _ E).
Qed.
Lemma otemplates_body_exact body ts pad r :
  parse_otemplates body = Ok (ts, pad) r -> export_v9_body (V9OTemplates ts pad) = XOk body.
Proof.
  unfold parse_otemplates, bind, many0. destruct (many0_aux _ _ body) as [l r1|e] eqn:E; [|discriminate].
  intro H. inversion H; subst. cbn [export_v9_body]. f_equal. symmetry.
  exact (many0_aux_print _ export_otemplate (complete_print _ _ otemplate_print) _ _ _ _ E).
Qed.

(* options data: scope bytes, option bytes, padding *)
Lemma scope_loop_print fs : forall i l r, scope_loop fs i = Ok l r -> i = flat_map snd l ++ r.
Proof.
  induction fs as [|f fs IH]; intros i l r H; cbn [scope_loop] in H; [inversion H; reflexivity|].
  destruct (take_c (sf_len f) i) as [v r1|e] eqn:E; [|inversion H; reflexivity].
  destruct (scope_known (sf_type f)); [|inversion H; reflexivity].
  destruct (shorter r1 i); [|discriminate].
  destruct (scope_loop fs r1) as [l' r2|e] eqn:E2; [|discriminate]. inversion H; subst.
  apply take_c_ok in E. destruct E as [-> _]. rewrite (IH _ _ _ E2). cbn [flat_map snd]. now rewrite app_assoc.
Qed.
Lemma option_loop_print fs : forall i l r, option_loop fs i = Ok l r -> i = flat_map snd l ++ r.
Proof.
  induction fs as [|f fs IH]; intros i l r H; cbn [option_loop] in H; [inversion H; reflexivity|].
  destruct (take_s (tf_len f) i) as [v r1|e] eqn:E; [|inversion H; reflexivity].
  destruct (shorter r1 i); [|discriminate].
  destruct (option_loop fs r1) as [l' r2|e] eqn:E2; [|discriminate]. inversion H; subst.
  apply take_s_ok in E. destruct E as [-> _]. rewrite (IH _ _ _ E2). cbn [flat_map snd]. now rewrite app_assoc.
Qed.
Lemma odata_body_exact t body b r : parse_odata t body = Ok b r -> export_v9_body b = XOk body.
Proof.
  unfold parse_odata, bind. destruct (scope_loop _ body) as [sc r1|e] eqn:E1; [|discriminate].
  destruct (option_loop _ r1) as [op r2|e] eqn:E2; [|discriminate]. intro H. inversion H; subst.
  cbn [export_v9_body]. f_equal. rewrite (scope_loop_print _ _ _ _ E1), (option_loop_print _ _ _ _ E2).
  reflexivity.
Qed.

(* ---- IPFIX field specifiers: the enterprise bit and number come back ---- *)
Lemma ifield_print i f r : parse_ifield i = Ok f r -> i = export_ifield f ++ r.
Proof.
  unfold parse_ifield, bind. destruct (u_s 2 i) as [n r1|e] eqn:E1; [|discriminate].
  destruct (u_s 2 r1) as [l r2|e] eqn:E2; [|discriminate].
  apply u_s_ok in E1. destruct E1 as [-> Hn]. apply u_s_ok in E2. destruct E2 as [-> _].
  destruct (32767 <? n) eqn:Eb.
  - destruct (u_s 4 r2) as [e r3|e] eqn:E3; [|discriminate]. intro H. inversion H; subst.
    apply u_s_ok in E3. destruct E3 as [-> _]. unfold export_ifield. cbn [if_ent if_num if_len].
    apply N.ltb_lt in Eb. replace (n - 32768 + 32768) with n by lia. now rewrite <- !app_assoc.
  - intro H. inversion H; subst. unfold export_ifield. cbn [if_ent if_num if_len]. now rewrite <- app_assoc.
Qed.

Lemma itemplate_body_exact body t r :
  parse_itemplate body = Ok t r -> export_ix_body (IxTemplate t) = XOk body.
Proof.
  unfold parse_itemplate, bind, many0. destruct (u_s 2 body) as [id r1|e] eqn:E1; [|discriminate].
  destruct (u_s 2 r1) as [c r2|e] eqn:E2; [|discriminate].
  destruct (many0_aux _ _ r2) as [fs r3|e] eqn:E3; [|discriminate]. intro H. inversion H; subst.
  apply u_s_ok in E1. destruct E1 as [-> _]. apply u_s_ok in E2. destruct E2 as [-> _].
  cbn [export_ix_body it_id it_count it_fields it_pad]. f_equal.
  rewrite (many0_aux_print _ export_ifield (complete_print _ _ ifield_print) _ _ _ _ E3) at 1.
  rewrite <- ?app_assoc. reflexivity.
Qed.

Lemma iotemplate_body_exact body t r :
  parse_iotemplate body = Ok t r -> export_ix_body (IxOTemplate t) = XOk body.
Proof.
  unfold parse_iotemplate, bind. destruct (u_s 2 body) as [id r1|e] eqn:E1; [|discriminate].
  destruct (u_s 2 r1) as [c r2|e] eqn:E2; [|discriminate].
  destruct (u_s 2 r2) as [sc r3|e] eqn:E3; [|discriminate].
  destruct (count _ parse_ifield r3) as [fs r4|e] eqn:E4; [|discriminate]. intro H. inversion H; subst.
  apply u_s_ok in E1. destruct E1 as [-> _]. apply u_s_ok in E2. destruct E2 as [-> _].
  apply u_s_ok in E3. destruct E3 as [-> _].
  destruct (count_print parse_ifield export_ifield ifield_print _ _ _ _ E4) as [-> _].
  cbn [export_ix_body io_id io_count io_scope_count io_fields io_pad]. f_equal; rewrite <- ?app_assoc; reflexivity.
Qed.

(* ---- the classes are real: one refuting witness each ---- *)
Definition reexports_exactly (puf : bool) (dt : dtype) (len : N) (pre : bytes) : bool :=
  match from_field_type puf dt len pre with
  | Ok v [] => match fval_to_be v with XOk b => bytes_eqb b pre | _ => false end
  | _ => false
  end.
Example refuted_duration_millis : reexports_exactly true DDurMillis 4 [x00; x00; x00; x64] = false.
Proof. vm_compute. reflexivity. Qed.
Example refuted_mac : reexports_exactly true DMac 6 [x00; x1b; x44; x11; x3a; xb7] = false.
Proof. vm_compute. reflexivity. Qed.
Example refuted_string : reexports_exactly true DString 2 [xc3; x28] = false.
Proof. vm_compute. reflexivity. Qed.
Example refuted_proto_145 : reexports_exactly true DProto 1 [x91] = false.
Proof. vm_compute. reflexivity. Qed.
Example refuted_signed_1 : reexports_exactly true DSigned 1 [xff] = false.
Proof. vm_compute. reflexivity. Qed.
Example exact_unsigned_3 : reexports_exactly true DUnsigned 3 [xff; x00; x01] = true.
Proof. vm_compute. reflexivity. Qed.
