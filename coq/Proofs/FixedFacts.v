(* Proofs/FixedFacts.v — V5/V7 (parse_fixed / export_fixed) for arbitrary layouts. *)
From NF Require Import Base Nom Types Layout BaseFacts NomFacts LayoutFacts.
From Coq Require Import Lia.
Open Scope list_scope.

Lemma parse_layout_rest L env i vs r :
  parse_layout_aux L env i = Ok vs r -> r = skipn (wire_width L) i /\ (wire_width L <= length i)%nat.
Proof.
  intro H. apply parse_layout_aux_ok in H. destruct H as [-> Hwf].
  pose proof (wire_bytes_length L vs (wf_vals_length _ _ _ Hwf)) as HL.
  rewrite <- HL, skipn_app, skipn_all, Nat.sub_diag, app_length. cbn. split; [reflexivity|lia].
Qed.

(* ---- count over a layout: succeeds iff n records are there ---- *)
Lemma count_layout_long L n : forall i,
  (n * wire_width L <= length i)%nat ->
  exists l, count n (parse_layout L) i = Ok l (skipn (n * wire_width L) i).
Proof.
  induction n as [|n IH]; intros i H; cbn [count].
  - exists []. reflexivity.
  - unfold parse_layout at 1.
    destruct (parse_layout_aux_long L [] i ltac:(lia)) as [vs [r E]]. rewrite E.
    destruct (parse_layout_rest _ _ _ _ _ E) as [-> _].
    destruct (IH (skipn (wire_width L) i)) as [l El]; [rewrite skipn_length; lia|].
    rewrite El. exists (vs :: l). f_equal. rewrite skipn_skipn. f_equal; cbn; lia.
Qed.

Lemma count_layout_short L n : forall i,
  (length i < n * wire_width L)%nat ->
  exists e, count n (parse_layout L) i = Err e /\ e <> EFuel.
Proof.
  induction n as [|n IH]; intros i H; cbn [count]; [cbn in H; lia|].
  unfold parse_layout at 1.
  destruct (Nat.lt_ge_cases (length i) (wire_width L)) as [Hs|Hl].
  - destruct (parse_layout_aux_short L [] i Hs) as [e [-> He]]. eauto.
  - destruct (parse_layout_aux_long L [] i Hl) as [vs [r E]]. rewrite E.
    destruct (parse_layout_rest _ _ _ _ _ E) as [-> _].
    destruct (IH (skipn (wire_width L) i)) as [e [-> He]]; [rewrite skipn_length; lia|eauto].
Qed.

Lemma count_layout_ok L n : forall i l r,
  count n (parse_layout L) i = Ok l r ->
  i = flat_map (wire_bytes L) l ++ r /\ Forall (wf_vals L []) l /\ length l = n.
Proof.
  induction n as [|n IH]; intros i l r H; cbn [count] in H.
  - inversion H; subst. repeat split; constructor.
  - unfold parse_layout at 1 in H.
    destruct (parse_layout_aux L [] i) as [vs r1|e] eqn:E1; [|discriminate].
    destruct (count n (parse_layout L) r1) as [l' r2|e] eqn:E2; [|discriminate].
    inversion H; subst. apply parse_layout_aux_ok in E1. destruct E1 as [-> Hwf].
    destruct (IH _ _ _ E2) as [-> [HF HL]]. cbn [flat_map]. rewrite <- app_assoc.
    repeat split; [constructor; assumption|cbn; lia].
Qed.

Lemma count_layout_enc L : forall l rest,
  Forall (wf_vals L []) l ->
  count (length l) (parse_layout L) (flat_map (wire_bytes L) l ++ rest) = Ok l rest.
Proof.
  induction l as [|vs l IH]; intros rest H; cbn [length count flat_map]; [reflexivity|].
  inversion H; subst. unfold parse_layout at 1. rewrite <- app_assoc.
  rewrite parse_layout_aux_enc by assumption. now rewrite IH.
Qed.

(* ---- parse_fixed ---- *)
Lemma parse_fixed_ok HL RL cnt i p r :
  parse_fixed HL RL cnt i = Ok p r ->
  i = wire_bytes HL (fx_header p) ++ flat_map (wire_bytes RL) (fx_records p) ++ r
  /\ wf_vals HL [] (fx_header p)
  /\ Forall (wf_vals RL []) (fx_records p)
  /\ length (fx_records p) = N.to_nat (get_field HL (fx_header p) cnt).
Proof.
  unfold parse_fixed, parse_layout at 1. intro H.
  destruct (parse_layout_aux HL [] i) as [h r1|e] eqn:E1; [|discriminate].
  destruct (count _ _ r1) as [recs r2|e] eqn:E2; [|discriminate].
  inversion H; subst. cbn [fx_header fx_records].
  apply parse_layout_aux_ok in E1. destruct E1 as [-> Hwf].
  apply count_layout_ok in E2. destruct E2 as [-> [HF HL']]. auto.
Qed.

Lemma parse_fixed_enc HL RL cnt p rest :
  wf_vals HL [] (fx_header p) ->
  Forall (wf_vals RL []) (fx_records p) ->
  length (fx_records p) = N.to_nat (get_field HL (fx_header p) cnt) ->
  parse_fixed HL RL cnt (wire_bytes HL (fx_header p) ++ flat_map (wire_bytes RL) (fx_records p) ++ rest)
  = Ok p rest.
Proof.
  intros Hh Hr Hc. unfold parse_fixed, parse_layout at 1.
  rewrite parse_layout_aux_enc by assumption. rewrite <- Hc, count_layout_enc by assumption.
  destruct p; reflexivity.
Qed.

Lemma parse_fixed_frames HL RL cnt : frames (parse_fixed HL RL cnt).
Proof.
  intros i p r z H. unfold parse_fixed in *.
  destruct (parse_layout HL i) as [h r1|e] eqn:E1; [|discriminate].
  unfold parse_layout in *.
  rewrite (parse_layout_aux_frames _ _ _ _ _ z E1).
  destruct (count _ _ r1) as [recs r2|e] eqn:E2; [|discriminate].
  rewrite (count_frames _ _ (parse_layout_aux_frames RL []) _ _ _ z E2).
  now inversion H.
Qed.

(* success characterisation, in terms of the header that was decoded *)
Lemma parse_fixed_long HL RL cnt i h r :
  parse_layout HL i = Ok h r ->
  (N.to_nat (get_field HL h cnt) * wire_width RL <= length r)%nat ->
  exists recs, parse_fixed HL RL cnt i
               = Ok {| fx_header := h; fx_records := recs |}
                    (skipn (N.to_nat (get_field HL h cnt) * wire_width RL) r).
Proof.
  intros E H. unfold parse_fixed. rewrite E.
  destruct (count_layout_long RL _ r H) as [l ->]. eauto.
Qed.

Lemma parse_fixed_short HL RL cnt i h r :
  parse_layout HL i = Ok h r ->
  (length r < N.to_nat (get_field HL h cnt) * wire_width RL)%nat ->
  exists e, parse_fixed HL RL cnt i = Err e /\ e <> EFuel.
Proof.
  intros E H. unfold parse_fixed. rewrite E.
  destruct (count_layout_short RL _ r H) as [e [-> He]]. eauto.
Qed.

Lemma parse_fixed_header_short HL RL cnt i :
  (length i < wire_width HL)%nat -> exists e, parse_fixed HL RL cnt i = Err e /\ e <> EFuel.
Proof.
  intro H. unfold parse_fixed, parse_layout.
  destruct (parse_layout_aux_short HL [] i H) as [e [-> He]]. eauto.
Qed.

Lemma parse_fixed_no_fuel HL RL cnt i : parse_fixed HL RL cnt i <> Err EFuel.
Proof.
  unfold parse_fixed. destruct (parse_layout HL i) as [h r|e] eqn:E.
  - destruct (Nat.le_gt_cases (N.to_nat (get_field HL h cnt) * wire_width RL) (length r)) as [Hl|Hs].
    + destruct (count_layout_long RL _ r Hl) as [l ->]. discriminate.
    + destruct (count_layout_short RL _ r Hs) as [e [-> He]]. congruence.
  - unfold parse_layout in E. intro H. inversion H; subst. now apply parse_layout_no_fuel in E.
Qed.

(* ---- the serializer against the wire bytes ---- *)
(* shape of a packet header layout: one injected constant (the version, on `vw` bytes, already
   consumed by the dispatcher) followed by wire fields only *)
Definition header_shape (HL : list fld) (ver : N) (vw : nat) : bool :=
  match HL with
  | f :: HL' => (match f_kind f with KConst n => n =? ver | _ => false end)%N
                && Nat.eqb (f_width f) vw && forallb on_wire HL'
  | [] => false
  end.

Fixpoint list_beq_str (a b : list string) : bool :=
  match a, b with
  | [], [] => true
  | x :: a', y :: b' => String.eqb x y && list_beq_str a' b'
  | _, _ => false
  end.
Lemma list_beq_str_eq a : forall b, list_beq_str a b = true -> a = b.
Proof.
  induction a as [|x a IH]; intros [|y b] H; cbn in H; try discriminate; [reflexivity|].
  apply andb_prop in H. destruct H as [H1 H2]. apply String.eqb_eq in H1. subst. f_equal. now apply IH.
Qed.

Definition export_ok (HL RL : list fld) (HO RO : list string) : bool :=
  nodup_str (map f_name HL) && nodup_str (map f_name RL)
  && list_beq_str HO (sel_names (fun _ => true) HL)
  && list_beq_str RO (sel_names on_wire RL).

Lemma export_fixed_spec HL RL HO RO ver vw p :
  header_shape HL ver vw = true -> export_ok HL RL HO RO = true ->
  wf_vals HL [] (fx_header p) -> Forall (wf_vals RL []) (fx_records p) ->
  export_fixed HL RL HO RO p
  = enc vw ver ++ wire_bytes HL (fx_header p) ++ flat_map (wire_bytes RL) (fx_records p).
Proof.
  intros Hs Ho Hh Hr. unfold export_ok in Ho.
  apply andb_prop in Ho. destruct Ho as [Ho HRO]. apply andb_prop in Ho. destruct Ho as [Ho HHO].
  apply andb_prop in Ho. destruct Ho as [HndH HndR].
  apply list_beq_str_eq in HRO. apply list_beq_str_eq in HHO. subst HO RO.
  unfold export_fixed. rewrite app_assoc. f_equal.
  - rewrite export_fields_spec; [|symmetry; eapply wf_vals_length; eauto|exact HndH].
    destruct HL as [|f HL']; [discriminate|]. cbn [header_shape] in Hs.
    apply andb_prop in Hs. destruct Hs as [Hs Hw]. apply andb_prop in Hs. destruct Hs as [Hk Hvw].
    destruct (fx_header p) as [|v vs]; [cbn in Hh; contradiction|].
    cbn [wf_vals] in Hh. destruct Hh as [Hv _].
    destruct (f_kind f) eqn:K; try discriminate. apply N.eqb_eq in Hk. apply Nat.eqb_eq in Hvw. subst.
    cbn [sel_bytes wire_bytes]. unfold on_wire at 1. rewrite K. cbn [app].
    now rewrite sel_bytes_all_wire.
  - induction Hr as [|r l Hr1 Hr IH]; [reflexivity|]. cbn [flat_map]. rewrite IH. f_equal.
    rewrite export_fields_spec; [apply sel_bytes_wire|symmetry; eapply wf_vals_length; eauto|exact HndR].
Qed.
