(* Proofs/CostFacts.v — C15: outside the zero-length class the number of values a data set /
   data flowset materialises is at most the number of bytes it is decoded from. *)
From NF Require Import Base Nom Types Layout Value V9 Ipfix Parser.
From NF Require Import BaseFacts NomFacts LayoutFacts FixedFacts ValueFacts VarFacts ParserFacts RunFacts TotalFacts.
From Coq Require Import Lia.
Open Scope list_scope.

Lemma consumed_of_pos dt len : (len <> 0)%N -> (1 <= consumed_of dt len)%N.
Proof. intro H. destruct dt; cbn [consumed_of]; lia. Qed.

(* ---- V9 ---- *)
Lemma parse_record_takes puf fs : Forall (fun f => tf_len f <> 0%N) fs ->
  forall i rec r, parse_record puf fs i = Ok rec r ->
  length rec = length fs /\ (length rec + length r <= length i)%nat.
Proof.
  induction 1 as [|f fs Hf Hfs IH]; intros i rec r H; cbn [parse_record] in H.
  - inversion H; subst. cbn. lia.
  - destruct (from_field_type puf (v9_dtype (tf_type f)) (tf_len f) i) as [v r1|e] eqn:E1; [|discriminate].
    destruct (parse_record puf fs r1) as [l r2|e] eqn:E2; [|discriminate]. inversion H; subst.
    apply from_field_type_ok in E1. destruct E1 as [pre [-> [HL _]]].
    pose proof (consumed_of_pos (v9_dtype (tf_type f)) _ Hf) as Hp.
    destruct (IH _ _ _ E2) as [H1 H2]. cbn [length]. rewrite app_length. lia.
Qed.

Lemma parse_records_values puf fs : Forall (fun f => tf_len f <> 0%N) fs ->
  forall n i, let (recs, r) := parse_records puf n fs i in
  (length (List.concat recs) + length r <= length i)%nat.
Proof.
  intros Hfs n. induction n as [|n IH]; intro i; cbn [parse_records]; [cbn; lia|].
  destruct (parse_record puf fs i) as [rec r|e] eqn:E; [|cbn; lia].
  specialize (IH r). destruct (parse_records puf n fs r) as [l r'].
  destruct (parse_record_takes puf fs Hfs _ _ _ E) as [_ H2].
  cbn [List.concat]. rewrite app_length. lia.
Qed.

(* ---- IPFIX ---- *)
Lemma parse_ivalue_takes puf f i v r :
  if_len f <> 0%N -> parse_ivalue puf f i = Ok v r -> (1 + length r <= length i)%nat.
Proof.
  intros Hf. unfold parse_ivalue, bind. destruct (parse_field_length f i) as [len r1|e] eqn:EL; [|discriminate].
  apply parse_field_length_ok in EL. destruct EL as [p1 [-> Hcases]]. intro H.
  assert (Hval : exists p2, r1 = p2 ++ r /\
                 N.of_nat (length p2) = match if_ent f with Some _ => len | None => consumed_of (ipfix_dtype (if_type f)) len end).
  { destruct (if_ent f).
    - apply pmap_ok in H. destruct H as [a [H ->]]. apply take_c_ok in H. destruct H as [-> HL].
      exists a. rewrite HL, N2Nat.id. auto.
    - apply from_field_type_ok in H. destruct H as [p2 [-> [HL _]]]. eauto. }
  destruct Hval as [p2 [-> HL]]. rewrite !app_length.
  destruct Hcases as [[_ [-> ->]]|[[_ [b [_ [-> _]]]]|[_ [l [-> _]]]]]; cbn [length].
  - assert (1 <= N.of_nat (length p2))%N; [|lia]. rewrite HL.
    destruct (if_ent f); [lia|now apply consumed_of_pos].
  - lia.
  - lia.
Qed.

Lemma parse_irecord_takes puf fs : Forall (fun f => if_len f <> 0%N) fs ->
  forall c i ents tk r, parse_irecord puf fs c i = Ok (ents, tk) r ->
  (length ents + length r <= length i)%nat.
Proof.
  induction 1 as [|f fs Hf Hfs IH]; intros c i ents tk r H; cbn [parse_irecord] in H.
  - inversion H; subst. cbn. lia.
  - destruct (parse_ivalue puf f i) as [v r1|e] eqn:E1; [|discriminate].
    destruct (parse_irecord puf fs (c + 1) r1) as [[l [t vt]] r2|e] eqn:E2; [|discriminate].
    inversion H; subst. apply (parse_ivalue_takes _ _ _ _ _ Hf) in E1. apply IH in E2. cbn [length]. lia.
Qed.

Lemma parse_irecords_values puf fs : Forall (fun f => if_len f <> 0%N) fs ->
  forall fuel i ents r, parse_irecords fuel puf fs i = Ok ents r ->
  (length ents + length r <= length i)%nat.
Proof.
  intros Hfs fuel. induction fuel as [|fuel IH]; intros i ents r H; cbn [parse_irecords] in H; [discriminate|].
  destruct (parse_irecord puf fs 0 i) as [[e1 [taken vt]] r1|e] eqn:E; [|discriminate].
  apply (parse_irecord_takes puf fs Hfs) in E.
  destruct ((0 <? taken)%N && has_at_least _ r1).
  - destruct (parse_irecords fuel puf fs r1) as [more r2|e] eqn:E2; [|discriminate]. inversion H; subst.
    apply IH in E2. rewrite app_length. lia.
  - inversion H; subst. lia.
Qed.
