(* Proofs/CutFacts.v — C14 for V9 at packet level: a valid packet cut anywhere except on a
   flowset boundary is an error. *)
From NF Require Import Base Nom Types Layout Value V9 Ipfix Parser.
From NF Require Import BaseFacts NomFacts LayoutFacts FixedFacts VarFacts ParserFacts RunFacts C03Proofs C08Proofs C14Proofs.
From Coq Require Import Lia.
Open Scope string_scope.
Open Scope list_scope.

Lemma parse_flowset_bounds puf s i f r s' :
  parse_flowset puf s i = (Ok f r, s') -> (fs_id f < 65536 /\ fs_len f < 65536)%N.
Proof.
  unfold parse_flowset. intro H.
  destruct (u_s 2 i) as [id r1|e] eqn:E1; [|inversion H].
  destruct (u_s 2 r1) as [len r2|e] eqn:E2; [|inversion H].
  destruct (map_res_take_st _ _ s r2) as [[b r3|e] s3]; inversion H; subst. cbn [fs_id fs_len].
  apply u_s_ok in E1. apply u_s_ok in E2. change (256 ^ N.of_nat 2)%N with 65536%N in *. tauto.
Qed.

(* re-parsing exactly the bytes a flowset occupied gives the same flowset and nothing left *)
Lemma parse_flowset_exact puf s i f r s' :
  parse_flowset puf s i = (Ok f r, s') ->
  exists pre, i = pre ++ r /\ length pre = flowset_wire f /\ parse_flowset puf s pre = (Ok f [], s')
    /\ (4 <= length pre)%nat /\ be (slice pre 2 2) = fs_len f.
Proof.
  intro H. pose proof (parse_flowset_bounds _ _ _ _ _ _ H) as [Hid Hlen].
  pose proof (parse_flowset_ok _ _ _ _ _ _ H) as [body [r0 [-> [HL Hb]]]].
  exists (enc 2 (fs_id f) ++ enc 2 (fs_len f) ++ body). rewrite <- !app_assoc.
  split; [reflexivity|]. split; [unfold flowset_wire; rewrite !app_length, !enc_length, HL; lia|].
  split; [|split].
  - unfold parse_flowset. rewrite u_s_enc by exact Hid. rewrite u_s_enc by exact Hlen.
    unfold map_res_take_st. rewrite <- (app_nil_r body) at 1. rewrite take_c_app by exact HL. rewrite Hb.
    destruct f; reflexivity.
  - rewrite !app_length, !enc_length. lia.
  - unfold slice. rewrite skipn_enc_app, firstn_enc_app. now apply be_enc_small.
Qed.

(* offsets (within the flowset area) at which a cut leaves whole flowsets only *)
Fixpoint boundaries (l : list v9_flowset) (off : nat) : list nat :=
  match l with
  | [] => [off]
  | f :: l' => off :: boundaries l' (off + flowset_wire f)
  end.

Lemma firstn_app_le {A} (a b : list A) n : (n <= length a)%nat -> firstn n (a ++ b) = firstn n a.
Proof. intro H. rewrite firstn_app. replace (n - length a)%nat with O by lia. cbn. now rewrite app_nil_r. Qed.
Lemma firstn_app_ge {A} (a b : list A) n : (length a <= n)%nat -> firstn n (a ++ b) = a ++ firstn (n - length a) b.
Proof. intro H. rewrite firstn_app. now rewrite firstn_all2 by lia. Qed.

Lemma slice_firstn (x : bytes) c off w : (off + w <= c)%nat -> slice (firstn c x) off w = slice x off w.
Proof.
  intro H. unfold slice. rewrite skipn_firstn_comm, firstn_firstn. f_equal. lia.
Qed.

Lemma parse_flowsets_cut puf n : forall s i l s' c off,
  parse_flowsets puf n s i = (Ok l [], s') -> (c < length i)%nat -> ~ In (off + c)%nat (boundaries l off) ->
  exists e s'', parse_flowsets puf n s (firstn c i) = (Err e, s'') /\ e <> EFuel.
Proof.
  induction n as [|n IH]; intros s i l s' c off H Hc Hnb; cbn [parse_flowsets] in H.
  - inversion H; subst. cbn in Hc. lia.
  - destruct i as [|b0 i0]; [cbn in Hc; lia|]. cbn [is_nil] in H. set (i := b0 :: i0) in *.
    destruct (parse_flowset puf s i) as [[f r1|e] s1] eqn:E1; [|inversion H].
    destruct (parse_flowsets puf n s1 r1) as [[l' r2|e] s2] eqn:E2; inversion H; subst.
    destruct (parse_flowset_exact _ _ _ _ _ _ E1) as [pre [Hi [HLp [Hex [H4 Hlen]]]]].
    cbn [boundaries] in Hnb.
    assert (Hc0 : c <> O) by (intro; subst c; apply Hnb; left; lia).
    destruct (Nat.lt_ge_cases c (length pre)) as [Hlt|Hge].
    + (* the cut is inside this flowset *)
      assert (Hf : exists e, parse_flowset puf s (firstn c i) = (Err e, s) /\ e <> EFuel).
      { apply v9_flowset_short.
        - intro Hn. apply (f_equal (@length byte)) in Hn. rewrite firstn_length_le in Hn by lia. cbn in Hn. lia.
        - rewrite firstn_length_le by lia.
          destruct (Nat.lt_ge_cases c 4) as [H3|H3]; [left; exact H3|right].
          rewrite slice_firstn by lia.
          assert (Hpi : pre = firstn (length pre) i) by (rewrite Hi, firstn_app_le, firstn_all; auto).
          rewrite Hpi in Hlen. rewrite slice_firstn in Hlen by lia. rewrite Hlen.
          unfold flowset_wire in HLp. lia. }
      destruct Hf as [e [Hf He]]. exists e, s. split; [|exact He].
      cbn [parse_flowsets]. destruct (firstn c i) eqn:Ef.
      * apply (f_equal (@length byte)) in Ef. rewrite firstn_length_le in Ef by lia. cbn in Ef. lia.
      * cbn [is_nil]. now rewrite Hf.
    + (* the cut is after this flowset: it parses as before, the rest is cut *)
      rewrite Hi, firstn_app_ge by exact Hge.
      pose proof (parse_flowset_frames _ _ _ _ _ _ (firstn (c - length pre) r1) Hex) as Hfr. cbn [app] in Hfr.
      assert (Hc' : (c - length pre < length r1)%nat).
      { rewrite Hi, app_length in Hc. lia. }
      assert (Hnb' : ~ In (off + flowset_wire f + (c - length pre))%nat (boundaries l' (off + flowset_wire f))).
      { intro Hin. apply Hnb. right. replace (off + c)%nat with (off + flowset_wire f + (c - length pre))%nat by lia. exact Hin. }
      destruct (IH s1 r1 l' s' (c - length pre)%nat (off + flowset_wire f)%nat E2 Hc' Hnb') as [e [s'' [He1 He2]]].
      exists e, s''. split; [|exact He2]. cbn [parse_flowsets].
      destruct (pre ++ firstn (c - length pre) r1) eqn:Ep.
      * apply (f_equal (@length byte)) in Ep. rewrite app_length in Ep. cbn in Ep. lia.
      * cbn [is_nil]. rewrite Hfr, He1. reflexivity.
Qed.

Lemma boundaries_shift l : forall off d, boundaries l (off + d) = map (fun b => b + d)%nat (boundaries l off).
Proof.
  induction l as [|f l IH]; intros off d; cbn [boundaries map]; [reflexivity|].
  f_equal. replace (off + d + flowset_wire f)%nat with (off + flowset_wire f + d)%nat by lia. apply IH.
Qed.

Lemma parse_v9_cut puf s w p s' c :
  parse_v9 puf s w = (Ok p [], s') -> (c < length w)%nat -> ~ In c (boundaries (v9_sets p) 18) ->
  exists e s'', parse_v9 puf s (firstn c w) = (Err e, s'') /\ e <> EFuel.
Proof.
  unfold parse_v9. intros H Hc Hnb.
  destruct (parse_layout v9_header_layout w) as [h r1|e] eqn:E1; [|inversion H].
  destruct (parse_flowsets _ _ s r1) as [[l r2|e] s2] eqn:E2; inversion H; subst. cbn [v9_sets] in Hnb.
  unfold parse_layout in *. pose proof (parse_layout_aux_ok _ _ _ _ _ E1) as [Hw Hwf].
  pose proof (wire_bytes_length _ _ (wf_vals_length _ _ _ Hwf)) as HL. rewrite v9_header_width in HL.
  destruct (Nat.lt_ge_cases c 18) as [Hlt|Hge].
  - destruct (parse_layout_aux_short v9_header_layout [] (firstn c w)) as [e [Ee He]].
    { rewrite v9_header_width, firstn_length_le by lia. exact Hlt. }
    rewrite Ee. eauto.
  - rewrite Hw, firstn_app_ge by lia. rewrite HL.
    rewrite (parse_layout_aux_enc _ _ _ _ Hwf).
    assert (Hc' : (c - 18 < length r1)%nat) by (rewrite Hw, app_length in Hc; lia).
    assert (Hnb' : ~ In (18 + (c - 18))%nat (boundaries l 18)) by (replace (18 + (c - 18))%nat with c by lia; exact Hnb).
    destruct (parse_flowsets_cut puf _ s r1 l s' (c - 18)%nat 18%nat E2 Hc' Hnb') as [e [s'' [He1 He2]]].
    rewrite He1. eauto.
Qed.

(* the whole step: a V9 packet that ends its buffer, cut strictly inside and not on a flowset
   boundary (offsets from the start of the packet: 20, 20 + first flowset, ...), is reported as
   one Error whose remaining is the truncated packet *)
Lemma v9_step_cut puf allow s x p s' c :
  parse_one puf allow s x = StOk (PV9 p) [] s' ->
  (0 < c < length x)%nat -> ~ In c (boundaries (v9_sets p) 20) ->
  exists err s'', parse_one puf allow s (firstn c x) = StErr (PErr err (firstn c x)) s''.
Proof.
  intros H [Hc0 Hc] Hnb. apply parse_one_ok_inv in H. destruct H as [v [Hv [Ha Hs]]]. inversion Hs; subst.
  match goal with E : parse_v9 _ _ _ = _ |- _ => rename E into Ep end.
  destruct (Nat.lt_ge_cases c 2) as [H2|H2].
  - rewrite parse_one_short by (rewrite firstn_length_le; lia). eauto.
  - assert (Hx : x = enc 2 9 ++ skipn 2 x) by (rewrite <- Hv; symmetry; apply firstn_skipn).
    assert (Hf : firstn 2 (firstn c x) = enc 2 9) by (rewrite firstn_firstn; replace (Nat.min 2 c) with 2%nat by lia; exact Hv).
    rewrite (parse_one_v9 _ _ _ _ Ha Hf).
    assert (Hsk : skipn 2 (firstn c x) = firstn (c - 2) (skipn 2 x)) by apply skipn_firstn_comm.
    rewrite Hsk.
    assert (Hlen : length x = (2 + length (skipn 2 x))%nat) by (rewrite Hx at 1; rewrite app_length, enc_length; reflexivity).
    destruct (parse_v9_cut puf (st9 s) (skipn 2 x) p s9 (c - 2)%nat Ep ltac:(lia)) as [e [s'' [He _]]].
    + intro Hin. apply Hnb. replace 20%nat with (18 + 2)%nat by reflexivity. rewrite boundaries_shift.
      apply in_map_iff. exists (c - 2)%nat. split; [lia|exact Hin].
    + rewrite He. eauto.
Qed.
