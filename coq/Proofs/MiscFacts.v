(* Proofs/MiscFacts.v — lemmas for C13 (common view), C15 (size bounds), C16 (JSON shape),
   C17 (feature off). *)
From NF Require Import Base Nom Types Layout Value V9 Ipfix Parser Export Common Json.
From NF Require Import BaseFacts NomFacts LayoutFacts FixedFacts ValueFacts VarFacts ParserFacts RunFacts TotalFacts.
From Coq Require Import Lia.
Open Scope string_scope.
Open Scope list_scope.

(* ---- C13: field selection by type ---- *)
Lemma get_last_none d rec : get_last d rec = None <-> Forall (fun tv : N * fval => fst tv <> d) rec.
Proof.
  induction rec as [|[t v] rec IH]; cbn [get_last]; [split; [constructor|reflexivity]|].
  destruct (get_last d rec) as [x|] eqn:E.
  - split; [discriminate|]. intro H. inversion H; subst. apply IH in H3. discriminate.
  - destruct (N.eqb_spec t d) as [->|Hne].
    + split; [discriminate|]. intro H. inversion H; subst. cbn in H2. contradiction.
    + split; [|reflexivity]. intros _. constructor; [exact Hne|]. now apply IH.
Qed.

Lemma get_last_some d rec v : get_last d rec = Some v -> In (d, v) rec.
Proof.
  induction rec as [|[t x] rec IH]; cbn [get_last]; [discriminate|].
  destruct (get_last d rec) as [y|] eqn:E.
  - intro H. inversion H; subst. right. now apply IH.
  - destruct (N.eqb_spec t d) as [->|Hne]; [|discriminate]. intro H. inversion H; subst. now left.
Qed.

(* ---- C15: output size against bytes present ---- *)
Lemma parse_records_count puf n fs : forall i, (length (fst (parse_records puf n fs i)) <= n)%nat.
Proof.
  induction n as [|n IH]; intro i; cbn [parse_records]; [cbn; lia|].
  destruct (parse_record puf fs i) as [rec r|e]; [|cbn; lia].
  specialize (IH r). destruct (parse_records puf n fs r) as [l r']. cbn [fst length] in *. lia.
Qed.

Lemma parse_irecord_entries puf fs : forall c i ents tk r,
  parse_irecord puf fs c i = Ok (ents, tk) r -> length ents = length fs.
Proof.
  induction fs as [|f fs IH]; intros c i ents tk r H; cbn [parse_irecord] in H.
  - inversion H; reflexivity.
  - destruct (parse_ivalue puf f i) as [v r1|e]; [|discriminate].
    destruct (parse_irecord puf fs (c + 1) r1) as [[l [t vt]] r2|e] eqn:E; [|discriminate].
    inversion H; subst. cbn [length]. f_equal. eapply IH; eauto.
Qed.

(* a data set of n bytes yields at most (n + 1) passes over the template *)
Lemma parse_irecords_entries puf fs : forall fuel i ents r,
  parse_irecords fuel puf fs i = Ok ents r -> (length ents <= (length i + 1) * length fs)%nat.
Proof.
  induction fuel as [|fuel IH]; intros i ents r H; cbn [parse_irecords] in H; [discriminate|].
  destruct (parse_irecord puf fs 0 i) as [[e1 [taken vt]] r1|e] eqn:E; [|discriminate].
  pose proof (parse_irecord_entries _ _ _ _ _ _ _ E) as HL.
  apply parse_irecord_ok in E. destruct E as [pre [-> [Hpre _]]].
  destruct (0 <? taken)%N eqn:Ht; cbn [andb] in H.
  - destruct (has_at_least _ r1).
    + destruct (parse_irecords fuel puf fs r1) as [more r2|e] eqn:E2; [|discriminate]. inversion H; subst.
      apply IH in E2. rewrite !app_length. apply N.ltb_lt in Ht. nia.
    + inversion H; subst. rewrite app_length. nia.
  - inversion H; subst. rewrite app_length. nia.
Qed.

(* ---- C16: records list their fields in template order under decimal-index keys ---- *)
Lemma json_record_nth vs rec : forall k j,
  nth_error (json_record vs k rec) j =
  option_map (fun tv : N * fval => (dec_string (k + N.of_nat j), JArr [JStr (variant_name vs (fst tv)); json_fval (snd tv)]))
             (nth_error rec j).
Proof.
  induction rec as [|[t v] rec IH]; intros k j; cbn [json_record].
  - destruct j; reflexivity.
  - destruct j as [|j]; cbn [nth_error option_map fst snd].
    + now rewrite N.add_0_r.
    + rewrite IH. destruct (nth_error rec j); cbn [option_map]; [|reflexivity]. do 3 f_equal. lia.
Qed.

Lemma json_record_length vs rec : forall k, length (json_record vs k rec) = length rec.
Proof. induction rec as [|[t v] rec IH]; intro k; cbn [json_record length]; [reflexivity|]. now rewrite IH. Qed.

(* ---- C17: parse_unknown_fields off ---- *)
Lemma from_field_type_puf dt len i : dt <> DUnknown -> from_field_type false dt len i = from_field_type true dt len i.
Proof. intro H. destruct dt; try reflexivity. contradiction. Qed.

Lemma from_field_type_off_unknown len i : from_field_type false DUnknown len i = Err EError.
Proof. reflexivity. Qed.

Definition v9_known (f : tfield) : Prop := v9_dtype (tf_type f) <> DUnknown.
Definition ix_known (f : ifield) : Prop := if_ent f <> None \/ ipfix_dtype (if_type f) <> DUnknown.

Lemma parse_record_puf fs : Forall v9_known fs -> forall i, parse_record false fs i = parse_record true fs i.
Proof.
  induction 1 as [|f fs Hf Hfs IH]; intro i; cbn [parse_record]; [reflexivity|].
  rewrite (from_field_type_puf _ _ _ Hf). destruct (from_field_type true _ _ i) as [v r|e]; [|reflexivity].
  now rewrite IH.
Qed.

Lemma parse_records_puf n fs : Forall v9_known fs -> forall i, parse_records false n fs i = parse_records true n fs i.
Proof.
  intro H. induction n as [|n IH]; intro i; cbn [parse_records]; [reflexivity|].
  rewrite (parse_record_puf fs H). destruct (parse_record true fs i) as [rec r|e]; [|reflexivity]. now rewrite IH.
Qed.

Lemma parse_data_puf t i : Forall v9_known (t_fields t) -> parse_data false t i = parse_data true t i.
Proof. intro H. unfold parse_data. now rewrite parse_records_puf. Qed.

Lemma parse_record_off_unknown fs : Exists (fun f => v9_dtype (tf_type f) = DUnknown) fs ->
  forall i, exists e, parse_record false fs i = Err e.
Proof.
  induction 1 as [f fs Hf|f fs Hex IH]; intro i; cbn [parse_record].
  - rewrite Hf. cbn. eauto.
  - destruct (from_field_type false _ _ i) as [v r|e]; [|eauto].
    destruct (IH r) as [e ->]. eauto.
Qed.

Lemma parse_records_off_unknown n fs i : Exists (fun f => v9_dtype (tf_type f) = DUnknown) fs ->
  parse_records false n fs i = ([], i).
Proof.
  intro H. destruct n; cbn [parse_records]; [reflexivity|].
  destruct (parse_record_off_unknown fs H i) as [e ->]. reflexivity.
Qed.

Lemma parse_ivalue_puf f i : ix_known f -> parse_ivalue false f i = parse_ivalue true f i.
Proof.
  intros [Hk|Hk]; unfold parse_ivalue, bind; destruct (parse_field_length f i) as [len r|e]; try reflexivity.
  - destruct (if_ent f); [reflexivity|contradiction].
  - destruct (if_ent f); [reflexivity|]. now apply from_field_type_puf.
Qed.

Lemma parse_irecord_puf fs : Forall ix_known fs -> forall c i, parse_irecord false fs c i = parse_irecord true fs c i.
Proof.
  induction 1 as [|f fs Hf Hfs IH]; intros c i; cbn [parse_irecord]; [reflexivity|].
  rewrite (parse_ivalue_puf _ _ Hf). destruct (parse_ivalue true f i) as [v r|e]; [|reflexivity]. now rewrite IH.
Qed.

Lemma parse_irecords_puf fs : Forall ix_known fs -> forall fuel i, parse_irecords fuel false fs i = parse_irecords fuel true fs i.
Proof.
  intro H. induction fuel as [|fuel IH]; intro i; cbn [parse_irecords]; [reflexivity|].
  rewrite (parse_irecord_puf fs H). destruct (parse_irecord true fs 0 i) as [[ents [tk vt]] r|e]; [|reflexivity].
  destruct ((0 <? tk)%N && has_at_least _ r); [|reflexivity]. now rewrite IH.
Qed.

Lemma parse_ivalue_off_unknown f i :
  if_ent f = None -> ipfix_dtype (if_type f) = DUnknown -> exists e, parse_ivalue false f i = Err e.
Proof.
  intros He Hd. unfold parse_ivalue, bind. destruct (parse_field_length f i) as [len r|e]; [|eauto].
  rewrite He, Hd. cbn. eauto.
Qed.

Lemma parse_irecord_off_unknown fs :
  Exists (fun f => if_ent f = None /\ ipfix_dtype (if_type f) = DUnknown) fs ->
  forall c i, exists e, parse_irecord false fs c i = Err e.
Proof.
  induction 1 as [f fs [He Hd]|f fs Hex IH]; intros c i; cbn [parse_irecord].
  - destruct (parse_ivalue_off_unknown f i He Hd) as [e ->]. eauto.
  - destruct (parse_ivalue false f i) as [v r|e]; [|eauto].
    destruct (IH (c + 1)%N r) as [e ->]. eauto.
Qed.
