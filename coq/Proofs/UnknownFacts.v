(* Proofs/UnknownFacts.v — C07 at packet level for V9: flowsets before the offending one are
   processed (their templates learned), the data flowset for an id the parser has no template for
   makes the whole packet one Error, and nothing after it is looked at. *)
From NF Require Import Base Nom Types Layout Value V9 Ipfix Parser.
From NF Require Import BaseFacts NomFacts LayoutFacts VarFacts CacheFacts ParserFacts.
From Coq Require Import Lia.
Open Scope string_scope.
Open Scope list_scope.

Lemma parse_flowsets_add puf : forall n k s i,
  parse_flowsets puf (n + k) s i =
  match parse_flowsets puf n s i with
  | (Ok l r, s1) =>
      match parse_flowsets puf k s1 r with
      | (Ok l' r', s2) => (Ok (l ++ l') r', s2)
      | (Err e, s2) => (Err e, s2)
      end
  | (Err e, s1) => (Err e, s1)
  end.
Proof.
  induction n as [|n IH]; intros k s i.
  - cbn [Nat.add parse_flowsets]. destruct (parse_flowsets puf k s i) as [[l' r'|e] s2]; reflexivity.
  - cbn [Nat.add parse_flowsets]. destruct (is_nil i) eqn:En.
    + destruct i; [|discriminate]. destruct k; cbn [parse_flowsets is_nil]; reflexivity.
    + destruct (parse_flowset puf s i) as [[f r|e] s1]; [|reflexivity].
      rewrite IH. destruct (parse_flowsets puf n s1 r) as [[l r2|e] s2]; [|reflexivity].
      destruct (parse_flowsets puf k s2 r2) as [[l' r'|e] s3]; reflexivity.
Qed.

(* the flowsets before the offending one decode; the offending one is data for an unknown id *)
Lemma parse_flowsets_unknown puf n m s i l r s1 id len r1 r2 :
  parse_flowsets puf n s i = (Ok l r, s1) ->
  u_s 2 r = Ok id r1 -> u_s 2 r1 = Ok len r2 ->
  id <> v9_template_id -> id <> v9_options_template_id ->
  lookup id (v9_o s1) = None -> lookup id (v9_t s1) = None ->
  parse_flowsets puf (n + S m) s i = (Err EError, s1).
Proof.
  intros Hn H1 H2 Ht Ho Hlo Hlt. rewrite parse_flowsets_add, Hn.
  pose proof (parse_flowset_unknown puf s1 r id len r1 r2 H1 H2 Ht Ho Hlo Hlt) as Hu.
  cbn [parse_flowsets]. destruct r as [|b r']; [discriminate|]. cbn [is_nil]. now rewrite Hu.
Qed.

Lemma parse_v9_unknown puf s body h r0 n m l r s1 id len r1 r2 :
  parse_layout v9_header_layout body = Ok h r0 ->
  N.to_nat (get_field v9_header_layout h "count") = (n + S m)%nat ->
  parse_flowsets puf n s r0 = (Ok l r, s1) ->
  u_s 2 r = Ok id r1 -> u_s 2 r1 = Ok len r2 ->
  id <> v9_template_id -> id <> v9_options_template_id ->
  lookup id (v9_o s1) = None -> lookup id (v9_t s1) = None ->
  parse_v9 puf s body = (Err EError, s1).
Proof.
  intros Hh Hc Hn H1 H2 Ht Ho Hlo Hlt. unfold parse_v9. rewrite Hh, Hc.
  now rewrite (parse_flowsets_unknown puf n m s r0 l r s1 id len r1 r2 Hn H1 H2 Ht Ho Hlo Hlt).
Qed.

(* the whole step: one Error element carrying the buffer from this packet on; the caches are what
   the flowsets before the offending one made them *)
Lemma parse_one_v9_unknown puf allow s x h r0 n m l r s1 id len r1 r2 :
  allow 9%N = true -> firstn 2 x = enc 2 9 ->
  parse_layout v9_header_layout (skipn 2 x) = Ok h r0 ->
  N.to_nat (get_field v9_header_layout h "count") = (n + S m)%nat ->
  parse_flowsets puf n (st9 s) r0 = (Ok l r, s1) ->
  u_s 2 r = Ok id r1 -> u_s 2 r1 = Ok len r2 ->
  id <> v9_template_id -> id <> v9_options_template_id ->
  lookup id (v9_o s1) = None -> lookup id (v9_t s1) = None ->
  parse_one puf allow s x = StErr (PErr (NPartial 9 (skipn 2 x) EError) x) {| st9 := s1; stx := stx s |}.
Proof.
  intros Ha Hv Hh Hc Hn H1 H2 Ht Ho Hlo Hlt. rewrite (parse_one_v9 puf allow s x Ha Hv).
  now rewrite (parse_v9_unknown puf (st9 s) _ h r0 n m l r s1 id len r1 r2 Hh Hc Hn H1 H2 Ht Ho Hlo Hlt).
Qed.
