(* Proofs/ExampleFacts.v — the concrete packets used as non-vacuity examples, proved conformant
   once so that the buffer-level example can chain them (the Props files repeat the statements). *)
From NF Require Import Base Nom Types Layout Value V9 Ipfix Interp V9Stream IxStream.
From NF Require Import LayoutFacts DecodeFacts StreamFacts IxStreamFacts.
From Coq Require Import Lia.
Open Scope list_scope.

Lemma ex_v9_packet :
  let t1 := {| t_id := 256; t_count := 2;
               t_fields := [ {| tf_num := 8; tf_type := v9_from_u16 8; tf_len := 4 |};
                             {| tf_num := 7; tf_type := v9_from_u16 7; tf_len := 2 |} ] |}%N in
  let t2 := {| t_id := 257; t_count := 1;
               t_fields := [ {| tf_num := 1; tf_type := v9_from_u16 1; tf_len := 3 |} ] |}%N in
  let l := [ FTemplates [t1; t2];
             FData 256 [ [[x0a; x00; x00; x01]; [x01; xbb]]; [[x0a; x00; x00; x02]; [x00; x35]] ] [];
             FData 257 [ [[xff; x00; x01]] ] [x00] ]%N in
  conformant_stream true v9_empty l
  /\ exists xs s', expect_stream v9_empty l = Some (xs, s') /\ length xs = 3%nat.
Proof.
  cbn zeta.
  assert (Hk : forall fs, all_known_or_puf true fs) by (intro fs; apply Forall_forall; intros; reflexivity).
  assert (Hwt : forall n l, (n < 65536)%N -> (l < 65536)%N ->
                wf_tfield {| tf_num := n; tf_type := v9_from_u16 n; tf_len := l |}) by (intros; repeat split; assumption).
  split.
  - cbn [conformant_stream]. split; [|split; [|split; [|exact I]]].
    + split; [vm_compute; reflexivity|]. constructor; [|constructor; [|constructor]].
      * split; [vm_compute; reflexivity|]. split; [reflexivity|]. split; [vm_compute; reflexivity|].
        constructor; [apply Hwt; vm_compute; reflexivity|constructor; [apply Hwt; vm_compute; reflexivity|constructor]].
      * split; [vm_compute; reflexivity|]. split; [reflexivity|]. split; [vm_compute; reflexivity|].
        constructor; [apply Hwt; vm_compute; reflexivity|constructor].
    + split; [vm_compute; reflexivity|]. split; [vm_compute; reflexivity|]. split; [vm_compute; discriminate|].
      split; [vm_compute; discriminate|]. split; [vm_compute; reflexivity|].
      eexists. split; [vm_compute; reflexivity|]. split; [apply Hk|]. split; [split; vm_compute; [reflexivity|discriminate]|vm_compute; reflexivity].
    + split; [vm_compute; reflexivity|]. split; [vm_compute; reflexivity|]. split; [vm_compute; discriminate|].
      split; [vm_compute; discriminate|]. split; [vm_compute; reflexivity|].
      eexists. split; [vm_compute; reflexivity|]. split; [apply Hk|]. split; [split; vm_compute; [reflexivity|discriminate]|vm_compute; reflexivity].
  - vm_compute. eexists. eexists. split; reflexivity.
Qed.

Lemma ex_ix_message :
  let f1 := {| if_num := 100; if_type := ipfix_enterprise; if_len := 65535; if_ent := Some 9 |}%N in
  let f2 := {| if_num := 7; if_type := ipfix_from_u16 7; if_len := 2; if_ent := None |}%N in
  let f3 := {| if_num := 4; if_type := ipfix_from_u16 4; if_len := 1; if_ent := None |}%N in
  let t := {| it_id := 256; it_count := 2; it_fields := [f1; f2]; it_pad := [] |}%N in
  let o := {| io_id := 257; io_count := 2; io_scope_count := 1; io_fields := [f3; f2]; io_pad := [x00; x00] |}%N in
  let l := [ STemplate t; SOTemplate o;
             SData 256 [ [(false, [x61; x62; x63]); (false, [x00; x50])];
                         [(true, []); (false, [x01; xbb])];
                         [(false, [x7a]); (false, [x00; x35])] ] [x00];
             SData 257 [ [(false, [x06]); (false, [x00; x16])] ] [] ]%N in
  conformant_isets true ix_empty l
  /\ exists xs s', expect_isets ix_empty l = Some (xs, s') /\ length xs = 4%nat
  /\ wf_vals ipfix_header_layout [] [10; 16 + lenN (enc_isets ix_empty l); 1; 2; 3]%N.
Proof.
  cbv zeta.
  assert (Hk : forall fs, Forall (iknown true) fs) by (intro fs; apply Forall_forall; intros ? _ _ _; reflexivity).
  split.
  - cbn [conformant_isets]. repeat split.
    all: try apply Hk.
    all: try (timeout 5 (vm_compute; reflexivity)).
    all: try (timeout 5 (vm_compute; discriminate)).
    + repeat (apply Forall_cons; [unfold wf_ifield; cbn [if_len if_num if_ent if_type]; repeat split; vm_compute; reflexivity|]). apply Forall_nil.
    + cbn. lia.
    + repeat (apply Forall_cons; [unfold wf_ifield; cbn [if_len if_num if_ent if_type]; repeat split; vm_compute; reflexivity|]). apply Forall_nil.
    + left. split; vm_compute; [discriminate|reflexivity].
    + right. split; vm_compute; [reflexivity|discriminate].
  - vm_compute. eexists. eexists. repeat split; reflexivity.
Qed.
