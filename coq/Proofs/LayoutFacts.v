(* Proofs/LayoutFacts.v — the generic layout interpreter: parse-then-print, print-then-parse,
   framing, success characterisation, and the serializer-order lemma.  Everything is stated for
   an arbitrary layout; the generated layouts only have to pass boolean side conditions. *)
From NF Require Import Base Nom Types Layout BaseFacts NomFacts.
From Coq Require Import Lia.
Open Scope list_scope.

(* bytes of the wire fields of a decoded struct, in layout order *)
Fixpoint wire_bytes (L : list fld) (vs : list N) : bytes :=
  match L, vs with
  | f :: L', v :: vs' => (if on_wire f then enc (f_width f) v else []) ++ wire_bytes L' vs'
  | _, _ => []
  end.

(* what the parser guarantees about each value *)
Fixpoint wf_vals (L : list fld) (env : list (string * N)) (vs : list N) : Prop :=
  match L, vs with
  | [], [] => True
  | f :: L', v :: vs' =>
      match f_kind f with
      | KStream | KComplete => v < 256 ^ N.of_nat (f_width f)
      | KConst n => v = n
      | KProtoOf src => v = proto_from_u8 (env_get src env)
      end /\ wf_vals L' ((f_name f, v) :: env) vs'
  | _, _ => False
  end.

Lemma wf_vals_length L : forall env vs, wf_vals L env vs -> length vs = length L.
Proof.
  induction L as [|f L IH]; intros env [|v vs] H; cbn in H; try contradiction; [reflexivity|].
  destruct H as [_ H]. cbn. f_equal. eapply IH; eauto.
Qed.

Lemma wire_bytes_length L : forall vs, length vs = length L -> length (wire_bytes L vs) = wire_width L.
Proof.
  induction L as [|f L IH]; intros [|v vs] H; cbn in H; try discriminate; [reflexivity|].
  cbn [wire_bytes wire_width fold_right]. rewrite app_length. fold (wire_width L).
  rewrite IH by lia. destruct (on_wire f); [rewrite enc_length|]; reflexivity.
Qed.

(* ---- parse-then-print: every accepted input is the encoding of what was decoded ---- *)
Lemma parse_layout_aux_ok L : forall env i vs r,
  parse_layout_aux L env i = Ok vs r -> i = wire_bytes L vs ++ r /\ wf_vals L env vs.
Proof.
  induction L as [|f L IH]; intros env i vs r H; cbn [parse_layout_aux] in H.
  - inversion H; subst. split; [reflexivity|exact I].
  - destruct (parse_fld f env i) as [v r1|e] eqn:E1; [|discriminate].
    destruct (parse_layout_aux L ((f_name f, v) :: env) r1) as [vs' r2|e] eqn:E2; [|discriminate].
    inversion H; subst. destruct (IH _ _ _ _ E2) as [-> Hwf].
    unfold parse_fld in E1. cbn [wire_bytes wf_vals]. unfold on_wire.
    destruct (f_kind f) eqn:K.
    + apply u_s_ok in E1. destruct E1 as [-> Hb]. rewrite <- app_assoc. auto.
    + apply u_c_ok in E1. destruct E1 as [-> Hb]. rewrite <- app_assoc. auto.
    + inversion E1; subst. auto.
    + inversion E1; subst. auto.
Qed.

(* ---- print-then-parse ---- *)
Lemma parse_layout_aux_enc L : forall env vs rest,
  wf_vals L env vs -> parse_layout_aux L env (wire_bytes L vs ++ rest) = Ok vs rest.
Proof.
  induction L as [|f L IH]; intros env [|v vs] rest H; cbn in H; try contradiction; [reflexivity|].
  destruct H as [Hv H]. cbn [parse_layout_aux wire_bytes]. unfold parse_fld, on_wire.
  destruct (f_kind f) eqn:K.
  - rewrite <- app_assoc, u_s_enc by exact Hv. now rewrite IH.
  - rewrite <- app_assoc, u_c_enc by exact Hv. now rewrite IH.
  - subst v. cbn [app]. now rewrite IH.
  - subst v. cbn [app]. now rewrite IH.
Qed.

(* ---- framing ---- *)
Lemma parse_fld_frames f env : frames (parse_fld f env).
Proof.
  intros i a r z H. unfold parse_fld in *. destruct (f_kind f).
  - now apply u_s_frames.
  - now apply u_c_frames.
  - now inversion H.
  - now inversion H.
Qed.

Lemma parse_layout_aux_frames L : forall env, frames (parse_layout_aux L env).
Proof.
  induction L as [|f L IH]; intros env i vs r z H; cbn [parse_layout_aux] in *.
  - now inversion H.
  - destruct (parse_fld f env i) as [v r1|e] eqn:E1; [|discriminate].
    destruct (parse_layout_aux L ((f_name f, v) :: env) r1) as [vs' r2|e] eqn:E2; [|discriminate].
    inversion H; subst. rewrite (parse_fld_frames _ _ _ _ _ z E1), (IH _ _ _ _ z E2). reflexivity.
Qed.

Lemma parse_layout_aux_consumes L env : consumes (parse_layout_aux L env).
Proof. intros i vs r H. apply parse_layout_aux_ok in H. destruct H as [-> _]. eauto. Qed.

(* ---- success characterisation: a layout decodes iff its wire width is available ---- *)
Lemma parse_layout_aux_long L : forall env i,
  (wire_width L <= length i)%nat -> exists vs r, parse_layout_aux L env i = Ok vs r.
Proof.
  induction L as [|f L IH]; intros env i H; cbn [parse_layout_aux].
  - eauto.
  - cbn [wire_width fold_right] in H. fold (wire_width L) in H.
    unfold parse_fld, on_wire in *. destruct (f_kind f) eqn:K.
    + rewrite u_s_long by lia.
      destruct (IH ((f_name f, be (firstn (f_width f) i)) :: env) (skipn (f_width f) i)) as [vs [r ->]];
        [rewrite skipn_length; lia|eauto].
    + rewrite u_c_long by lia.
      destruct (IH ((f_name f, be (firstn (f_width f) i)) :: env) (skipn (f_width f) i)) as [vs [r ->]];
        [rewrite skipn_length; lia|eauto].
    + destruct (IH ((f_name f, n) :: env) i) as [vs [r ->]]; [lia|eauto].
    + destruct (IH ((f_name f, proto_from_u8 (env_get src env)) :: env) i) as [vs [r ->]]; [lia|eauto].
Qed.

Lemma parse_layout_aux_short L : forall env i,
  (length i < wire_width L)%nat -> exists e, parse_layout_aux L env i = Err e /\ e <> EFuel.
Proof.
  induction L as [|f L IH]; intros env i H; cbn [parse_layout_aux].
  - cbn in H. lia.
  - cbn [wire_width fold_right] in H. fold (wire_width L) in H.
    unfold parse_fld, on_wire in *. destruct (f_kind f) eqn:K.
    + destruct (Nat.lt_ge_cases (length i) (f_width f)) as [Hs|Hl].
      * rewrite u_s_short by exact Hs. eexists; split; [reflexivity|discriminate].
      * rewrite u_s_long by exact Hl.
        destruct (IH ((f_name f, be (firstn (f_width f) i)) :: env) (skipn (f_width f) i)) as [e [-> He]];
          [rewrite skipn_length; lia|eauto].
    + destruct (Nat.lt_ge_cases (length i) (f_width f)) as [Hs|Hl].
      * rewrite u_c_short by exact Hs. eexists; split; [reflexivity|discriminate].
      * rewrite u_c_long by exact Hl.
        destruct (IH ((f_name f, be (firstn (f_width f) i)) :: env) (skipn (f_width f) i)) as [e [-> He]];
          [rewrite skipn_length; lia|eauto].
    + destruct (IH ((f_name f, n) :: env) i) as [e [-> He]]; [lia|eauto].
    + destruct (IH ((f_name f, proto_from_u8 (env_get src env)) :: env) i) as [e [-> He]]; [lia|eauto].
Qed.

Lemma parse_layout_no_fuel L : forall env i, parse_layout_aux L env i <> Err EFuel.
Proof.
  intros env i. destruct (Nat.lt_ge_cases (length i) (wire_width L)) as [Hs|Hl].
  - destruct (parse_layout_aux_short L env i Hs) as [e [-> He]]. congruence.
  - destruct (parse_layout_aux_long L env i Hl) as [vs [r ->]]. discriminate.
Qed.

(* ---- value at offset: the k-th wire field is the big-endian number at its offset ---- *)
(* (name, offset, width) of the wire fields of a layout *)
Fixpoint offsets_from (L : list fld) (off : nat) : list (string * nat * nat) :=
  match L with
  | [] => []
  | f :: L' => if on_wire f then (f_name f, off, f_width f) :: offsets_from L' (off + f_width f)
               else offsets_from L' off
  end.
Definition offsets (L : list fld) := offsets_from L 0.

Definition slice (x : bytes) (off w : nat) : bytes := firstn w (skipn off x).

Lemma slice_app_skip (a b : bytes) off w : slice (a ++ b) (length a + off) w = slice b off w.
Proof. unfold slice. now rewrite skipn_app, skipn_all2, Nat.add_comm, Nat.add_sub by lia. Qed.

Lemma slice_enc_head w v (b : bytes) : slice (enc w v ++ b) 0 w = enc w v.
Proof.
  unfold slice. cbn [skipn]. rewrite firstn_app, enc_length, Nat.sub_diag. cbn [firstn].
  rewrite app_nil_r. rewrite <- (enc_length w v) at 1. apply firstn_all.
Qed.

(* Every entry of the offsets table reads back the decoded value of its (first) field of that
   name.  Stated positionally to avoid any assumption on names: the list of values selected by
   the wire fields equals the list of slices. *)
Fixpoint wire_vals (L : list fld) (vs : list N) : list N :=
  match L, vs with
  | f :: L', v :: vs' => if on_wire f then v :: wire_vals L' vs' else wire_vals L' vs'
  | _, _ => []
  end.

Lemma wire_vals_slices L : forall env vs off (pre rest : bytes),
  wf_vals L env vs -> length pre = off ->
  wire_vals L vs =
  map (fun e : string * nat * nat => be (slice (pre ++ wire_bytes L vs ++ rest) (snd (fst e)) (snd e)))
      (offsets_from L off).
Proof.
  induction L as [|f L IH]; intros env [|v vs] off pre rest H Hoff; cbn in H; try contradiction; [reflexivity|].
  destruct H as [Hv H]. cbn [wire_vals offsets_from wire_bytes]. unfold on_wire in *.
  destruct (f_kind f) eqn:K; cbn [app map fst snd].
  1,2: f_equal;
    [ rewrite <- Hoff, <- (Nat.add_0_r (length pre)), slice_app_skip, <- app_assoc, slice_enc_head;
      now rewrite be_enc_small
    | rewrite <- app_assoc, (app_assoc pre);
      apply (IH _ _ _ (pre ++ enc (f_width f) v) rest H);
      rewrite app_length, enc_length; lia ].
  1,2: now apply (IH _ _ _ pre rest H).
Qed.

(* ---- the hand-written serializers ---- *)
Fixpoint mem_str (s : string) (l : list string) : bool :=
  match l with [] => false | x :: l' => if String.eqb x s then true else mem_str s l' end.
Fixpoint nodup_str (l : list string) : bool :=
  match l with [] => true | x :: l' => negb (mem_str x l') && nodup_str l' end.

(* bytes of the selected fields, each on its type's width *)
Fixpoint sel_bytes (sel : fld -> bool) (L : list fld) (vs : list N) : bytes :=
  match L, vs with
  | f :: L', v :: vs' => (if sel f then enc (f_width f) v else []) ++ sel_bytes sel L' vs'
  | _, _ => []
  end.
Definition sel_names (sel : fld -> bool) (L : list fld) : list string := map f_name (filter sel L).

Lemma find_fld_skip L1 : forall vs1 L2 vs2 name,
  length L1 = length vs1 -> mem_str name (map f_name L1) = false ->
  find_fld (L1 ++ L2) (vs1 ++ vs2) name = find_fld L2 vs2 name.
Proof.
  induction L1 as [|f L1 IH]; intros [|v vs1] L2 vs2 name HL Hm; cbn in HL; try discriminate; [reflexivity|].
  cbn [app find_fld]. cbn [map mem_str] in Hm.
  destruct (String.eqb (f_name f) name) eqn:E; [discriminate|]. apply IH; [lia|exact Hm].
Qed.

Lemma mem_str_app s a b : mem_str s (a ++ b) = mem_str s a || mem_str s b.
Proof. induction a as [|x a IH]; cbn; [reflexivity|]. destruct (String.eqb x s); [reflexivity|exact IH]. Qed.

Lemma export_fields_sel sel L2 : forall L1 vs1 vs2,
  length L1 = length vs1 -> length L2 = length vs2 ->
  nodup_str (map f_name (L1 ++ L2)) = true ->
  flat_map (fun name => match find_fld (L1 ++ L2) (vs1 ++ vs2) name with
                        | Some (f, v) => enc (f_width f) v
                        | None => []
                        end) (sel_names sel L2)
  = sel_bytes sel L2 vs2.
Proof.
  induction L2 as [|f L2 IH]; intros L1 vs1 [|v vs2] H1 H2 Hnd; cbn in H2; try discriminate; [reflexivity|].
  unfold sel_names. cbn [filter sel_bytes].
  assert (Hstep : flat_map (fun name => match find_fld (L1 ++ f :: L2) (vs1 ++ v :: vs2) name with
                        | Some (f0, v0) => enc (f_width f0) v0 | None => [] end) (sel_names sel L2)
                  = sel_bytes sel L2 vs2).
  { replace (L1 ++ f :: L2) with ((L1 ++ [f]) ++ L2) by now rewrite <- app_assoc.
    replace (vs1 ++ v :: vs2) with ((vs1 ++ [v]) ++ vs2) by now rewrite <- app_assoc.
    apply IH; [rewrite !app_length; cbn; lia|lia|now rewrite <- app_assoc]. }
  destruct (sel f) eqn:S.
  - cbn [map flat_map]. fold (sel_names sel L2). rewrite Hstep. f_equal.
    rewrite find_fld_skip; [|exact H1|].
    + cbn [find_fld]. now rewrite String.eqb_refl.
    + (* the name of f does not occur in L1 *)
      clear - Hnd. induction L1 as [|g L1 IH]; [reflexivity|].
      cbn [app map nodup_str] in Hnd. apply andb_prop in Hnd. destruct Hnd as [Hg Hnd].
      cbn [map mem_str]. destruct (String.eqb (f_name g) (f_name f)) eqn:E.
      * apply String.eqb_eq in E. rewrite map_app, mem_str_app in Hg. cbn [map mem_str] in Hg.
        rewrite E, String.eqb_refl, orb_true_r in Hg. discriminate.
      * now apply IH.
  - fold (sel_names sel L2). exact Hstep.
Qed.

Lemma export_fields_spec sel L vs :
  length L = length vs -> nodup_str (map f_name L) = true ->
  export_fields L (sel_names sel L) vs = sel_bytes sel L vs.
Proof. intros HL Hnd. unfold export_fields. exact (export_fields_sel sel L [] [] vs eq_refl HL Hnd). Qed.

Lemma sel_bytes_wire L : forall vs, sel_bytes on_wire L vs = wire_bytes L vs.
Proof. induction L as [|f L IH]; intros [|v vs]; cbn; try reflexivity. now rewrite IH. Qed.

Lemma sel_bytes_all_wire L : forallb on_wire L = true ->
  forall vs, sel_bytes (fun _ => true) L vs = wire_bytes L vs.
Proof.
  induction L as [|f L IH]; intros H [|v vs]; cbn; try reflexivity.
  cbn in H. apply andb_prop in H. destruct H as [-> H]. now rewrite IH.
Qed.
