(* Proofs/NomFacts.v — what the nom combinators guarantee: a successful parser returns a suffix
   of its input (consumes), does not look past what it consumed (frames), and the bytes it
   consumed determine the value (for the primitive readers). *)
From NF Require Import Base Nom BaseFacts.
From Coq Require Import Lia.

Definition consumes {A} (p : parser A) : Prop :=
  forall i a r, p i = Ok a r -> exists pre, i = pre ++ r.
Definition frames {A} (p : parser A) : Prop :=
  forall i a r z, p i = Ok a r -> p (i ++ z) = Ok a (r ++ z).
Definition no_fuel {A} (p : parser A) : Prop := forall i, p i <> Err EFuel.

(* ---- primitive readers ---- *)
Lemma u_s_ok (w : nat) i v r : u_s w i = Ok v r -> i = enc w v ++ r /\ v < 256 ^ N.of_nat w.
Proof.
  unfold u_s. destruct (take w i) as [[a r']|] eqn:E; [|discriminate].
  intro H. inversion H; subst. apply take_spec in E. destruct E as [-> <-].
  split; [now rewrite enc_be | apply be_bound].
Qed.
Lemma u_c_ok (w : nat) i v r : u_c w i = Ok v r -> i = enc w v ++ r /\ v < 256 ^ N.of_nat w.
Proof.
  unfold u_c. destruct (take w i) as [[a r']|] eqn:E; [|discriminate].
  intro H. inversion H; subst. apply take_spec in E. destruct E as [-> <-].
  split; [now rewrite enc_be | apply be_bound].
Qed.

Lemma u_s_enc (w : nat) v r : v < 256 ^ N.of_nat w -> u_s w (enc w v ++ r) = Ok v r.
Proof.
  intro H. unfold u_s. rewrite <- (enc_length w v) at 1. rewrite take_app. now rewrite be_enc_small.
Qed.
Lemma u_c_enc (w : nat) v r : v < 256 ^ N.of_nat w -> u_c w (enc w v ++ r) = Ok v r.
Proof.
  intro H. unfold u_c. rewrite <- (enc_length w v) at 1. rewrite take_app. now rewrite be_enc_small.
Qed.

Lemma u_s_short (w : nat) i : (length i < w)%nat -> u_s w i = Err EIncomplete.
Proof. intro H. unfold u_s. apply take_none in H. now rewrite H. Qed.
Lemma u_c_short (w : nat) i : (length i < w)%nat -> u_c w i = Err EError.
Proof. intro H. unfold u_c. apply take_none in H. now rewrite H. Qed.
Lemma u_s_long (w : nat) i : (w <= length i)%nat -> u_s w i = Ok (be (firstn w i)) (skipn w i).
Proof. intro H. unfold u_s. now rewrite take_some. Qed.
Lemma u_c_long (w : nat) i : (w <= length i)%nat -> u_c w i = Ok (be (firstn w i)) (skipn w i).
Proof. intro H. unfold u_c. now rewrite take_some. Qed.

Lemma u_s_err (w : nat) i e : u_s w i = Err e -> e = EIncomplete /\ (length i < w)%nat.
Proof.
  unfold u_s. destruct (take w i) as [[a r]|] eqn:E; [discriminate|].
  intro H. inversion H. split; [reflexivity|now apply take_none].
Qed.
Lemma u_c_err (w : nat) i e : u_c w i = Err e -> e = EError /\ (length i < w)%nat.
Proof.
  unfold u_c. destruct (take w i) as [[a r]|] eqn:E; [discriminate|].
  intro H. inversion H. split; [reflexivity|now apply take_none].
Qed.

Lemma take_c_ok n i a r : take_c n i = Ok a r -> i = a ++ r /\ length a = N.to_nat n.
Proof.
  unfold take_c. destruct (take (N.to_nat n) i) as [[a' r']|] eqn:E; [|discriminate].
  intro H. inversion H; subst. now apply take_spec.
Qed.
Lemma take_s_ok n i a r : take_s n i = Ok a r -> i = a ++ r /\ length a = N.to_nat n.
Proof.
  unfold take_s. destruct (take (N.to_nat n) i) as [[a' r']|] eqn:E; [|discriminate].
  intro H. inversion H; subst. now apply take_spec.
Qed.
Lemma take_c_app n a r : length a = N.to_nat n -> take_c n (a ++ r) = Ok a r.
Proof. intro H. unfold take_c. rewrite <- H, take_app. reflexivity. Qed.
Lemma take_c_err n i e : take_c n i = Err e -> e = EError /\ (length i < N.to_nat n)%nat.
Proof.
  unfold take_c. destruct (take (N.to_nat n) i) as [[a r]|] eqn:E; [discriminate|].
  intro H. inversion H. split; [reflexivity|now apply take_none].
Qed.
Lemma take_c_short n i : (length i < N.to_nat n)%nat -> take_c n i = Err EError.
Proof. intro H. unfold take_c. apply take_none in H. now rewrite H. Qed.

(* ---- consumes / frames for the primitives ---- *)
Lemma u_s_consumes w : consumes (u_s w).
Proof. intros i a r H. apply u_s_ok in H. destruct H as [-> _]. eauto. Qed.
Lemma u_c_consumes w : consumes (u_c w).
Proof. intros i a r H. apply u_c_ok in H. destruct H as [-> _]. eauto. Qed.
Lemma take_c_consumes n : consumes (take_c n).
Proof. intros i a r H. apply take_c_ok in H. destruct H as [-> _]. eauto. Qed.
Lemma take_s_consumes n : consumes (take_s n).
Proof. intros i a r H. apply take_s_ok in H. destruct H as [-> _]. eauto. Qed.

Lemma u_s_frames w : frames (u_s w).
Proof.
  intros i a r z H. unfold u_s in *. destruct (take w i) as [[x y]|] eqn:E; [|discriminate].
  inversion H; subst. now rewrite (take_frame _ _ _ _ z E).
Qed.
Lemma u_c_frames w : frames (u_c w).
Proof.
  intros i a r z H. unfold u_c in *. destruct (take w i) as [[x y]|] eqn:E; [|discriminate].
  inversion H; subst. now rewrite (take_frame _ _ _ _ z E).
Qed.
Lemma take_c_frames n : frames (take_c n).
Proof.
  intros i a r z H. unfold take_c in *. destruct (take (N.to_nat n) i) as [[x y]|] eqn:E; [|discriminate].
  inversion H; subst. now rewrite (take_frame _ _ _ _ z E).
Qed.
Lemma take_s_frames n : frames (take_s n).
Proof.
  intros i a r z H. unfold take_s in *. destruct (take (N.to_nat n) i) as [[x y]|] eqn:E; [|discriminate].
  inversion H; subst. now rewrite (take_frame _ _ _ _ z E).
Qed.

Lemma pmap_consumes {A B} (f : A -> B) p : consumes p -> consumes (pmap f p).
Proof.
  intros Hp i b r H. unfold pmap in H. destruct (p i) as [a r'|e] eqn:E; [|discriminate].
  inversion H; subst. eapply Hp; eauto.
Qed.
Lemma pmap_frames {A B} (f : A -> B) p : frames p -> frames (pmap f p).
Proof.
  intros Hp i b r z H. unfold pmap in *. destruct (p i) as [a r'|e] eqn:E; [|discriminate].
  inversion H; subst. now rewrite (Hp _ _ _ z E).
Qed.

(* ---- count ---- *)
Lemma count_consumes {A} (p : parser A) n : consumes p -> consumes (count n p).
Proof.
  intro Hp. induction n as [|n IH]; intros i l r H; cbn [count] in H.
  - inversion H; subst. exists []. reflexivity.
  - destruct (p i) as [a r1|e] eqn:E1; [|discriminate].
    destruct (count n p r1) as [l' r2|e] eqn:E2; [|discriminate].
    inversion H; subst. destruct (Hp _ _ _ E1) as [pre1 ->]. destruct (IH _ _ _ E2) as [pre2 ->].
    exists (pre1 ++ pre2). now rewrite app_assoc.
Qed.
Lemma count_frames {A} (p : parser A) n : frames p -> frames (count n p).
Proof.
  intro Hp. induction n as [|n IH]; intros i l r z H; cbn [count] in *.
  - inversion H; subst. reflexivity.
  - destruct (p i) as [a r1|e] eqn:E1; [|discriminate].
    destruct (count n p r1) as [l' r2|e] eqn:E2; [|discriminate].
    inversion H; subst. rewrite (Hp _ _ _ z E1), (IH _ _ _ z E2). reflexivity.
Qed.
Lemma count_length {A} (p : parser A) n : forall i l r, count n p i = Ok l r -> length l = n.
Proof.
  induction n as [|n IH]; intros i l r H; cbn [count] in H.
  - inversion H; reflexivity.
  - destruct (p i) as [a r1|e]; [|discriminate].
    destruct (count n p r1) as [l' r2|e] eqn:E2; [|discriminate].
    inversion H; subst. cbn. f_equal. eapply IH; eauto.
Qed.

(* ---- map_res(take(len), inner): frames whatever inner does ---- *)
Lemma map_res_take_frames {A} len (inner : parser A) : frames (map_res_take len inner).
Proof.
  intros i a r z H. unfold map_res_take in *.
  destruct (take_c len i) as [body rest|e] eqn:E; [|discriminate].
  rewrite (take_c_frames _ _ _ _ z E).
  destruct (inner body) as [a' r'|[]]; try discriminate. now inversion H; subst.
Qed.
Lemma map_res_take_consumes {A} len (inner : parser A) : consumes (map_res_take len inner).
Proof.
  intros i a r H. unfold map_res_take in H.
  destruct (take_c len i) as [body rest|e] eqn:E; [|discriminate].
  destruct (inner body) as [a' r'|[]]; try discriminate. inversion H; subst.
  eapply take_c_consumes; eauto.
Qed.

Lemma map_res_take_st_frames {St A} len (inner : sparser St A) s i a r s' z :
  map_res_take_st len inner s i = (Ok a r, s') ->
  map_res_take_st len inner s (i ++ z) = (Ok a (r ++ z), s').
Proof.
  unfold map_res_take_st. intro H.
  destruct (take_c len i) as [body rest|e] eqn:E; [|discriminate].
  rewrite (take_c_frames _ _ _ _ z E).
  destruct (inner s body) as [[a' r'|[]] s'']; try discriminate. now inversion H; subst.
Qed.
Lemma map_res_take_st_ok {St A} len (inner : sparser St A) s i a r s' :
  map_res_take_st len inner s i = (Ok a r, s') ->
  exists body r0, i = body ++ r /\ length body = N.to_nat len /\ inner s body = (Ok a r0, s').
Proof.
  unfold map_res_take_st. intro H.
  destruct (take_c len i) as [body rest|e] eqn:E; [|discriminate].
  apply take_c_ok in E. destruct E as [-> HL].
  destruct (inner s body) as [[a' r'|[]] s''] eqn:EI; try discriminate. inversion H; subst.
  eauto.
Qed.
Lemma map_res_take_st_short {St A} len (inner : sparser St A) s i :
  (length i < N.to_nat len)%nat -> map_res_take_st len inner s i = (Err EError, s).
Proof. intro H. unfold map_res_take_st. now rewrite take_c_short. Qed.

(* the suffix relation is transitive through bind *)
Lemma consumes_length {A} (p : parser A) : consumes p -> forall i a r, p i = Ok a r -> (length r <= length i)%nat.
Proof. intros Hp i a r H. destruct (Hp _ _ _ H) as [pre ->]. rewrite app_length. lia. Qed.
