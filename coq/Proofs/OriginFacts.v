(* Proofs/OriginFacts.v — C06, "a parser's caches change only through the complete template
   records contained in its input": every cache entry after a call was there before the call, or
   its wire form (the record's bytes: id, count(s), every field specifier) occurs in the buffer.
   Holds whether the call, or any packet in it, succeeded or failed. *)
From NF Require Import Base Nom Types Layout Value V9 Ipfix Parser Export.
From NF Require Import BaseFacts NomFacts LayoutFacts VarFacts CacheFacts ReexportFacts RunFacts.
From Coq Require Import Lia.
Open Scope string_scope.
Open Scope list_scope.

Definition infix (a i : bytes) : Prop := exists pre post, i = pre ++ a ++ post.

Lemma infix_refl a : infix a a.
Proof. exists [], []. now rewrite app_nil_r. Qed.
Lemma infix_trans a b c : infix a b -> infix b c -> infix a c.
Proof. intros [p [q ->]] [p' [q' ->]]. exists (p' ++ p), (q ++ q'). now rewrite <- !app_assoc. Qed.
Lemma infix_app_l a p i : infix a i -> infix a (p ++ i).
Proof. intros [x [y ->]]. exists (p ++ x), y. now rewrite <- app_assoc. Qed.
Lemma infix_app_r a i q : infix a i -> infix a (i ++ q).
Proof. intros [x [y ->]]. exists x, (y ++ q). now rewrite <- !app_assoc. Qed.
Lemma infix_suffix pre r : infix r (pre ++ r).
Proof. apply infix_app_l, infix_refl. Qed.
Lemma infix_prefix a r : infix a (a ++ r).
Proof. apply infix_app_r, infix_refl. Qed.

Lemma infix_flat_map {A} (f : A -> bytes) (t : A) (ts : list A) pad :
  In t ts -> infix (f t) (flat_map f ts ++ pad).
Proof.
  intro H. apply infix_app_r. induction ts as [|x ts IH]; [contradiction|]. cbn [flat_map].
  destruct H as [->|H]; [apply infix_prefix|apply infix_app_l, IH, H].
Qed.

Lemma last_def_in {A} (f : A -> N) id (ts : list A) t : last_def f id ts = Some t -> In t ts.
Proof.
  induction ts as [|x ts IH]; cbn [last_def]; [discriminate|].
  destruct (last_def f id ts) as [t'|].
  - intro H. inversion H; subst. right. now apply IH.
  - destruct (f x =? id)%N; [|discriminate]. intro H. inversion H; subst. now left.
Qed.

(* ---- V9 ---- *)
Definition v9_from (i : bytes) (s s' : v9state) : Prop :=
  (forall k t, lookup k (v9_t s') = Some t -> lookup k (v9_t s) = Some t \/ infix (export_template t) i) /\
  (forall k t, lookup k (v9_o s') = Some t -> lookup k (v9_o s) = Some t \/ infix (export_otemplate t) i).

Lemma v9_from_refl i s : v9_from i s s.
Proof. split; intros; now left. Qed.
Lemma v9_from_trans i a b c : v9_from i a b -> v9_from i b c -> v9_from i a c.
Proof.
  intros [A1 A2] [B1 B2]. split; intros k t H.
  - destruct (B1 k t H) as [H'|H']; [now apply A1|now right].
  - destruct (B2 k t H) as [H'|H']; [now apply A2|now right].
Qed.
Lemma v9_from_mono i j a b : infix i j -> v9_from i a b -> v9_from j a b.
Proof.
  intros Hij [A1 A2]. split; intros k t H.
  - destruct (A1 k t H) as [H'|H']; [now left|right; eapply infix_trans; eauto].
  - destruct (A2 k t H) as [H'|H']; [now left|right; eapply infix_trans; eauto].
Qed.

Lemma parse_body_from puf id s i : v9_from i s (snd (parse_body puf id s i)).
Proof.
  unfold parse_body. destruct (id =? v9_template_id)%N.
  { destruct (parse_templates i) as [[ts pad] r|e] eqn:E; cbn [snd]; [|apply v9_from_refl].
    apply templates_body_exact in E. cbn [export_v9_body] in E. inversion E; subst.
    split; cbn [v9_t v9_o]; intros k t H; [|left; now apply lookup_remove_keys_some in H].
    unfold learn_templates in H. rewrite lookup_fold_insert in H.
    destruct (last_def t_id k ts) as [t'|] eqn:El; [|now left].
    inversion H; subst. right. apply infix_flat_map. eapply last_def_in; eauto. }
  destruct (id =? v9_options_template_id)%N.
  { destruct (parse_otemplates i) as [[ts pad] r|e] eqn:E; cbn [snd]; [|apply v9_from_refl].
    apply otemplates_body_exact in E. cbn [export_v9_body] in E. inversion E; subst.
    split; cbn [v9_t v9_o]; intros k t H; [left; now apply lookup_remove_keys_some in H|].
    unfold learn_otemplates in H. rewrite lookup_fold_insert in H.
    destruct (last_def ot_id k ts) as [t'|] eqn:El; [|now left].
    inversion H; subst. right. apply infix_flat_map. eapply last_def_in; eauto. }
  destruct (lookup id (v9_o s)); [cbn [snd]; apply v9_from_refl|].
  destruct (lookup id (v9_t s)); cbn [snd]; apply v9_from_refl.
Qed.

Lemma parse_flowset_from puf s i : v9_from i s (snd (parse_flowset puf s i)).
Proof.
  unfold parse_flowset. destruct (u_s 2 i) as [id r|e] eqn:E1; [|apply v9_from_refl].
  destruct (u_s 2 r) as [len r'|e] eqn:E2; [|apply v9_from_refl].
  apply u_s_ok in E1. destruct E1 as [-> _]. apply u_s_ok in E2. destruct E2 as [-> _].
  unfold map_res_take_st. destruct (take_c (len - 4) r') as [body rest|e] eqn:E3; [|apply v9_from_refl].
  apply take_c_ok in E3. destruct E3 as [-> _].
  pose proof (parse_body_from puf id s body) as H.
  assert (Hi : infix body (enc 2 id ++ enc 2 len ++ body ++ rest)) by (do 2 apply infix_app_l; apply infix_prefix).
  destruct (parse_body puf id s body) as [[a r|[]] s'] eqn:E; cbn [snd] in *; eapply v9_from_mono; eauto.
Qed.

Lemma parse_flowsets_from puf n : forall s i, v9_from i s (snd (parse_flowsets puf n s i)).
Proof.
  induction n as [|n IH]; intros s i; cbn [parse_flowsets]; [apply v9_from_refl|].
  destruct (is_nil i); [apply v9_from_refl|].
  pose proof (parse_flowset_from puf s i) as H1.
  destruct (parse_flowset puf s i) as [[f r|e] s1] eqn:E; cbn [snd] in *; [|exact H1].
  apply parse_flowset_consumes in E. destruct E as [pre [-> _]].
  specialize (IH s1 r). apply (v9_from_mono r (pre ++ r)) in IH; [|apply infix_suffix].
  destruct (parse_flowsets puf n s1 r) as [[l r'|e] s2]; cbn [snd] in *; eapply v9_from_trans; eauto.
Qed.

Lemma parse_v9_from puf s i : v9_from i s (snd (parse_v9 puf s i)).
Proof.
  unfold parse_v9, parse_layout. destruct (parse_layout_aux v9_header_layout [] i) as [h r|e] eqn:E; [|apply v9_from_refl].
  apply parse_layout_aux_consumes in E. destruct E as [pre ->].
  pose proof (parse_flowsets_from puf (N.to_nat (get_field v9_header_layout h "count")) s r) as H.
  apply (v9_from_mono r (pre ++ r)) in H; [|apply infix_suffix].
  destruct (parse_flowsets _ _ s r) as [[l r'|e] s']; exact H.
Qed.

(* ---- IPFIX: the record is the set's content (id, count(s), field specifiers, padding) ---- *)
Definition ix_from (i : bytes) (s s' : ixstate) : Prop :=
  (forall k t, lookup k (ix_t s') = Some t ->
     lookup k (ix_t s) = Some t \/ exists b, export_ix_body (IxTemplate t) = XOk b /\ infix b i) /\
  (forall k t, lookup k (ix_o s') = Some t ->
     lookup k (ix_o s) = Some t \/ exists b, export_ix_body (IxOTemplate t) = XOk b /\ infix b i).

Lemma ix_from_refl i s : ix_from i s s.
Proof. split; intros; now left. Qed.
Lemma ix_from_trans i a b c : ix_from i a b -> ix_from i b c -> ix_from i a c.
Proof.
  intros [A1 A2] [B1 B2]. split; intros k t H.
  - destruct (B1 k t H) as [H'|H']; [now apply A1|now right].
  - destruct (B2 k t H) as [H'|H']; [now apply A2|now right].
Qed.
Lemma ix_from_mono i j a b : infix i j -> ix_from i a b -> ix_from j a b.
Proof.
  intros Hij [A1 A2]. split; intros k t H.
  - destruct (A1 k t H) as [H'|[x [Hx H']]]; [now left|right; exists x; split; [exact Hx|eapply infix_trans; eauto]].
  - destruct (A2 k t H) as [H'|[x [Hx H']]]; [now left|right; exists x; split; [exact Hx|eapply infix_trans; eauto]].
Qed.

Lemma parse_ibody_from puf id s i : ix_from i s (snd (parse_ibody puf id s i)).
Proof.
  unfold parse_ibody.
  destruct ((id <? ipfix_set_min_range)%N && negb (id =? ipfix_options_template_id)%N).
  { destruct (parse_itemplate i) as [t r|e] eqn:E; [|apply ix_from_refl].
    destruct (fields_valid _); cbn [snd]; [|apply ix_from_refl].
    apply itemplate_body_exact in E.
    split; cbn [ix_t ix_o]; intros k t' H; [|left; now apply lookup_remove_some in H].
    destruct (N.eqb_spec k (it_id t)) as [->|Hne].
    - rewrite lookup_insert_eq in H. inversion H; subst. right. exists i. split; [exact E|apply infix_refl].
    - rewrite lookup_insert_neq in H by congruence. now left. }
  destruct (id =? ipfix_options_template_id)%N.
  { destruct (parse_iotemplate i) as [t r|e] eqn:E; [|apply ix_from_refl].
    destruct (fields_valid _); cbn [snd]; [|apply ix_from_refl].
    apply iotemplate_body_exact in E.
    split; cbn [ix_t ix_o]; intros k t' H; [left; now apply lookup_remove_some in H|].
    destruct (N.eqb_spec k (io_id t)) as [->|Hne].
    - rewrite lookup_insert_eq in H. inversion H; subst. right. exists i. split; [exact E|apply infix_refl].
    - rewrite lookup_insert_neq in H by congruence. now left. }
  destruct (lookup id (ix_t s)) as [t|].
  { destruct (parse_idata _ _ i) as [[? ?] ?|?]; apply ix_from_refl. }
  destruct (lookup id (ix_o s)) as [t|]; [|apply ix_from_refl].
  destruct (parse_idata _ _ i) as [[? ?] ?|?]; apply ix_from_refl.
Qed.

Lemma parse_iset_from puf s i : ix_from i s (snd (parse_iset puf s i)).
Proof.
  unfold parse_iset. destruct (u_s 2 i) as [id r|e] eqn:E1; [|apply ix_from_refl].
  destruct (u_s 2 r) as [len r'|e] eqn:E2; [|apply ix_from_refl].
  apply u_s_ok in E1. destruct E1 as [-> _]. apply u_s_ok in E2. destruct E2 as [-> _].
  unfold map_res_take_st. destruct (take_c (len - 4) r') as [body rest|e] eqn:E3; [|apply ix_from_refl].
  apply take_c_ok in E3. destruct E3 as [-> _].
  pose proof (parse_ibody_from puf id s body) as H.
  assert (Hi : infix body (enc 2 id ++ enc 2 len ++ body ++ rest)) by (do 2 apply infix_app_l; apply infix_prefix).
  destruct (parse_ibody puf id s body) as [[a r|[]] s'] eqn:E; cbn [snd] in *; eapply ix_from_mono; eauto.
Qed.

Lemma parse_iset_suffix puf s i f r s' : parse_iset puf s i = (Ok f r, s') -> exists pre, i = pre ++ r.
Proof.
  unfold parse_iset. intro H.
  destruct (u_s 2 i) as [id r1|e] eqn:E1; [|inversion H].
  destruct (u_s 2 r1) as [len r2|e] eqn:E2; [|inversion H].
  destruct (map_res_take_st (len - 4) (parse_ibody puf id) s r2) as [[b r3|e] s3] eqn:E3; inversion H; subst.
  apply u_s_ok in E1. destruct E1 as [-> _]. apply u_s_ok in E2. destruct E2 as [-> _].
  apply map_res_take_st_ok in E3. destruct E3 as [body [r0 [-> _]]].
  exists (enc 2 id ++ enc 2 len ++ body). now rewrite <- !app_assoc.
Qed.

Lemma many0_isets_from puf : forall fuel s i,
  ix_from i s (snd (many0_st_aux fuel (complete_st (parse_iset puf)) s i)).
Proof.
  induction fuel as [|fuel IH]; intros s i; cbn [many0_st_aux]; [apply ix_from_refl|].
  unfold complete_st at 1. pose proof (parse_iset_from puf s i) as Hp.
  destruct (parse_iset puf s i) as [[a r|e] s1] eqn:E; cbn [snd] in *.
  - destruct (shorter r i); [|exact Hp].
    apply parse_iset_suffix in E. destruct E as [pre ->].
    specialize (IH s1 r). apply (ix_from_mono r (pre ++ r)) in IH; [|apply infix_suffix].
    destruct (many0_st_aux fuel _ s1 r) as [[l r'|e'] s2]; cbn [snd] in *; eapply ix_from_trans; eauto.
  - destruct e; exact Hp.
Qed.

Lemma parse_ipfix_from puf s i : ix_from i s (snd (parse_ipfix puf s i)).
Proof.
  unfold parse_ipfix, parse_layout. destruct (parse_layout_aux ipfix_header_layout [] i) as [h r|e] eqn:E; [|apply ix_from_refl].
  apply parse_layout_aux_consumes in E. destruct E as [pre ->].
  unfold map_res_take_st. destruct (take_c _ r) as [body rest|e] eqn:E3; [|apply ix_from_refl].
  apply take_c_ok in E3. destruct E3 as [-> _].
  pose proof (many0_isets_from puf (S (length body)) s body) as H. unfold many0_st.
  assert (Hi : infix body (pre ++ body ++ rest)) by (apply infix_app_l, infix_prefix).
  destruct (many0_st_aux _ _ s body) as [[a r|[]] s'] eqn:E; cbn [snd] in *; eapply ix_from_mono; eauto.
Qed.

(* ---- one packet step, then the whole call ---- *)
Definition from (i : bytes) (s s' : pstate) : Prop := v9_from i (st9 s) (st9 s') /\ ix_from i (stx s) (stx s').

Lemma from_refl i s : from i s s.
Proof. split; [apply v9_from_refl|apply ix_from_refl]. Qed.
Lemma from_trans i a b c : from i a b -> from i b c -> from i a c.
Proof. intros [A1 A2] [B1 B2]. split; [eapply v9_from_trans|eapply ix_from_trans]; eauto. Qed.
Lemma from_mono i j a b : infix i j -> from i a b -> from j a b.
Proof. intros H [A1 A2]. split; [eapply v9_from_mono|eapply ix_from_mono]; eauto. Qed.

Lemma parse_one_from puf allow s x : from x s (step_state (parse_one puf allow s x) s).
Proof.
  unfold parse_one. destruct (u_s 2 x) as [v body|k] eqn:Eu; cbn [step_state]; [|apply from_refl].
  destruct (allow v); cbn [negb step_state]; [|apply from_refl].
  apply u_s_ok in Eu. destruct Eu as [-> _].
  destruct (version_kind v) as [[]|].
  - destruct (parse_v5 body); cbn [step_state]; apply from_refl.
  - destruct (parse_v7 body); cbn [step_state]; apply from_refl.
  - pose proof (parse_v9_from puf (st9 s) body) as Hg.
    apply (v9_from_mono body (enc 2 v ++ body)) in Hg; [|apply infix_suffix].
    destruct (parse_v9 puf (st9 s) body) as [[p r|k] s9]; cbn [step_state snd] in *;
      (split; cbn [st9 stx]; [exact Hg|apply ix_from_refl]).
  - pose proof (parse_ipfix_from puf (stx s) body) as Hg.
    apply (ix_from_mono body (enc 2 v ++ body)) in Hg; [|apply infix_suffix].
    destruct (parse_ipfix puf (stx s) body) as [[p r|k] sx]; cbn [step_state snd] in *;
      (split; cbn [st9 stx]; [apply v9_from_refl|exact Hg]).
  - cbn [step_state]. apply from_refl.
Qed.

Lemma run_from puf allow : forall fuel s x r, run fuel puf allow s x = Some r -> from x s (final_state s r).
Proof.
  induction fuel as [|fuel IH]; intros s x r H.
  - destruct x; [|discriminate]. inversion H; subst. apply from_refl.
  - destruct x as [|b x']; [inversion H; subst; apply from_refl|]. cbn [run] in H.
    pose proof (parse_one_from puf allow s (b :: x')) as Hg.
    destruct (parse_one puf allow s (b :: x')) as [|e s'|e rest s'] eqn:E1; cbn [step_state] in Hg.
    + inversion H; subst. apply from_refl.
    + inversion H; subst. exact Hg.
    + destruct (is_nil rest); [inversion H; subst; exact Hg|].
      destruct (run fuel puf allow s' rest) as [r'|] eqn:Er; [|discriminate]. inversion H; subst.
      rewrite final_state_cons. eapply from_trans; [exact Hg|].
      apply RunFacts.parse_one_consumes in E1. destruct E1 as [pre [Hx _]]. rewrite Hx.
      eapply from_mono; [apply infix_suffix|]. eapply IH; eauto.
Qed.
