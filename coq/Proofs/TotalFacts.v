(* Proofs/TotalFacts.v — C01: the explicit recursion fuel never runs out, and re-export of parser
   output never reaches byteorder's range assertion. *)
From NF Require Import Base Nom Types Layout Value V9 Ipfix Parser Export.
From NF Require Import BaseFacts NomFacts LayoutFacts FixedFacts ValueFacts VarFacts ParserFacts RunFacts.
From Coq Require Import Lia.
Open Scope string_scope.
Open Scope list_scope.

(* ---- many0: with fuel above the input length, fuel is never what stops the loop ---- *)
Lemma many0_aux_no_fuel {A} (p : parser A) :
  (forall i, p i <> Err EFuel) ->
  forall fuel i, (length i < fuel)%nat -> many0_aux fuel p i <> Err EFuel.
Proof.
  intro Hp. induction fuel as [|fuel IH]; intros i H; [lia|]. cbn [many0_aux].
  destruct (p i) as [a r|e] eqn:E.
  - rewrite shorter_spec. destruct (length r <? length i)%nat eqn:Hs; [|discriminate].
    apply Nat.ltb_lt in Hs. specialize (IH r ltac:(lia)).
    destruct (many0_aux fuel p r) as [l r'|e']; [discriminate|]. congruence.
  - destruct e; try discriminate. exfalso. exact (Hp i E).
Qed.

Lemma many0_no_fuel {A} (p : parser A) : (forall i, p i <> Err EFuel) -> forall i, many0 p i <> Err EFuel.
Proof. intros Hp i. unfold many0. apply many0_aux_no_fuel; [exact Hp|lia]. Qed.

Lemma complete_no_fuel {A} (p : parser A) : (forall i, p i <> Err EFuel) -> forall i, complete p i <> Err EFuel.
Proof. intros Hp i. unfold complete. specialize (Hp i). destruct (p i) as [a r|[]]; congruence. Qed.

Lemma count_no_fuel {A} (p : parser A) n : (forall i, p i <> Err EFuel) -> forall i, count n p i <> Err EFuel.
Proof.
  intro Hp. induction n as [|n IH]; intro i; cbn [count]; [discriminate|].
  specialize (Hp i). destruct (p i) as [a r|e]; [|congruence].
  specialize (IH r). destruct (count n p r); [discriminate|congruence].
Qed.

Lemma many0_st_aux_no_fuel {St A} (p : sparser St A) :
  (forall s i, fst (p s i) <> Err EFuel) ->
  forall fuel s i, (length i < fuel)%nat -> fst (many0_st_aux fuel p s i) <> Err EFuel.
Proof.
  intro Hp. induction fuel as [|fuel IH]; intros s i H; [lia|]. cbn [many0_st_aux].
  specialize (Hp s i). destruct (p s i) as [[a r|e] s'] eqn:E; cbn [fst] in *.
  - rewrite shorter_spec. destruct (length r <? length i)%nat eqn:Hs; [|discriminate].
    apply Nat.ltb_lt in Hs. specialize (IH s' r ltac:(lia)).
    destruct (many0_st_aux fuel p s' r) as [[l r'|e'] s'']; cbn [fst] in *; [discriminate|congruence].
  - destruct e; cbn; try discriminate. congruence.
Qed.

Lemma u_s_no_fuel w i : u_s w i <> Err EFuel.
Proof. unfold u_s. destruct (take w i) as [[? ?]|]; discriminate. Qed.
Lemma take_c_no_fuel n i : take_c n i <> Err EFuel.
Proof. unfold take_c. destruct (take _ i) as [[? ?]|]; discriminate. Qed.

Ltac step_bind H :=
  match type of H with
  | bind ?p _ = _ => let a := fresh "a" in let r := fresh "r" in let E := fresh "E" in
                     destruct p as [a r|?] eqn:E; cbn [bind] in H
  end.

(* ---- V9 ---- *)
Lemma parse_tfield_no_fuel i : parse_tfield i <> Err EFuel.
Proof.
  unfold parse_tfield, bind. pose proof (u_s_no_fuel 2 i).
  destruct (u_s 2 i) as [n r|e]; [|congruence]. pose proof (u_s_no_fuel 2 r).
  destruct (u_s 2 r) as [l r'|e]; [discriminate|congruence].
Qed.
Lemma parse_sfield_no_fuel i : parse_sfield i <> Err EFuel.
Proof.
  unfold parse_sfield, bind. pose proof (u_s_no_fuel 2 i).
  destruct (u_s 2 i) as [n r|e]; [|congruence]. pose proof (u_s_no_fuel 2 r).
  destruct (u_s 2 r) as [l r'|e]; [discriminate|congruence].
Qed.

Lemma parse_template_no_fuel i : parse_template i <> Err EFuel.
Proof.
  unfold parse_template, bind. pose proof (u_s_no_fuel 2 i).
  destruct (u_s 2 i) as [n r|e]; [|congruence]. pose proof (u_s_no_fuel 2 r).
  destruct (u_s 2 r) as [c r'|e]; [|congruence].
  pose proof (count_no_fuel parse_tfield (N.to_nat c) parse_tfield_no_fuel r').
  destruct (count _ _ r'); [discriminate|congruence].
Qed.

Lemma parse_otemplate_no_fuel i : parse_otemplate i <> Err EFuel.
Proof.
  unfold parse_otemplate, bind. pose proof (u_s_no_fuel 2 i).
  destruct (u_s 2 i) as [n r|e]; [|congruence]. pose proof (u_s_no_fuel 2 r).
  destruct (u_s 2 r) as [sl r1|e]; [|congruence]. pose proof (u_s_no_fuel 2 r1).
  destruct (u_s 2 r1) as [ol r2|e]; [|congruence].
  pose proof (count_no_fuel parse_sfield (N.to_nat (sl / 4)) parse_sfield_no_fuel r2).
  destruct (count _ parse_sfield r2) as [sc r3|e]; [|congruence].
  pose proof (count_no_fuel parse_tfield (N.to_nat (ol / 4)) parse_tfield_no_fuel r3).
  destruct (count _ parse_tfield r3); [discriminate|congruence].
Qed.

Lemma scope_loop_no_fuel fs : forall i, scope_loop fs i <> Err EFuel.
Proof.
  induction fs as [|f fs IH]; intro i; cbn [scope_loop]; [discriminate|].
  destruct (take_c (sf_len f) i) as [v r|e]; [|discriminate].
  destruct (scope_known (sf_type f)); [|discriminate].
  destruct (shorter r i); [|discriminate].
  specialize (IH r). destruct (scope_loop fs r); [discriminate|congruence].
Qed.
Lemma option_loop_no_fuel fs : forall i, option_loop fs i <> Err EFuel.
Proof.
  induction fs as [|f fs IH]; intro i; cbn [option_loop]; [discriminate|].
  destruct (take_s (tf_len f) i) as [v r|e]; [|discriminate].
  destruct (shorter r i); [|discriminate].
  specialize (IH r). destruct (option_loop fs r); [discriminate|congruence].
Qed.

Lemma parse_body_no_fuel puf id s i : fst (parse_body puf id s i) <> Err EFuel.
Proof.
  unfold parse_body.
  destruct (id =? v9_template_id)%N.
  { unfold parse_templates, bind.
    pose proof (many0_no_fuel _ (complete_no_fuel _ parse_template_no_fuel) i).
    destruct (many0 (complete parse_template) i) as [ts r|e]; cbn [fst]; [discriminate|congruence]. }
  destruct (id =? v9_options_template_id)%N.
  { unfold parse_otemplates, bind.
    pose proof (many0_no_fuel _ (complete_no_fuel _ parse_otemplate_no_fuel) i).
    destruct (many0 (complete parse_otemplate) i) as [ts r|e]; cbn [fst]; [discriminate|congruence]. }
  destruct (lookup id (v9_o s)) as [ot|].
  { cbn [fst]. unfold parse_odata, bind. pose proof (scope_loop_no_fuel (ot_scope ot) i).
    destruct (scope_loop (ot_scope ot) i) as [sc r|e]; [|congruence].
    pose proof (option_loop_no_fuel (ot_opts ot) r).
    destruct (option_loop (ot_opts ot) r); [discriminate|congruence]. }
  destruct (lookup id (v9_t s)); cbn [fst]; discriminate.
Qed.

Lemma map_res_take_st_no_fuel {St A} len (inner : sparser St A) s i :
  (forall s b, fst (inner s b) <> Err EFuel) -> fst (map_res_take_st len inner s i) <> Err EFuel.
Proof.
  intro H. unfold map_res_take_st. destruct (take_c len i) as [body rest|e] eqn:E.
  - specialize (H s body). destruct (inner s body) as [[a r|[]] s']; cbn [fst] in *; congruence.
  - cbn [fst]. intro H'. inversion H'; subst. now apply take_c_no_fuel in E.
Qed.

Lemma parse_flowset_no_fuel puf s i : fst (parse_flowset puf s i) <> Err EFuel.
Proof.
  unfold parse_flowset. pose proof (u_s_no_fuel 2 i).
  destruct (u_s 2 i) as [id r|e]; cbn [fst]; [|congruence]. pose proof (u_s_no_fuel 2 r).
  destruct (u_s 2 r) as [len r'|e]; cbn [fst]; [|congruence].
  pose proof (map_res_take_st_no_fuel (len - 4) (parse_body puf id) s r' (parse_body_no_fuel puf id)).
  destruct (map_res_take_st _ _ s r') as [[b r2|e] s2]; cbn [fst] in *; [discriminate|congruence].
Qed.

Lemma parse_flowsets_no_fuel puf n : forall s i, fst (parse_flowsets puf n s i) <> Err EFuel.
Proof.
  induction n as [|n IH]; intros s i; cbn [parse_flowsets]; [discriminate|].
  destruct (is_nil i); [discriminate|].
  pose proof (parse_flowset_no_fuel puf s i).
  destruct (parse_flowset puf s i) as [[f r|e] s1]; cbn [fst] in *; [|congruence].
  specialize (IH s1 r). destruct (parse_flowsets puf n s1 r) as [[l r'|e] s2]; cbn [fst] in *; [discriminate|congruence].
Qed.

Lemma parse_v9_no_fuel puf s i : fst (parse_v9 puf s i) <> Err EFuel.
Proof.
  unfold parse_v9, parse_layout. pose proof (parse_layout_no_fuel v9_header_layout [] i).
  destruct (parse_layout_aux v9_header_layout [] i) as [h r|e]; cbn [fst]; [|congruence].
  pose proof (parse_flowsets_no_fuel puf (N.to_nat (get_field v9_header_layout h "count")) s r).
  destruct (parse_flowsets _ _ s r) as [[l r'|e] s']; cbn [fst] in *; [discriminate|congruence].
Qed.

(* ---- IPFIX ---- *)
Lemma parse_ifield_no_fuel i : parse_ifield i <> Err EFuel.
Proof.
  unfold parse_ifield, bind. pose proof (u_s_no_fuel 2 i).
  destruct (u_s 2 i) as [n r|e]; [|congruence]. pose proof (u_s_no_fuel 2 r).
  destruct (u_s 2 r) as [l r'|e]; [|congruence].
  destruct (32767 <? n)%N; [|discriminate]. pose proof (u_s_no_fuel 4 r').
  destruct (u_s 4 r'); [discriminate|congruence].
Qed.

Lemma parse_field_length_ok f i len r :
  parse_field_length f i = Ok len r ->
  exists pre, i = pre ++ r /\
    ((if_len f =? 65535)%N = false /\ pre = [] /\ len = if_len f
     \/ ((if_len f =? 65535)%N = true /\ exists b, (bN b =? 255)%N = false /\ pre = [b] /\ len = bN b)
     \/ ((if_len f =? 65535)%N = true /\ exists l, pre = xff :: l /\ length l = 2%nat /\ len = be l)).
Proof.
  unfold parse_field_length, bind. destruct (if_len f =? 65535)%N eqn:E.
  - destruct (u_c 1 i) as [l r1|e] eqn:E1; [|discriminate].
    unfold u_c in E1. destruct (take 1 i) as [[a r1']|] eqn:Et; [|discriminate]. inversion E1; subst.
    apply take_spec in Et. destruct Et as [-> HL].
    destruct a as [|b [|? ?]]; try discriminate.
    assert (Hb : be [b] = bN b) by (unfold be; cbn; lia). rewrite Hb.
    destruct (bN b =? 255)%N eqn:E255.
    + intro H. unfold u_c in H. destruct (take 2 r1) as [[l r2]|] eqn:Et2; [|discriminate]. inversion H; subst.
      apply take_spec in Et2. destruct Et2 as [-> HL2].
      exists (b :: l). split; [reflexivity|]. right. right. split; [reflexivity|].
      exists l. repeat split; auto. f_equal.
      apply N.eqb_eq in E255. rewrite <- (byte_of_bN b), E255. reflexivity.
    + intro H. inversion H; subst. exists [b]. split; [reflexivity|]. right. left. split; [reflexivity|]. eauto.
  - intro H. inversion H; subst. exists []. split; [reflexivity|]. left. auto.
Qed.

(* remaining.len() - i.len() in FieldParser::parse is what ivalue_taken computes *)
Lemma parse_ivalue_ok puf f i v r :
  parse_ivalue puf f i = Ok v r ->
  exists pre, i = pre ++ r /\ N.of_nat (length pre) = ivalue_taken f i /\ fval_ok v.
Proof.
  unfold parse_ivalue, bind. destruct (parse_field_length f i) as [len r1|e] eqn:EL; [|discriminate].
  apply parse_field_length_ok in EL. destruct EL as [p1 [-> Hcases]].
  intro H.
  assert (Hval : exists p2, r1 = p2 ++ r /\ fval_ok v /\
                 N.of_nat (length p2) = match if_ent f with Some _ => len | None => consumed_of (ipfix_dtype (if_type f)) len end).
  { destruct (if_ent f).
    - apply pmap_ok in H. destruct H as [a [H ->]]. apply take_c_ok in H. destruct H as [-> HL].
      exists a. rewrite HL, N2Nat.id. cbn. auto.
    - apply from_field_type_ok in H. destruct H as [p2 [-> [HL Hok]]]. eauto. }
  destruct Hval as [p2 [-> [Hok HL2]]].
  exists (p1 ++ p2). rewrite <- app_assoc. split; [reflexivity|]. split; [|exact Hok].
  unfold ivalue_taken. rewrite app_length, Nat2N.inj_add, HL2.
  destruct Hcases as [[E [-> ->]]|[[E [b [Eb [-> ->]]]]|[E [l [-> [Hl ->]]]]]]; rewrite E; cbn [app length].
  - reflexivity.
  - rewrite Eb. reflexivity.
  - assert (Hx : (bN xff =? 255)%N = true) by reflexivity. rewrite Hx.
    rewrite <- Hl, take_app. cbn [length]. rewrite Hl. lia.
Qed.

Lemma parse_ivalue_no_fuel puf f i : parse_ivalue puf f i <> Err EFuel.
Proof.
  unfold parse_ivalue, bind, parse_field_length.
  destruct (if_len f =? 65535)%N.
  - unfold bind, u_c. destruct (take 1 i) as [[a r]|]; [|discriminate].
    destruct (be a =? 255)%N.
    + destruct (take 2 r) as [[l r2]|]; [|discriminate].
      destruct (if_ent f); [unfold pmap; pose proof (take_c_no_fuel (be l) r2); destruct (take_c (be l) r2); congruence|apply from_field_type_no_fuel].
    + destruct (if_ent f); [unfold pmap; pose proof (take_c_no_fuel (be a) r); destruct (take_c (be a) r); congruence|apply from_field_type_no_fuel].
  - destruct (if_ent f); [unfold pmap; pose proof (take_c_no_fuel (if_len f) i); destruct (take_c (if_len f) i); congruence|apply from_field_type_no_fuel].
Qed.

Definition ientries_ok (l : list ientry) : Prop := Forall (fun e : ientry => fval_ok (snd e)) l.

Lemma parse_irecord_ok puf fs : forall c i ents taken vt r,
  parse_irecord puf fs c i = Ok (ents, (taken, vt)) r ->
  exists pre, i = pre ++ r /\ N.of_nat (length pre) = taken /\ ientries_ok ents.
Proof.
  induction fs as [|f fs IH]; intros c i ents taken vt r H; cbn [parse_irecord] in H.
  - inversion H; subst. exists []. repeat split; constructor.
  - destruct (parse_ivalue puf f i) as [v r1|e] eqn:E1; [|discriminate].
    destruct (parse_irecord puf fs (c + 1) r1) as [[l [t vt']] r2|e] eqn:E2; [|discriminate].
    inversion H; subst. apply parse_ivalue_ok in E1. destruct E1 as [p1 [Hi [HL1 Hok]]].
    apply IH in E2. destruct E2 as [p2 [-> [HL2 Hoks]]].
    exists (p1 ++ p2). rewrite Hi at 1. rewrite <- app_assoc. split; [reflexivity|].
    split; [rewrite app_length, Nat2N.inj_add, HL1, HL2; reflexivity|constructor; assumption].
Qed.

Lemma parse_irecord_no_fuel puf fs : forall c i, parse_irecord puf fs c i <> Err EFuel.
Proof.
  induction fs as [|f fs IH]; intros c i; cbn [parse_irecord]; [discriminate|].
  pose proof (parse_ivalue_no_fuel puf f i). destruct (parse_ivalue puf f i) as [v r|e]; [|congruence].
  specialize (IH (c + 1)%N r). destruct (parse_irecord puf fs (c + 1) r) as [[l [t vt]] r'|e]; [discriminate|congruence].
Qed.

(* the record loop: each further pass needs taken > 0, so it strictly shortens the input *)
Lemma parse_irecords_no_fuel puf fs : forall fuel i, (length i < fuel)%nat -> parse_irecords fuel puf fs i <> Err EFuel.
Proof.
  induction fuel as [|fuel IH]; intros i H; [lia|]. cbn [parse_irecords].
  pose proof (parse_irecord_no_fuel puf fs 0%N i).
  destruct (parse_irecord puf fs 0 i) as [[ents [taken vt]] r|e] eqn:E; [|congruence].
  destruct (0 <? taken)%N eqn:Ht; cbn [andb]; [|discriminate].
  destruct (has_at_least _ r); [|discriminate].
  apply parse_irecord_ok in E. destruct E as [pre [-> [HL _]]]. apply N.ltb_lt in Ht.
  rewrite app_length in H. specialize (IH r ltac:(lia)).
  destruct (parse_irecords fuel puf fs r); [discriminate|congruence].
Qed.

Lemma parse_irecords_ok puf fs : forall fuel i ents r,
  parse_irecords fuel puf fs i = Ok ents r -> ientries_ok ents.
Proof.
  induction fuel as [|fuel IH]; intros i ents r H; cbn [parse_irecords] in H; [discriminate|].
  destruct (parse_irecord puf fs 0 i) as [[e1 [taken vt]] r1|e] eqn:E; [|discriminate].
  apply parse_irecord_ok in E. destruct E as [pre [_ [_ Hok]]].
  destruct ((0 <? taken)%N && has_at_least _ r1).
  - destruct (parse_irecords fuel puf fs r1) as [more r2|e] eqn:E2; [|discriminate]. inversion H; subst.
    apply Forall_app. split; [exact Hok|]. eapply IH; eauto.
  - inversion H; subst. exact Hok.
Qed.

Lemma parse_idata_no_fuel puf fs i : parse_idata puf fs i <> Err EFuel.
Proof.
  unfold parse_idata, bind. destruct (is_nil fs); [discriminate|].
  pose proof (parse_irecords_no_fuel puf fs (S (length i)) i ltac:(lia)).
  destruct (parse_irecords _ puf fs i); [discriminate|congruence].
Qed.

Lemma parse_itemplate_no_fuel i : parse_itemplate i <> Err EFuel.
Proof.
  unfold parse_itemplate, bind. pose proof (u_s_no_fuel 2 i).
  destruct (u_s 2 i) as [n r|e]; [|congruence]. pose proof (u_s_no_fuel 2 r).
  destruct (u_s 2 r) as [c r'|e]; [|congruence].
  pose proof (many0_no_fuel _ (complete_no_fuel _ parse_ifield_no_fuel) r').
  destruct (many0 (complete parse_ifield) r'); [discriminate|congruence].
Qed.

Lemma parse_iotemplate_no_fuel i : parse_iotemplate i <> Err EFuel.
Proof.
  unfold parse_iotemplate, bind. pose proof (u_s_no_fuel 2 i).
  destruct (u_s 2 i) as [n r|e]; [|congruence]. pose proof (u_s_no_fuel 2 r).
  destruct (u_s 2 r) as [c r1|e]; [|congruence]. pose proof (u_s_no_fuel 2 r1).
  destruct (u_s 2 r1) as [sc r2|e]; [|congruence].
  pose proof (count_no_fuel parse_ifield (N.to_nat (combined_count c sc)) parse_ifield_no_fuel r2).
  destruct (count _ parse_ifield r2); [discriminate|congruence].
Qed.

Lemma parse_ibody_no_fuel puf id s i : fst (parse_ibody puf id s i) <> Err EFuel.
Proof.
  unfold parse_ibody.
  destruct ((id <? ipfix_set_min_range)%N && negb (id =? ipfix_options_template_id)%N).
  { pose proof (parse_itemplate_no_fuel i). destruct (parse_itemplate i) as [t r|e]; cbn [fst]; [|congruence].
    destruct (fields_valid (it_fields t)); cbn [fst]; discriminate. }
  destruct (id =? ipfix_options_template_id)%N.
  { pose proof (parse_iotemplate_no_fuel i). destruct (parse_iotemplate i) as [t r|e]; cbn [fst]; [|congruence].
    destruct (fields_valid (io_fields t)); cbn [fst]; discriminate. }
  destruct (lookup id (ix_t s)) as [t|].
  { pose proof (parse_idata_no_fuel puf (it_fields t) i).
    destruct (parse_idata puf (it_fields t) i) as [[ents pad] r|e]; cbn [fst]; [discriminate|congruence]. }
  destruct (lookup id (ix_o s)) as [t|]; [|cbn [fst]; discriminate].
  pose proof (parse_idata_no_fuel puf (io_fields t) i).
  destruct (parse_idata puf (io_fields t) i) as [[ents pad] r|e]; cbn [fst]; [discriminate|congruence].
Qed.

Lemma parse_iset_no_fuel puf s i : fst (parse_iset puf s i) <> Err EFuel.
Proof.
  unfold parse_iset. pose proof (u_s_no_fuel 2 i).
  destruct (u_s 2 i) as [id r|e]; cbn [fst]; [|congruence]. pose proof (u_s_no_fuel 2 r).
  destruct (u_s 2 r) as [len r'|e]; cbn [fst]; [|congruence].
  pose proof (map_res_take_st_no_fuel (len - 4) (parse_ibody puf id) s r' (parse_ibody_no_fuel puf id)).
  destruct (map_res_take_st _ _ s r') as [[b r2|e] s2]; cbn [fst] in *; [discriminate|congruence].
Qed.

Lemma complete_st_no_fuel {St A} (p : sparser St A) :
  (forall s i, fst (p s i) <> Err EFuel) -> forall s i, fst (complete_st p s i) <> Err EFuel.
Proof. intros Hp s i. unfold complete_st. specialize (Hp s i). destruct (p s i) as [[a r|[]] s']; cbn [fst] in *; congruence. Qed.

Lemma parse_ipfix_no_fuel puf s i : fst (parse_ipfix puf s i) <> Err EFuel.
Proof.
  unfold parse_ipfix, parse_layout. pose proof (parse_layout_no_fuel ipfix_header_layout [] i).
  destruct (parse_layout_aux ipfix_header_layout [] i) as [h r|e]; cbn [fst]; [|congruence].
  pose proof (map_res_take_st_no_fuel (get_field ipfix_header_layout h "length" - 16)
                (many0_st (complete_st (parse_iset puf))) s r) as Hm.
  destruct (map_res_take_st _ _ s r) as [[sets r'|e] s'] eqn:E; cbn [fst] in *; [discriminate|].
  intro He. apply Hm; [|congruence].
  intros s0 b. unfold many0_st. apply many0_st_aux_no_fuel; [|lia].
  apply complete_st_no_fuel. apply parse_iset_no_fuel.
Qed.

(* ---- the top level ---- *)
Definition no_fuel_elem (e : elem) : Prop :=
  match e with
  | PErr (NIncomplete EFuel) _ | PErr (NPartial _ _ EFuel) _ => False
  | _ => True
  end.

Lemma parse_one_no_fuel puf allow s x :
  match parse_one puf allow s x with
  | StErr e _ | StOk e _ _ => no_fuel_elem e
  | StStop => True
  end.
Proof.
  unfold parse_one. pose proof (u_s_no_fuel 2 x).
  destruct (u_s 2 x) as [v body|k]; [|destruct k; cbn; auto; congruence].
  destruct (negb (allow v)); [exact I|].
  destruct (version_kind v) as [[]|]; [| | | |exact I].
  - pose proof (parse_fixed_no_fuel v5_header_layout v5_record_layout v5_count_field body).
    unfold parse_v5. destruct (parse_fixed _ _ _ body) as [p r|k]; [exact I|destruct k; cbn; auto; congruence].
  - pose proof (parse_fixed_no_fuel v7_header_layout v7_record_layout v7_count_field body).
    unfold parse_v7. destruct (parse_fixed _ _ _ body) as [p r|k]; [exact I|destruct k; cbn; auto; congruence].
  - pose proof (parse_v9_no_fuel puf (st9 s) body).
    destruct (parse_v9 puf (st9 s) body) as [[p r|k] s9]; cbn [fst] in *; [exact I|destruct k; cbn; auto; congruence].
  - pose proof (parse_ipfix_no_fuel puf (stx s) body).
    destruct (parse_ipfix puf (stx s) body) as [[p r|k] sx]; cbn [fst] in *; [exact I|destruct k; cbn; auto; congruence].
Qed.

Lemma run_no_fuel puf allow : forall fuel s x r,
  run fuel puf allow s x = Some r -> Forall (fun es => no_fuel_elem (fst es)) r.
Proof.
  induction fuel as [|fuel IH]; intros s x r H.
  - destruct x; [|discriminate]. inversion H; constructor.
  - destruct x as [|b x']; [inversion H; constructor|]. cbn [run] in H.
    pose proof (parse_one_no_fuel puf allow s (b :: x')) as Hn.
    destruct (parse_one puf allow s (b :: x')) as [|e s'|e rest s'].
    + inversion H; constructor.
    + inversion H; subst. repeat constructor. exact Hn.
    + destruct (is_nil rest); [inversion H; subst; repeat constructor; exact Hn|].
      destruct (run fuel puf allow s' rest) as [r'|] eqn:Er; [|discriminate]. inversion H; subst.
      constructor; [exact Hn|]. eapply IH; eauto.
Qed.
