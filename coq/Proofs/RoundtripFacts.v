(* Proofs/RoundtripFacts.v — C08/C09/C10 over a whole buffer: the concatenated re-export of
   everything parse_bytes reports is exactly the prefix of the buffer it consumed, provided every
   element is of the lossless kind (V5/V7 always; V9 v9_lossless; IPFIX ix_lossless w.r.t. the
   caches the message met). *)
From NF Require Import Base Nom Types Layout Value V9 Ipfix Parser Export.
From NF Require Import BaseFacts NomFacts LayoutFacts FixedFacts C08Proofs ParserFacts RunFacts PacketFacts IxPacketFacts.
From Coq Require Import Lia.
Open Scope string_scope.
Open Scope list_scope.

Definition elem_lossless (s : pstate) (e : elem) : bool :=
  match e with
  | PV5 _ | PV7 _ => true
  | PV9 p => v9_lossless p
  | PIx p => ix_lossless (stx s) p
  | PErr _ _ => false
  end.

(* each element judged against the state the parser was in when it met it *)
Fixpoint lossless_run (s : pstate) (r : list (elem * pstate)) : bool :=
  match r with
  | [] => true
  | (e, s') :: r' => elem_lossless s e && lossless_run s' r'
  end.

Fixpoint export_run (r : list (elem * pstate)) : xres :=
  match r with
  | [] => XOk []
  | (e, _) :: r' => xseq (match export_elem e with Some x => x | None => XOk [] end) (export_run r')
  end.

Lemma step_reexport puf allow s x e rest s' :
  parse_one puf allow s x = StOk e rest s' -> elem_lossless s e = true ->
  exists pre, x = pre ++ rest /\ export_elem e = Some (XOk pre).
Proof.
  intros H Hl. destruct e as [p|p|p|p|err b]; cbn [elem_lossless] in Hl.
  - destruct (v5_parse_export _ _ _ _ _ _ _ H) as [Hx _]. exists (export_v5 p). split; [exact Hx|reflexivity].
  - destruct (v7_parse_export _ _ _ _ _ _ _ H) as [Hx _]. exists (export_v7 p). split; [exact Hx|reflexivity].
  - destruct (v9_step_reexport _ _ _ _ _ _ _ H Hl) as [pre [Hx He]]. exists pre. split; [exact Hx|]. cbn [export_elem]. now rewrite He.
  - destruct (ix_step_reexport _ _ _ _ _ _ _ H Hl) as [pre [Hx He]]. exists pre. split; [exact Hx|]. cbn [export_elem]. now rewrite He.
  - discriminate.
Qed.

Lemma run_reexport puf allow : forall fuel s x r,
  run fuel puf allow s x = Some r -> lossless_run s r = true ->
  exists pre rest, x = pre ++ rest /\ export_run r = XOk pre /\ length pre = total_wire (map fst r).
Proof.
  induction fuel as [|fuel IH]; intros s x r H Hl.
  - destruct x; [|discriminate]. inversion H; subst. exists [], []. repeat split.
  - destruct x as [|b x']; [inversion H; subst; exists [], []; repeat split|].
    cbn [run] in H. set (x := b :: x') in *.
    destruct (parse_one puf allow s x) as [|e s'|e rest s'] eqn:E.
    + inversion H; subst. exists [], x. repeat split.
    + inversion H; subst. cbn [lossless_run] in Hl. apply andb_prop in Hl. destruct Hl as [Hl _].
      apply parse_one_err_inv in E. destruct E as [err ->]. discriminate.
    + pose proof (parse_one_consumes _ _ _ _ _ _ _ E) as [pre0 [Hx0 [HL0 _]]].
      destruct (is_nil rest) eqn:En.
      * inversion H; subst. cbn [lossless_run] in Hl. apply andb_prop in Hl. destruct Hl as [Hl _].
        destruct (step_reexport _ _ _ _ _ _ _ E Hl) as [pre [Hx He]].
        exists pre, rest. split; [exact Hx|]. cbn [export_run map fst total_wire fold_right]. rewrite He. cbn [xseq xpre].
        rewrite app_nil_r. split; [reflexivity|].
        rewrite Hx0 in Hx. apply app_inv_tail in Hx. subst pre0. lia.
      * destruct (run fuel puf allow s' rest) as [r'|] eqn:Er; [|discriminate]. inversion H; subst.
        cbn [lossless_run] in Hl. apply andb_prop in Hl. destruct Hl as [Hl Hl'].
        destruct (step_reexport _ _ _ _ _ _ _ E Hl) as [pre [Hx He]].
        destruct (IH _ _ _ Er Hl') as [pre' [rest' [Hr [He' HL']]]].
        exists (pre ++ pre'), rest'. rewrite <- app_assoc, <- Hr. split; [exact Hx|].
        cbn [export_run map fst total_wire fold_right]. fold (total_wire (map fst r')). rewrite He, He'. cbn [xseq xpre].
        split; [reflexivity|]. rewrite app_length, HL'.
        rewrite Hx0 in Hx. apply app_inv_tail in Hx. subst pre0. lia.
Qed.
