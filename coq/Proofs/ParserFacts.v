(* Proofs/ParserFacts.v — parse_one (version dispatch) and run (packet chaining). *)
From NF Require Import Base Nom Types Layout Value V9 Ipfix Parser BaseFacts NomFacts LayoutFacts FixedFacts.
From Coq Require Import Lia.
Open Scope list_scope.

Lemma version_word (x : bytes) (v : N) :
  v < 65536 -> firstn 2 x = enc 2 v -> x = enc 2 v ++ skipn 2 x /\ u_s 2 x = Ok v (skipn 2 x).
Proof.
  intros Hv H. assert (Hx : x = enc 2 v ++ skipn 2 x) by (rewrite <- H; symmetry; apply firstn_skipn).
  split; [exact Hx|]. rewrite Hx at 1. apply u_s_enc. exact Hv.
Qed.

Lemma version_word_inv (x : bytes) v body : u_s 2 x = Ok v body -> firstn 2 x = enc 2 v /\ body = skipn 2 x /\ v < 65536.
Proof.
  intro H. apply u_s_ok in H. destruct H as [-> Hb].
  rewrite firstn_app, enc_length, Nat.sub_diag, app_nil_r.
  rewrite <- (enc_length 2 v) at 1. rewrite firstn_all.
  rewrite <- (enc_length 2 v) at 3. rewrite skipn_app, skipn_all, enc_length, Nat.sub_diag. auto.
Qed.

Lemma parse_one_v5 puf allow s x :
  allow 5 = true -> firstn 2 x = enc 2 5 ->
  parse_one puf allow s x =
  match parse_v5 (skipn 2 x) with
  | Ok p rest => StOk (PV5 p) rest s
  | Err k => StErr (PErr (NPartial 5 (skipn 2 x) k) x) s
  end.
Proof.
  intros Ha Hv. destruct (version_word x 5 ltac:(reflexivity) Hv) as [_ Hu].
  unfold parse_one. rewrite Hu, Ha. reflexivity.
Qed.

Lemma parse_one_v7 puf allow s x :
  allow 7 = true -> firstn 2 x = enc 2 7 ->
  parse_one puf allow s x =
  match parse_v7 (skipn 2 x) with
  | Ok p rest => StOk (PV7 p) rest s
  | Err k => StErr (PErr (NPartial 7 (skipn 2 x) k) x) s
  end.
Proof.
  intros Ha Hv. destruct (version_word x 7 ltac:(reflexivity) Hv) as [_ Hu].
  unfold parse_one. rewrite Hu, Ha. reflexivity.
Qed.

Lemma parse_one_v9 puf allow s x :
  allow 9 = true -> firstn 2 x = enc 2 9 ->
  parse_one puf allow s x =
  match parse_v9 puf (st9 s) (skipn 2 x) with
  | (Ok p rest, s9) => StOk (PV9 p) rest {| st9 := s9; stx := stx s |}
  | (Err k, s9) => StErr (PErr (NPartial 9 (skipn 2 x) k) x) {| st9 := s9; stx := stx s |}
  end.
Proof.
  intros Ha Hv. destruct (version_word x 9 ltac:(reflexivity) Hv) as [_ Hu].
  unfold parse_one. rewrite Hu, Ha. reflexivity.
Qed.

Lemma parse_one_ipfix puf allow s x :
  allow 10 = true -> firstn 2 x = enc 2 10 ->
  parse_one puf allow s x =
  match parse_ipfix puf (stx s) (skipn 2 x) with
  | (Ok p rest, sx) => StOk (PIx p) rest {| st9 := st9 s; stx := sx |}
  | (Err k, sx) => StErr (PErr (NPartial 10 (skipn 2 x) k) x) {| st9 := st9 s; stx := sx |}
  end.
Proof.
  intros Ha Hv. destruct (version_word x 10 ltac:(reflexivity) Hv) as [_ Hu].
  unfold parse_one. rewrite Hu, Ha. reflexivity.
Qed.

Lemma parse_one_unallowed puf allow s x v :
  v < 65536 -> firstn 2 x = enc 2 v -> allow v = false -> parse_one puf allow s x = StStop.
Proof.
  intros Hb Hv Ha. destruct (version_word x v Hb Hv) as [_ Hu]. unfold parse_one. now rewrite Hu, Ha.
Qed.

Lemma parse_one_short puf allow s x : (length x < 2)%nat -> parse_one puf allow s x = StErr (PErr (NIncomplete EIncomplete) x) s.
Proof. intro H. unfold parse_one. now rewrite u_s_short. Qed.

(* ---- the dispatch table, as a function on every version number ---- *)
Lemma version_kind_spec v :
  version_kind v = if v =? 5 then Some K5 else if v =? 7 then Some K7
                   else if v =? 9 then Some K9 else if v =? 10 then Some K10 else None.
Proof.
  unfold version_kind, version_dispatch. cbn [assoc_str].
  destruct (v =? 5); [reflexivity|]. destruct (v =? 7); [reflexivity|].
  destruct (v =? 9); [reflexivity|]. destruct (v =? 10); reflexivity.
Qed.

Lemma version_kind_inv v k : version_kind v = Some k ->
  match k with K5 => v = 5 | K7 => v = 7 | K9 => v = 9 | K10 => v = 10 end.
Proof.
  rewrite version_kind_spec.
  destruct (v =? 5) eqn:E5; [intro H; inversion H; now apply N.eqb_eq|].
  destruct (v =? 7) eqn:E7; [intro H; inversion H; now apply N.eqb_eq|].
  destruct (v =? 9) eqn:E9; [intro H; inversion H; now apply N.eqb_eq|].
  destruct (v =? 10) eqn:E10; [intro H; inversion H; now apply N.eqb_eq|discriminate].
Qed.

(* every way parse_one can report a packet *)
Inductive ok_step (puf : bool) (s : pstate) (body : bytes) : elem -> bytes -> pstate -> N -> Prop :=
| OkV5 p rest : parse_v5 body = Ok p rest -> ok_step puf s body (PV5 p) rest s 5
| OkV7 p rest : parse_v7 body = Ok p rest -> ok_step puf s body (PV7 p) rest s 7
| OkV9 p rest s9 : parse_v9 puf (st9 s) body = (Ok p rest, s9) ->
                   ok_step puf s body (PV9 p) rest {| st9 := s9; stx := stx s |} 9
| OkIx p rest sx : parse_ipfix puf (stx s) body = (Ok p rest, sx) ->
                   ok_step puf s body (PIx p) rest {| st9 := st9 s; stx := sx |} 10.

Lemma parse_one_ok_inv puf allow s x e rest s' :
  parse_one puf allow s x = StOk e rest s' ->
  exists v, firstn 2 x = enc 2 v /\ allow v = true /\ ok_step puf s (skipn 2 x) e rest s' v.
Proof.
  unfold parse_one. destruct (u_s 2 x) as [v body|k] eqn:Eu; [|discriminate].
  apply version_word_inv in Eu. destruct Eu as [Hf [-> Hb]].
  destruct (allow v) eqn:Ea; cbn [negb]; [|discriminate].
  destruct (version_kind v) as [[]|] eqn:Ek; [| | | |discriminate]; apply version_kind_inv in Ek; subst v; intro H.
  - destruct (parse_v5 (skipn 2 x)) as [p r|k] eqn:E; inversion H; subst. exists 5. repeat split; auto. now constructor.
  - destruct (parse_v7 (skipn 2 x)) as [p r|k] eqn:E; inversion H; subst. exists 7. repeat split; auto. now constructor.
  - destruct (parse_v9 puf (st9 s) (skipn 2 x)) as [[p r|k] s9] eqn:E; inversion H; subst. exists 9. repeat split; auto. now constructor.
  - destruct (parse_ipfix puf (stx s) (skipn 2 x)) as [[p r|k] sx] eqn:E; inversion H; subst. exists 10. repeat split; auto. now constructor.
Qed.
