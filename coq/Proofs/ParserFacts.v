(* Proofs/ParserFacts.v — parse_one (version dispatch) and run (packet chaining). *)
From NF Require Import Base Nom Types Layout Value V9 Ipfix Parser BaseFacts NomFacts LayoutFacts FixedFacts.
From Coq Require Import Lia.
Open Scope list_scope.

Lemma version_word (x : bytes) (v : N) :
  v < 65536 -> firstn 2 x = enc 2 v -> x = enc 2 v ++ skipn 2 x /\ u_s 2 x = Ok v (skipn 2 x).
Proof.
  intros Hv H. assert (Hx : x = enc 2 v ++ skipn 2 x) by (rewrite <- H; symmetry; apply firstn_skipn).
  split; [exact Hx|]. rewrite Hx at 1. apply u_s_enc. exact Hv.
Qed.

Lemma version_word_inv (x : bytes) v body : u_s 2 x = Ok v body -> firstn 2 x = enc 2 v /\ body = skipn 2 x /\ v < 65536.
Proof.
  intro H. apply u_s_ok in H. destruct H as [-> Hb].
  rewrite firstn_app, enc_length, Nat.sub_diag, app_nil_r.
  rewrite <- (enc_length 2 v) at 1. rewrite firstn_all.
  rewrite <- (enc_length 2 v) at 3. rewrite skipn_app, skipn_all, enc_length, Nat.sub_diag. auto.
Qed.

Lemma parse_one_v5 puf allow s x :
  allow 5 = true -> firstn 2 x = enc 2 5 ->
  parse_one puf allow s x =
  match parse_v5 (skipn 2 x) with
  | Ok p rest => StOk (PV5 p) rest s
  | Err k => StErr (PErr (NPartial 5 (skipn 2 x) k) x) s
  end.
Proof.
  intros Ha Hv. destruct (version_word x 5 ltac:(reflexivity) Hv) as [_ Hu].
  unfold parse_one. rewrite Hu, Ha. reflexivity.
Qed.

Lemma parse_one_v7 puf allow s x :
  allow 7 = true -> firstn 2 x = enc 2 7 ->
  parse_one puf allow s x =
  match parse_v7 (skipn 2 x) with
  | Ok p rest => StOk (PV7 p) rest s
  | Err k => StErr (PErr (NPartial 7 (skipn 2 x) k) x) s
  end.
Proof.
  intros Ha Hv. destruct (version_word x 7 ltac:(reflexivity) Hv) as [_ Hu].
  unfold parse_one. rewrite Hu, Ha. reflexivity.
Qed.

Lemma parse_one_v9 puf allow s x :
  allow 9 = true -> firstn 2 x = enc 2 9 ->
  parse_one puf allow s x =
  match parse_v9 puf (st9 s) (skipn 2 x) with
  | (Ok p rest, s9) => StOk (PV9 p) rest {| st9 := s9; stx := stx s |}
  | (Err k, s9) => StErr (PErr (NPartial 9 (skipn 2 x) k) x) {| st9 := s9; stx := stx s |}
  end.
Proof.
  intros Ha Hv. destruct (version_word x 9 ltac:(reflexivity) Hv) as [_ Hu].
  unfold parse_one. rewrite Hu, Ha. reflexivity.
Qed.

Lemma parse_one_ipfix puf allow s x :
  allow 10 = true -> firstn 2 x = enc 2 10 ->
  parse_one puf allow s x =
  match parse_ipfix puf (stx s) (skipn 2 x) with
  | (Ok p rest, sx) => StOk (PIx p) rest {| st9 := st9 s; stx := sx |}
  | (Err k, sx) => StErr (PErr (NPartial 10 (skipn 2 x) k) x) {| st9 := st9 s; stx := sx |}
  end.
Proof.
  intros Ha Hv. destruct (version_word x 10 ltac:(reflexivity) Hv) as [_ Hu].
  unfold parse_one. rewrite Hu, Ha. reflexivity.
Qed.

Lemma parse_one_unallowed puf allow s x v :
  v < 65536 -> firstn 2 x = enc 2 v -> allow v = false -> parse_one puf allow s x = StStop.
Proof.
  intros Hb Hv Ha. destruct (version_word x v Hb Hv) as [_ Hu]. unfold parse_one. now rewrite Hu, Ha.
Qed.

Lemma parse_one_short puf allow s x : (length x < 2)%nat -> parse_one puf allow s x = StErr (PErr (NIncomplete EIncomplete) x) s.
Proof. intro H. unfold parse_one. now rewrite u_s_short. Qed.
