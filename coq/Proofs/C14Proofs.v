(* Proofs/C14Proofs.v — truncated packets are errors. *)
From NF Require Import Base Nom Types Layout Value V9 Ipfix Parser.
From NF Require Import BaseFacts NomFacts LayoutFacts FixedFacts VarFacts ParserFacts RunFacts C03Proofs.
From Coq Require Import Lia ZifyBool ZifyNat ZifyN.
Ltac Zify.zify_post_hook ::= Z.div_mod_to_equations.
Open Scope string_scope.
Open Scope list_scope.

(* the IPFIX length field is the 16-bit number at offset 2 *)
Lemma ipfix_header_length i h r :
  parse_layout ipfix_header_layout i = Ok h r ->
  get_field ipfix_header_layout h "length" = be (firstn 2 i).
Proof.
  unfold parse_layout. intro H. apply parse_layout_aux_ok in H. destruct H as [-> Hwf].
  pose proof (wf_vals_length _ _ _ Hwf) as HL.
  do 5 (destruct h as [|? h]; [discriminate HL|]). destruct h; [|discriminate HL].
  cbn in Hwf. destruct Hwf as [_ [Hn _]].
  cbn [wire_bytes ipfix_header_layout on_wire f_kind f_width app get_field f_name String.eqb Ascii.eqb Bool.eqb].
  cbn. rewrite !bN_byte_of. change (N.of_nat 2) with 2%N in Hn. change (256 ^ 2)%N with 65536%N in Hn. lia.
Qed.

Lemma ipfix_short puf allow s x :
  allow 10 = true -> firstn 2 x = enc 2 10 ->
  (length x < 16 \/ length x < N.to_nat (be (slice x 2 2)))%nat ->
  exists k, parse_one puf allow s x = StErr (PErr (NPartial 10 (skipn 2 x) k) x) s /\ k <> EFuel.
Proof.
  intros Ha Hv Hlen. rewrite (parse_one_ipfix puf allow s x Ha Hv).
  assert (Hx : x = enc 2 10 ++ skipn 2 x) by (rewrite <- Hv; symmetry; apply firstn_skipn).
  set (body := skipn 2 x) in *.
  assert (Hbl : length x = (2 + length body)%nat) by (rewrite Hx, app_length, enc_length; reflexivity).
  destruct (Nat.lt_ge_cases (length body) 14) as [Hs|Hl].
  - destruct (parse_ipfix_header_short puf (stx s) body Hs) as [e [-> He]]. exists e. destruct s; auto.
  - destruct Hlen as [Hlen|Hlen]; [lia|].
    destruct (parse_layout_aux_long ipfix_header_layout [] body ltac:(rewrite ipfix_header_width; exact Hl)) as [h [r Eh]].
    pose proof (ipfix_header_length body h r Eh) as Hlenf.
    destruct (parse_layout_rest _ _ _ _ _ Eh) as [Hr _]. rewrite ipfix_header_width in Hr.
    assert (Hsl : slice x 2 2 = firstn 2 body) by reflexivity.
    rewrite Hsl in Hlen.
    rewrite (parse_ipfix_short puf (stx s) body h r Eh).
    + exists EError. destruct s; split; [reflexivity|discriminate].
    + rewrite Hlenf, Hr, skipn_length. lia.
Qed.

(* a V9 flowset whose announced bytes are not all there *)
Lemma v9_flowset_short puf s i :
  i <> [] ->
  (length i < 4 \/ length i < 4 + N.to_nat (be (slice i 2 2) - 4))%nat ->
  exists e, parse_flowset puf s i = (Err e, s) /\ e <> EFuel.
Proof.
  intros Hne Hlen. unfold parse_flowset.
  destruct (Nat.lt_ge_cases (length i) 2) as [H2|H2].
  { rewrite u_s_short by exact H2. eexists; split; [reflexivity|discriminate]. }
  rewrite u_s_long by exact H2.
  destruct (Nat.lt_ge_cases (length i) 4) as [H4|H4].
  { rewrite u_s_short by (rewrite skipn_length; lia). eexists; split; [reflexivity|discriminate]. }
  rewrite u_s_long by (rewrite skipn_length; lia).
  destruct Hlen as [Hlen|Hlen]; [lia|].
  rewrite map_res_take_st_short.
  - eexists; split; [reflexivity|discriminate].
  - rewrite skipn_skipn, skipn_length. unfold slice in Hlen. cbn [Nat.add]. lia.
Qed.
