(* Proofs/VarFacts.v — V9 and IPFIX packets: how many bytes a decoded packet occupied (read from
   its own header fields), framing, and what a failed parse leaves behind. *)
From NF Require Import Base Nom Types Layout Value V9 Ipfix BaseFacts NomFacts LayoutFacts FixedFacts.
From Coq Require Import Lia.
Open Scope string_scope.
Open Scope list_scope.

(* ---- V9 ---- *)
Definition flowset_wire (f : v9_flowset) : nat := (4 + N.to_nat (fs_len f - 4))%nat.

Lemma parse_flowset_ok puf s i f r s' :
  parse_flowset puf s i = (Ok f r, s') ->
  exists body r0, i = enc 2 (fs_id f) ++ enc 2 (fs_len f) ++ body ++ r
    /\ length body = N.to_nat (fs_len f - 4)
    /\ parse_body puf (fs_id f) s body = (Ok (fs_body f) r0, s').
Proof.
  unfold parse_flowset. intro H.
  destruct (u_s 2 i) as [id r1|e] eqn:E1; [|inversion H].
  destruct (u_s 2 r1) as [len r2|e] eqn:E2; [|inversion H].
  destruct (map_res_take_st (len - 4) (parse_body puf id) s r2) as [[b r3|e] s3] eqn:E3; inversion H; subst.
  apply u_s_ok in E1. destruct E1 as [-> _]. apply u_s_ok in E2. destruct E2 as [-> _].
  apply map_res_take_st_ok in E3. destruct E3 as [body [r0 [-> [HL Hb]]]].
  exists body, r0. cbn [fs_id fs_len fs_body]. auto.
Qed.

Lemma parse_flowset_consumes puf s i f r s' :
  parse_flowset puf s i = (Ok f r, s') -> exists pre, i = pre ++ r /\ length pre = flowset_wire f.
Proof.
  intro H. apply parse_flowset_ok in H. destruct H as [body [r0 [-> [HL _]]]].
  exists (enc 2 (fs_id f) ++ enc 2 (fs_len f) ++ body). rewrite <- !app_assoc. split; [reflexivity|].
  unfold flowset_wire. rewrite !app_length, !enc_length, HL. lia.
Qed.

Lemma parse_flowset_frames puf s i f r s' z :
  parse_flowset puf s i = (Ok f r, s') -> parse_flowset puf s (i ++ z) = (Ok f (r ++ z), s').
Proof.
  unfold parse_flowset. intro H.
  destruct (u_s 2 i) as [id r1|e] eqn:E1; [|inversion H]. rewrite (u_s_frames _ _ _ _ z E1).
  destruct (u_s 2 r1) as [len r2|e] eqn:E2; [|inversion H]. rewrite (u_s_frames _ _ _ _ z E2).
  destruct (map_res_take_st (len - 4) (parse_body puf id) s r2) as [[b r3|e] s3] eqn:E3; inversion H; subst.
  now rewrite (map_res_take_st_frames _ _ _ _ _ _ _ z E3).
Qed.

Definition flowsets_wire (l : list v9_flowset) : nat := fold_right (fun f acc => flowset_wire f + acc)%nat O l.

Lemma parse_flowsets_consumes puf n : forall s i l r s',
  parse_flowsets puf n s i = (Ok l r, s') -> exists pre, i = pre ++ r /\ length pre = flowsets_wire l.
Proof.
  induction n as [|n IH]; intros s i l r s' H; cbn [parse_flowsets] in H.
  - inversion H; subst. exists []. split; reflexivity.
  - destruct i as [|b i']; cbn [is_nil] in H.
    + inversion H; subst. exists []. split; reflexivity.
    + destruct (parse_flowset puf s (b :: i')) as [[f r1|e] s1] eqn:E1; [|inversion H].
      destruct (parse_flowsets puf n s1 r1) as [[l' r2|e] s2] eqn:E2; inversion H; subst.
      apply parse_flowset_consumes in E1. destruct E1 as [p1 [-> H1]].
      apply IH in E2. destruct E2 as [p2 [-> H2]].
      exists (p1 ++ p2). rewrite <- app_assoc. split; [reflexivity|].
      rewrite app_length. cbn [flowsets_wire fold_right]. fold (flowsets_wire l'). lia.
Qed.

Lemma parse_flowsets_length puf n : forall s i l r s',
  parse_flowsets puf n s i = (Ok l r, s') -> (length l <= n)%nat.
Proof.
  induction n as [|n IH]; intros s i l r s' H; cbn [parse_flowsets] in H.
  - inversion H; subst. cbn. lia.
  - destruct (is_nil i); [inversion H; subst; cbn; lia|].
    destruct (parse_flowset puf s i) as [[f r1|e] s1] eqn:E1; [|inversion H].
    destruct (parse_flowsets puf n s1 r1) as [[l' r2|e] s2] eqn:E2; inversion H; subst.
    apply IH in E2. cbn. lia.
Qed.

(* framing holds when the loop stopped because the count was reached (RFC 3954 reading of C11:
   count = number of flowsets present), not because the input ran out *)
Lemma parse_flowsets_frames puf n : forall s i l r s' z,
  parse_flowsets puf n s i = (Ok l r, s') -> length l = n ->
  parse_flowsets puf n s (i ++ z) = (Ok l (r ++ z), s').
Proof.
  induction n as [|n IH]; intros s i l r s' z H HL; cbn [parse_flowsets] in *.
  - inversion H; subst. reflexivity.
  - destruct i as [|b i']; cbn [is_nil] in H.
    + inversion H; subst. discriminate.
    + cbn [app is_nil].
      destruct (parse_flowset puf s (b :: i')) as [[f r1|e] s1] eqn:E1; [|inversion H].
      destruct (parse_flowsets puf n s1 r1) as [[l' r2|e] s2] eqn:E2; inversion H; subst.
      change (b :: i' ++ z) with ((b :: i') ++ z).
      rewrite (parse_flowset_frames _ _ _ _ _ _ z E1).
      cbn in HL. rewrite (IH _ _ _ _ _ z E2) by lia. reflexivity.
Qed.

Definition v9_count (p : v9_packet) : N := get_field v9_header_layout (v9_header p) "count".
Definition v9_wire (p : v9_packet) : nat := (20 + flowsets_wire (v9_sets p))%nat.

Lemma v9_header_width : wire_width v9_header_layout = 18%nat.
Proof. reflexivity. Qed.
Lemma ipfix_header_width : wire_width ipfix_header_layout = 14%nat.
Proof. reflexivity. Qed.

Lemma parse_v9_consumes puf s i p r s' :
  parse_v9 puf s i = (Ok p r, s') -> exists pre, i = pre ++ r /\ (2 + length pre = v9_wire p)%nat.
Proof.
  unfold parse_v9. intro H.
  destruct (parse_layout v9_header_layout i) as [h r1|e] eqn:E1; [|inversion H].
  destruct (parse_flowsets _ _ _ r1) as [[l r2|e] s2] eqn:E2; inversion H; subst.
  unfold parse_layout in E1. apply parse_layout_aux_ok in E1. destruct E1 as [-> Hwf].
  apply parse_flowsets_consumes in E2. destruct E2 as [p2 [-> H2]].
  exists (wire_bytes v9_header_layout h ++ p2). rewrite <- app_assoc. split; [reflexivity|].
  rewrite app_length, (wire_bytes_length _ _ (wf_vals_length _ _ _ Hwf)), v9_header_width.
  unfold v9_wire. cbn [v9_sets]. lia.
Qed.

Lemma parse_v9_frames puf s i p r s' z :
  parse_v9 puf s i = (Ok p r, s') -> length (v9_sets p) = N.to_nat (v9_count p) ->
  parse_v9 puf s (i ++ z) = (Ok p (r ++ z), s').
Proof.
  unfold parse_v9, v9_count. intros H HL.
  destruct (parse_layout v9_header_layout i) as [h r1|e] eqn:E1; [|inversion H].
  unfold parse_layout in *. rewrite (parse_layout_aux_frames _ _ _ _ _ z E1).
  destruct (parse_flowsets _ _ _ r1) as [[l r2|e] s2] eqn:E2; inversion H; subst.
  cbn [v9_sets v9_header] in HL.
  now rewrite (parse_flowsets_frames _ _ _ _ _ _ _ z E2 HL).
Qed.

(* ---- IPFIX ---- *)
Definition ix_length (p : ix_packet) : N := get_field ipfix_header_layout (ix_header p) "length".
Definition ix_wire (p : ix_packet) : nat := (16 + N.to_nat (ix_length p - 16))%nat.

Lemma ix_wire_max p : ix_wire p = N.to_nat (N.max (ix_length p) 16).
Proof. unfold ix_wire. lia. Qed.

Lemma parse_ipfix_consumes puf s i p r s' :
  parse_ipfix puf s i = (Ok p r, s') -> exists pre, i = pre ++ r /\ (2 + length pre = ix_wire p)%nat.
Proof.
  unfold parse_ipfix. intro H.
  destruct (parse_layout ipfix_header_layout i) as [h r1|e] eqn:E1; [|inversion H].
  destruct (map_res_take_st _ _ s r1) as [[sets r2|e] s2] eqn:E2; inversion H; subst.
  unfold parse_layout in E1. apply parse_layout_aux_ok in E1. destruct E1 as [-> Hwf].
  apply map_res_take_st_ok in E2. destruct E2 as [body [r0 [-> [HL _]]]].
  exists (wire_bytes ipfix_header_layout h ++ body). rewrite <- app_assoc. split; [reflexivity|].
  rewrite app_length, (wire_bytes_length _ _ (wf_vals_length _ _ _ Hwf)), ipfix_header_width, HL.
  unfold ix_wire, ix_length. cbn [ix_header]. lia.
Qed.

Lemma parse_ipfix_frames puf s i p r s' z :
  parse_ipfix puf s i = (Ok p r, s') -> parse_ipfix puf s (i ++ z) = (Ok p (r ++ z), s').
Proof.
  unfold parse_ipfix. intro H.
  destruct (parse_layout ipfix_header_layout i) as [h r1|e] eqn:E1; [|inversion H].
  unfold parse_layout in *. rewrite (parse_layout_aux_frames _ _ _ _ _ z E1).
  destruct (map_res_take_st _ _ s r1) as [[sets r2|e] s2] eqn:E2; inversion H; subst.
  now rewrite (map_res_take_st_frames _ _ _ _ _ _ _ z E2).
Qed.

(* a message whose announced bytes are not all there fails before any set is looked at:
   the caches are untouched *)
Lemma parse_ipfix_short puf s i h r :
  parse_layout ipfix_header_layout i = Ok h r ->
  (length r < N.to_nat (get_field ipfix_header_layout h "length" - 16))%nat ->
  parse_ipfix puf s i = (Err EError, s).
Proof.
  intros E H. unfold parse_ipfix. rewrite E. now rewrite map_res_take_st_short.
Qed.

Lemma parse_ipfix_header_short puf s i :
  (length i < 14)%nat -> exists e, parse_ipfix puf s i = (Err e, s) /\ e <> EFuel.
Proof.
  intro H. unfold parse_ipfix, parse_layout.
  destruct (parse_layout_aux_short ipfix_header_layout [] i ltac:(rewrite ipfix_header_width; exact H)) as [e [-> He]].
  eauto.
Qed.
