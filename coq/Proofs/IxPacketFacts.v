(* Proofs/IxPacketFacts.v — whole-message parse-then-print for IPFIX (C10 at full strength on
   messages whose data sets are governed by templates without variable-length fields, whose
   decoded values are of the lossless kinds, and whose sets fill the message length). *)
From NF Require Import Base Nom Types Layout Value V9 Ipfix Parser Export.
From NF Require Import BaseFacts NomFacts LayoutFacts FixedFacts ValueFacts VarFacts ParserFacts RunFacts TotalFacts ReexportFacts PacketFacts.
From Coq Require Import Lia.
Open Scope string_scope.
Open Scope list_scope.

(* what a set does to the collector's caches *)
Definition iset_step (s : ixstate) (f : ix_set) : ixstate :=
  match is_body f with
  | IxTemplate t => {| ix_t := insert (it_id t) t (ix_t s); ix_o := remove (it_id t) (ix_o s) |}
  | IxOTemplate t => {| ix_t := remove (io_id t) (ix_t s); ix_o := insert (io_id t) t (ix_o s) |}
  | _ => s
  end.

(* decidable on the reported set and the caches it met: template sets always; data sets when the
   governing template has no variable-length field and every value is of a lossless kind *)
Definition iset_lossless (s : ixstate) (f : ix_set) : bool :=
  match is_body f with
  | IxData ents _ =>
      match lookup (is_id f) (ix_t s) with
      | Some t => negb (existsb is_varlen (it_fields t)) && forallb ient_lossless ents
      | None => false
      end
  | IxOData ents _ =>
      match lookup (is_id f) (ix_t s) with
      | Some _ => false
      | None => match lookup (is_id f) (ix_o s) with
                | Some t => negb (existsb is_varlen (io_fields t)) && forallb ient_lossless ents
                | None => false
                end
      end
  | _ => true
  end.

Fixpoint isets_lossless (s : ixstate) (l : list ix_set) : bool :=
  match l with
  | [] => true
  | f :: l' => iset_lossless s f && isets_lossless (iset_step s f) l'
  end.

Definition iset_wire (f : ix_set) : nat := (4 + N.to_nat (is_len f - 4))%nat.
Definition isets_wire (l : list ix_set) : nat := fold_right (fun f acc => iset_wire f + acc)%nat O l.

Lemma parse_odata_reexport puf fs body ents pad r :
  parse_idata puf fs body = Ok (ents, pad) r ->
  existsb is_varlen fs = false -> forallb ient_lossless ents = true ->
  export_ix_body (IxOData ents pad) = XOk body.
Proof. intros H Hv Hl. exact (parse_idata_reexport puf fs body ents pad r H Hv Hl). Qed.

Lemma parse_ibody_reexport puf id len s body b r0 s' :
  parse_ibody puf id s body = (Ok b r0, s') ->
  iset_lossless s {| is_id := id; is_len := len; is_body := b |} = true ->
  export_ix_body b = XOk body /\ s' = iset_step s {| is_id := id; is_len := len; is_body := b |}.
Proof.
  unfold parse_ibody, iset_lossless, iset_step. cbn [is_id is_body].
  destruct ((id <? ipfix_set_min_range)%N && negb (id =? ipfix_options_template_id)%N).
  { destruct (parse_itemplate body) as [t r|e] eqn:E; [|intro H; inversion H].
    destruct (fields_valid (it_fields t)); intro H; inversion H; subst. intros _.
    split; [eapply itemplate_body_exact; eauto|reflexivity]. }
  destruct (id =? ipfix_options_template_id)%N.
  { destruct (parse_iotemplate body) as [t r|e] eqn:E; [|intro H; inversion H].
    destruct (fields_valid (io_fields t)); intro H; inversion H; subst. intros _.
    split; [eapply iotemplate_body_exact; eauto|reflexivity]. }
  destruct (lookup id (ix_t s)) as [t|] eqn:Et.
  { destruct (parse_idata puf (it_fields t) body) as [[ents pad] r|e] eqn:E; intro H; inversion H; subst.
    intro Hl. apply andb_prop in Hl. destruct Hl as [Hv Hl]. apply negb_true_iff in Hv.
    split; [eapply parse_idata_reexport; eauto|reflexivity]. }
  destruct (lookup id (ix_o s)) as [t|] eqn:Eo; [|intro H; inversion H].
  destruct (parse_idata puf (io_fields t) body) as [[ents pad] r|e] eqn:E; intro H; inversion H; subst.
  intro Hl. apply andb_prop in Hl. destruct Hl as [Hv Hl]. apply negb_true_iff in Hv.
  split; [eapply parse_odata_reexport; eauto|reflexivity].
Qed.

Lemma parse_iset_reexport puf s i f r s' :
  parse_iset puf s i = (Ok f r, s') -> iset_lossless s f = true ->
  exists pre, i = pre ++ r /\ export_ix_set f = XOk pre /\ length pre = iset_wire f /\ s' = iset_step s f.
Proof.
  unfold parse_iset. intros H Hl.
  destruct (u_s 2 i) as [id r1|e] eqn:E1; [|inversion H].
  destruct (u_s 2 r1) as [len r2|e] eqn:E2; [|inversion H].
  destruct (map_res_take_st (len - 4) (parse_ibody puf id) s r2) as [[b r3|e] s3] eqn:E3; inversion H; subst.
  apply u_s_ok in E1. destruct E1 as [-> _]. apply u_s_ok in E2. destruct E2 as [-> _].
  apply map_res_take_st_ok in E3. destruct E3 as [body [r0 [-> [HL Hb]]]].
  destruct (parse_ibody_reexport _ _ len _ _ _ _ _ Hb Hl) as [Hx Hs].
  exists (enc 2 id ++ enc 2 len ++ body). rewrite <- !app_assoc. split; [reflexivity|].
  split; [unfold export_ix_set, xpre; cbn [is_id is_len is_body]; rewrite Hx; now rewrite <- app_assoc|].
  split; [unfold iset_wire; cbn [is_len]; rewrite !app_length, !enc_length, HL; lia|exact Hs].
Qed.

Lemma many0_isets_reexport puf : forall fuel s i l r s',
  many0_st_aux fuel (complete_st (parse_iset puf)) s i = (Ok l r, s') -> isets_lossless s l = true ->
  exists pre, i = pre ++ r /\ xconcat_map export_ix_set l = XOk pre /\ length pre = isets_wire l.
Proof.
  induction fuel as [|fuel IH]; intros s i l r s' H Hl; cbn [many0_st_aux] in H; [inversion H|].
  unfold complete_st at 1 in H.
  destruct (parse_iset puf s i) as [[a r1|e] s1] eqn:E1.
  - destruct (shorter r1 i); [|inversion H].
    destruct (many0_st_aux fuel _ s1 r1) as [[l' r2|e'] s2] eqn:E2; inversion H; subst.
    cbn [isets_lossless] in Hl. apply andb_prop in Hl. destruct Hl as [Ha Hl'].
    destruct (parse_iset_reexport _ _ _ _ _ _ E1 Ha) as [p1 [-> [Hb1 [HL1 Hs1]]]]. subst s1.
    destruct (IH _ _ _ _ _ E2 Hl') as [p2 [-> [Hb2 HL2]]].
    exists (p1 ++ p2). rewrite <- app_assoc. split; [reflexivity|].
    split; [cbn [xconcat_map]; unfold xseq, xpre; now rewrite Hb1, Hb2|].
    cbn [isets_wire fold_right]. fold (isets_wire l'). rewrite app_length. lia.
  - destruct e; inversion H; subst; exists []; repeat split; reflexivity.
Qed.

Definition ix_lossless (s : ixstate) (p : ix_packet) : bool :=
  isets_lossless s (ix_sets p) && Nat.eqb (isets_wire (ix_sets p)) (N.to_nat (ix_length p - 16)).

Lemma ipfix_header_export_ok :
  header_shape ipfix_header_layout 10 2 = true
  /\ nodup_str (map f_name ipfix_header_layout) = true
  /\ ipfix_header_export = sel_names (fun _ => true) ipfix_header_layout.
Proof. repeat split; vm_compute; reflexivity. Qed.

Lemma parse_ipfix_reexport puf s i p r s' :
  parse_ipfix puf s i = (Ok p r, s') -> ix_lossless s p = true ->
  exists pre, i = pre ++ r /\ export_ipfix p = XOk (enc 2 10 ++ pre).
Proof.
  unfold parse_ipfix. intros H Hl.
  destruct (parse_layout ipfix_header_layout i) as [h r1|e] eqn:E1; [|inversion H].
  destruct (map_res_take_st _ _ s r1) as [[sets r2|e] s2] eqn:E2; inversion H; subst.
  unfold parse_layout in E1. apply parse_layout_aux_ok in E1. destruct E1 as [-> Hwf].
  apply map_res_take_st_ok in E2. destruct E2 as [body [r0 [-> [HLb Hb]]]].
  unfold ix_lossless in Hl. cbn [ix_sets] in Hl. apply andb_prop in Hl. destruct Hl as [Hl Hw].
  apply Nat.eqb_eq in Hw. unfold ix_length in Hw. cbn [ix_header] in Hw.
  unfold many0_st in Hb.
  destruct (many0_isets_reexport _ _ _ _ _ _ _ Hb Hl) as [p2 [Hbody [Hx HL2]]].
  assert (Hr0 : r0 = []).
  { apply (f_equal (@length byte)) in Hbody. rewrite app_length in Hbody.
    destruct r0; [reflexivity|]. cbn [length] in Hbody. lia. }
  subst r0. rewrite app_nil_r in Hbody. subst body.
  exists (wire_bytes ipfix_header_layout h ++ p2). rewrite <- app_assoc. split; [reflexivity|].
  unfold export_ipfix, xpre. cbn [ix_header ix_sets]. rewrite Hx.
  destruct ipfix_header_export_ok as [Hs [Hnd Ho]].
  rewrite (export_header_bytes _ 10 2 _ h Hs Hnd Ho Hwf). now rewrite <- app_assoc.
Qed.

(* the whole step *)
Lemma ix_step_reexport puf allow s x p rest s' :
  parse_one puf allow s x = StOk (PIx p) rest s' -> ix_lossless (stx s) p = true ->
  exists pre, x = pre ++ rest /\ export_ipfix p = XOk pre.
Proof.
  intros H Hl. apply parse_one_ok_inv in H. destruct H as [v [Hv [Ha Hs]]]. inversion Hs; subst.
  match goal with E : parse_ipfix _ _ _ = _ |- _ => destruct (parse_ipfix_reexport _ _ _ _ _ _ E Hl) as [pre [Hb Hx]] end.
  exists (enc 2 10 ++ pre). split; [|exact Hx].
  rewrite <- app_assoc, <- Hb, <- Hv. symmetry. apply firstn_skipn.
Qed.
