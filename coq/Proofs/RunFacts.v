(* Proofs/RunFacts.v — parse_bytes as a whole: accounting (C02), chaining (C11), the version
   filter (C12), fuel. *)
From NF Require Import Base Nom Types Layout Value V9 Ipfix Parser.
From NF Require Import BaseFacts NomFacts LayoutFacts FixedFacts ParserFacts VarFacts.
From Coq Require Import Lia.
Open Scope string_scope.
Open Scope list_scope.

(* bytes a reported packet occupied, read from its own header fields only *)
Definition wire_len (e : elem) : nat :=
  match e with
  | PV5 p => 24 + N.to_nat (get_field v5_header_layout (fx_header p) "count") * 48
  | PV7 p => 24 + N.to_nat (get_field v7_header_layout (fx_header p) "count") * 52
  | PV9 p => v9_wire p
  | PIx p => ix_wire p
  | PErr _ _ => 0
  end%nat.

Definition is_error (e : elem) : bool := match e with PErr _ _ => true | _ => false end.

(* a V9 packet delimits itself when its count is the number of flowsets it holds *)
Definition self_delimiting (e : elem) : Prop :=
  match e with
  | PV9 p => length (v9_sets p) = N.to_nat (v9_count p)
  | _ => True
  end.

(* ---- parse_one: the three outcomes ---- *)
Lemma parse_one_stop_inv puf allow s x :
  parse_one puf allow s x = StStop -> exists v, firstn 2 x = enc 2 v /\ v < 65536 /\ allow v = false.
Proof.
  unfold parse_one. destruct (u_s 2 x) as [v body|k] eqn:Eu; [|discriminate].
  apply version_word_inv in Eu. destruct Eu as [Hf [-> Hb]].
  destruct (allow v) eqn:Ea; cbn [negb]; [|eauto].
  destruct (version_kind v) as [[]|]; intro H.
  - destruct (parse_v5 _); discriminate.
  - destruct (parse_v7 _); discriminate.
  - destruct (parse_v9 _ _ _) as [[] ?]; discriminate.
  - destruct (parse_ipfix _ _ _) as [[] ?]; discriminate.
  - discriminate.
Qed.

Lemma parse_one_err_inv puf allow s x e s' :
  parse_one puf allow s x = StErr e s' -> exists err, e = PErr err x.
Proof.
  unfold parse_one. destruct (u_s 2 x) as [v body|k] eqn:Eu; [|intro H; inversion H; eauto].
  destruct (negb (allow v)); [discriminate|].
  destruct (version_kind v) as [[]|]; intro H.
  - destruct (parse_v5 _); inversion H; eauto.
  - destruct (parse_v7 _); inversion H; eauto.
  - destruct (parse_v9 _ _ _) as [[] ?]; inversion H; eauto.
  - destruct (parse_ipfix _ _ _) as [[] ?]; inversion H; eauto.
  - inversion H; eauto.
Qed.

Lemma v5_widths : wire_width v5_header_layout = 22%nat /\ wire_width v5_record_layout = 48%nat.
Proof. split; reflexivity. Qed.
Lemma v7_widths : wire_width v7_header_layout = 22%nat /\ wire_width v7_record_layout = 52%nat.
Proof. split; reflexivity. Qed.

Lemma parse_fixed_consumes HL RL cnt i p r :
  parse_fixed HL RL cnt i = Ok p r ->
  exists pre, i = pre ++ r
    /\ length pre = (wire_width HL + N.to_nat (get_field HL (fx_header p) cnt) * wire_width RL)%nat.
Proof.
  intro H. apply parse_fixed_ok in H. destruct H as [-> [Hh [Hr Hc]]].
  exists (wire_bytes HL (fx_header p) ++ flat_map (wire_bytes RL) (fx_records p)).
  rewrite <- app_assoc. split; [reflexivity|].
  assert (HF : length (flat_map (wire_bytes RL) (fx_records p)) = (length (fx_records p) * wire_width RL)%nat).
  { clear Hc. induction Hr as [|r0 l Hr0 Hr IH]; [reflexivity|]. cbn [flat_map length]. rewrite app_length, IH.
    rewrite (wire_bytes_length _ _ (wf_vals_length _ _ _ Hr0)). lia. }
  rewrite app_length, (wire_bytes_length _ _ (wf_vals_length _ _ _ Hh)), HF, Hc. reflexivity.
Qed.

Lemma ok_step_consumes puf s body e rest s' v :
  ok_step puf s body e rest s' v ->
  exists pre, body = pre ++ rest /\ (2 + length pre = wire_len e)%nat /\ is_error e = false.
Proof.
  intro H. destruct H as [p rest E|p rest E|p rest s9 E|p rest sx E].
  - apply parse_fixed_consumes in E. destruct E as [pre [-> HL]]. exists pre. repeat split; auto.
    cbn [wire_len]. rewrite HL. destruct v5_widths as [-> ->]. change v5_count_field with "count". lia.
  - apply parse_fixed_consumes in E. destruct E as [pre [-> HL]]. exists pre. repeat split; auto.
    cbn [wire_len]. rewrite HL. destruct v7_widths as [-> ->]. change v7_count_field with "count". lia.
  - apply parse_v9_consumes in E. destruct E as [pre [-> HL]]. exists pre. repeat split; auto.
  - apply parse_ipfix_consumes in E. destruct E as [pre [-> HL]]. exists pre. repeat split; auto.
Qed.

Lemma parse_one_consumes puf allow s x e rest s' :
  parse_one puf allow s x = StOk e rest s' ->
  exists pre, x = pre ++ rest /\ length pre = wire_len e /\ is_error e = false /\ (2 <= length pre)%nat.
Proof.
  intro H. apply parse_one_ok_inv in H. destruct H as [v [Hv [Ha Hs]]].
  apply ok_step_consumes in Hs. destruct Hs as [pre [Hb [HL He]]].
  exists (enc 2 v ++ pre). rewrite <- app_assoc, <- Hb, <- Hv, firstn_skipn, app_length.
  rewrite firstn_length_le.
  - repeat split; auto; lia.
  - (* x has at least two bytes: its first two are enc 2 v *)
    assert (length (firstn 2 x) = 2%nat) by (rewrite Hv; apply enc_length).
    rewrite firstn_length in H. lia.
Qed.

(* ---- framing of one step ---- *)
Lemma firstn_app_enc (x z : bytes) v : firstn 2 x = enc 2 v -> firstn 2 (x ++ z) = enc 2 v /\ skipn 2 (x ++ z) = skipn 2 x ++ z.
Proof.
  intro H. assert (HL : (2 <= length x)%nat).
  { assert (length (firstn 2 x) = 2%nat) by (rewrite H; apply enc_length). rewrite firstn_length in H0. lia. }
  split.
  - rewrite firstn_app. replace (2 - length x)%nat with O by lia. cbn [firstn]. now rewrite app_nil_r.
  - rewrite skipn_app. replace (2 - length x)%nat with O by lia. reflexivity.
Qed.

Lemma parse_one_frames puf allow s x e rest s' z :
  parse_one puf allow s x = StOk e rest s' -> self_delimiting e ->
  parse_one puf allow s (x ++ z) = StOk e (rest ++ z) s'.
Proof.
  intros H Hsd. apply parse_one_ok_inv in H. destruct H as [v [Hv [Ha Hs]]].
  destruct (firstn_app_enc x z v Hv) as [Hv' Hsk].
  destruct Hs as [p rest E|p rest E|p rest s9 E|p rest sx E].
  - rewrite (parse_one_v5 _ _ _ _ Ha Hv'), Hsk. unfold parse_v5 in *. now rewrite (parse_fixed_frames _ _ _ _ _ _ z E).
  - rewrite (parse_one_v7 _ _ _ _ Ha Hv'), Hsk. unfold parse_v7 in *. now rewrite (parse_fixed_frames _ _ _ _ _ _ z E).
  - rewrite (parse_one_v9 _ _ _ _ Ha Hv'), Hsk. now rewrite (parse_v9_frames _ _ _ _ _ _ z E Hsd).
  - rewrite (parse_one_ipfix _ _ _ _ Ha Hv'), Hsk. now rewrite (parse_ipfix_frames _ _ _ _ _ _ z E).
Qed.

(* ---- fuel ---- *)
Lemma run_fuel_enough puf allow : forall fuel s x, (length x < fuel)%nat -> run fuel puf allow s x <> None.
Proof.
  induction fuel as [|fuel IH]; intros s x H; [lia|].
  destruct x as [|b x']; [discriminate|]. cbn [run].
  destruct (parse_one puf allow s (b :: x')) as [|e s'|e rest s'] eqn:E; try discriminate.
  destruct (is_nil rest); [discriminate|].
  apply parse_one_consumes in E. destruct E as [pre [Hx [_ [_ Hp]]]].
  assert (Hr : (length rest < fuel)%nat).
  { assert (HL : length (b :: x') = (length pre + length rest)%nat) by (rewrite Hx, app_length; reflexivity). lia. }
  specialize (IH s' rest Hr). destruct (run fuel puf allow s' rest); [discriminate|contradiction].
Qed.

Lemma run_fuel_mono puf allow : forall fuel fuel' s x r,
  run fuel puf allow s x = Some r -> (fuel <= fuel')%nat -> run fuel' puf allow s x = Some r.
Proof.
  induction fuel as [|fuel IH]; intros fuel' s x r H Hle.
  - destruct x; [|discriminate]. destruct fuel'; exact H.
  - destruct fuel' as [|fuel']; [lia|].
    destruct x as [|b x']; [exact H|]. cbn [run] in *.
    destruct (parse_one puf allow s (b :: x')) as [|e s'|e rest s']; try exact H.
    destruct (is_nil rest); [exact H|].
    destruct (run fuel puf allow s' rest) as [r'|] eqn:E; [|discriminate].
    rewrite (IH fuel' s' rest r' E ltac:(lia)). exact H.
Qed.

Lemma parse_bytes_total puf allow s x : exists r, parse_bytes puf allow s x = Some r.
Proof.
  unfold parse_bytes. destruct (run (S (length x)) puf allow s x) eqn:E; [eauto|].
  exfalso. revert E. apply run_fuel_enough. lia.
Qed.

(* ---- C02: the results account for every byte ---- *)
Definition total_wire (l : list elem) : nat := fold_right (fun e acc => wire_len e + acc)%nat O l.

Definition accounted (allow : N -> bool) (x : bytes) (es : list elem) : Prop :=
  exists good tail,
    es = good ++ tail
    /\ Forall (fun e => is_error e = false) good
    /\ (total_wire good <= length x)%nat
    /\ (tail = [] \/ exists err, tail = [PErr err (skipn (total_wire good) x)])
    /\ (tail = [] -> total_wire good = length x
                     \/ exists v, firstn 2 (skipn (total_wire good) x) = enc 2 v /\ v < 65536 /\ allow v = false).

Lemma accounted_nil allow : accounted allow [] [].
Proof.
  exists [], []. split; [reflexivity|]. split; [constructor|]. split; [cbn; lia|].
  split; [now left|]. intros _. now left.
Qed.

Lemma run_accounted puf allow : forall fuel s x r,
  run fuel puf allow s x = Some r -> accounted allow x (map fst r).
Proof.
  induction fuel as [|fuel IH]; intros s x r H.
  - destruct x; [|discriminate]. inversion H; subst. apply accounted_nil.
  - destruct x as [|b x']; [inversion H; subst; apply accounted_nil|].
    cbn [run] in H. set (x := b :: x') in *.
    destruct (parse_one puf allow s x) as [|e s'|e rest s'] eqn:E.
    + inversion H; subst. apply parse_one_stop_inv in E. destruct E as [v [Hv [Hb Ha]]].
      exists [], []. split; [reflexivity|]. split; [constructor|]. split; [cbn; lia|].
      split; [now left|]. intros _. right. exists v. cbn [total_wire fold_right skipn]. auto.
    + inversion H; subst. apply parse_one_err_inv in E. destruct E as [err ->].
      exists [], [PErr err x]. split; [reflexivity|]. split; [constructor|]. split; [cbn; lia|].
      split; [right; exists err; reflexivity|discriminate].
    + pose proof (parse_one_consumes _ _ _ _ _ _ _ E) as [pre [Hx [HL [He Hp]]]].
      destruct (is_nil rest) eqn:En.
      * inversion H; subst. destruct rest; [|discriminate]. rewrite app_nil_r in Hx.
        exists [e], []. cbn [map fst total_wire fold_right]. rewrite Hx, <- HL.
        split; [reflexivity|]. split; [constructor; [exact He|constructor]|]. split; [lia|].
        split; [now left|]. intros _. left. lia.
      * destruct (run fuel puf allow s' rest) as [r'|] eqn:Er; [|discriminate]. inversion H; subst.
        destruct (IH _ _ _ Er) as [good [tail [Hes [Hg [Hle [Ht Hend]]]]]].
        exists (e :: good), tail. cbn [map fst total_wire fold_right]. fold (total_wire good).
        assert (Hsk : skipn (wire_len e + total_wire good) x = skipn (total_wire good) rest).
        { rewrite Hx, <- HL. rewrite <- skipn_skipn. f_equal.
          now rewrite skipn_app, skipn_all, Nat.sub_diag. }
        split; [now rewrite Hes|]. split; [now constructor|].
        split; [rewrite Hx, app_length; lia|]. rewrite Hsk.
        split; [exact Ht|]. intro Htl. destruct (Hend Htl) as [Hall|Hv]; [left|right; exact Hv].
        rewrite Hx, app_length. lia.
Qed.

(* ---- C12: allowed_versions filters by version and nothing else ---- *)
Definition elem_version (e : elem) : option N :=
  match e with
  | PV5 _ => Some 5 | PV7 _ => Some 7 | PV9 _ => Some 9 | PIx _ => Some 10
  | PErr _ rem => match u_s 2 rem with Ok v _ => Some v | Err _ => None end
  end%N.

Fixpoint cut (allow : N -> bool) (r : list (elem * pstate)) : list (elem * pstate) :=
  match r with
  | [] => []
  | (e, s) :: r' =>
      match elem_version e with
      | Some v => if allow v then (e, s) :: cut allow r' else []
      | None => (e, s) :: cut allow r'
      end
  end.

Definition all_versions : N -> bool := fun _ => true.

Lemma parse_one_filter puf allow s x v body :
  u_s 2 x = Ok v body ->
  parse_one puf allow s x = if allow v then parse_one puf all_versions s x else StStop.
Proof. intro H. unfold parse_one. rewrite H. unfold all_versions. destruct (allow v); reflexivity. Qed.

Lemma parse_one_version puf s x v body :
  u_s 2 x = Ok v body ->
  match parse_one puf all_versions s x with
  | StOk e _ _ | StErr e _ => elem_version e = Some v
  | StStop => False
  end.
Proof.
  intro H. destruct (parse_one puf all_versions s x) as [|e s'|e rest s'] eqn:E.
  - apply parse_one_stop_inv in E. destruct E as [? [_ [_ Ha]]]. discriminate.
  - apply parse_one_err_inv in E. destruct E as [err ->]. cbn [elem_version]. now rewrite H.
  - apply parse_one_ok_inv in E. destruct E as [v' [Hv [_ Hs]]].
    apply version_word_inv in H. destruct H as [Hf [_ Hb]]. rewrite Hf in Hv.
    assert (v = v').
    { apply (f_equal be) in Hv. rewrite !be_enc_small in Hv; auto.
      destruct Hs; reflexivity. }
    subst v'. destruct Hs; reflexivity.
Qed.

Lemma run_filter puf allow : forall fuel s x rall,
  run fuel puf all_versions s x = Some rall -> run fuel puf allow s x = Some (cut allow rall).
Proof.
  induction fuel as [|fuel IH]; intros s x rall H.
  - destruct x; [|discriminate]. inversion H; subst. reflexivity.
  - destruct x as [|b x']; [inversion H; subst; reflexivity|].
    cbn [run] in *. set (x := b :: x') in *.
    destruct (u_s 2 x) as [v body|k] eqn:Eu.
    + rewrite (parse_one_filter puf allow s x v body Eu).
      pose proof (parse_one_version puf s x v body Eu) as Hver.
      destruct (parse_one puf all_versions s x) as [|e s'|e rest s'] eqn:E; [contradiction| |].
      * inversion H; subst. cbn [cut]. rewrite Hver. destruct (allow v); reflexivity.
      * destruct (is_nil rest) eqn:En.
        -- inversion H; subst. cbn [cut]. rewrite Hver. destruct (allow v); [rewrite En|]; reflexivity.
        -- destruct (run fuel puf all_versions s' rest) as [r'|] eqn:Er; [|discriminate].
           inversion H; subst. cbn [cut]. rewrite Hver. destruct (allow v); [|reflexivity].
           rewrite En, (IH _ _ _ Er). reflexivity.
    + (* fewer than two bytes: no version word, the Incomplete error is reported either way *)
      assert (Hp : forall al, parse_one puf al s x = StErr (PErr (NIncomplete k) x) s)
        by (intro al; unfold parse_one; now rewrite Eu).
      rewrite Hp in *. inversion H; subst. cbn [cut elem_version]. now rewrite Eu.
Qed.

Lemma run_unknown_version puf allow s v y fuel :
  v < 65536 -> allow v = true -> version_kind v = None ->
  run (S fuel) puf allow s (enc 2 v ++ y) = Some [(PErr (NUnknownVersion y) (enc 2 v ++ y), s)].
Proof.
  intros Hb Ha Hk. assert (Hu : u_s 2 (enc 2 v ++ y) = Ok v y) by now apply u_s_enc.
  destruct (enc 2 v ++ y) as [|b x'] eqn:Ex.
  - apply (f_equal (@length byte)) in Ex. rewrite app_length, enc_length in Ex. cbn in Ex. lia.
  - cbn [run]. unfold parse_one. rewrite Hu, Ha, Hk. reflexivity.
Qed.

(* ---- C11: chained packets decode as if delivered one per call ---- *)
Definition clean (r : list (elem * pstate)) : Prop :=
  Forall (fun es => is_error (fst es) = false /\ self_delimiting (fst es)) r.

Lemma last_cons_default {A} (l : list A) : forall x d d', last (x :: l) d = last (x :: l) d'.
Proof. induction l as [|y l IH]; intros x d d'; [reflexivity|]. cbn [last] in *. apply IH. Qed.

Lemma final_state_cons s e s' r : final_state s ((e, s') :: r) = final_state s' r.
Proof.
  unfold final_state. cbn [map snd]. destruct (map snd r) as [|p l]; [reflexivity|].
  change (last (s' :: p :: l) s) with (last (p :: l) s). apply last_cons_default.
Qed.

Lemma run_concat puf allow fb : forall fuel s a b ra rb,
  run fuel puf allow s a = Some ra -> clean ra -> total_wire (map fst ra) = length a ->
  run fb puf allow (final_state s ra) b = Some rb ->
  run (fuel + fb) puf allow s (a ++ b) = Some (ra ++ rb).
Proof.
  induction fuel as [|fuel IH]; intros s a b ra rb Ha Hc Hw Hb.
  - destruct a; [|discriminate]. inversion Ha; subst. exact Hb.
  - destruct a as [|c a'].
    + inversion Ha; subst. cbn [app]. eapply run_fuel_mono; [exact Hb|lia].
    + cbn [run] in Ha.
      destruct (parse_one puf allow s (c :: a')) as [|e s'|e rest s'] eqn:E.
      * inversion Ha; subst. cbn in Hw. discriminate.
      * inversion Ha; subst. inversion Hc; subst. cbn [fst] in *.
        apply parse_one_err_inv in E. destruct E as [err ->]. cbn in H1. destruct H1; discriminate.
      * assert (Hsd : self_delimiting e).
        { destruct (is_nil rest); [inversion Ha; subst; inversion Hc; subst; tauto|].
          destruct (run fuel puf allow s' rest); [|discriminate]. inversion Ha; subst. inversion Hc; subst. tauto. }
        pose proof (parse_one_frames _ _ _ _ _ _ _ b E Hsd) as Ef.
        cbn [app] in Ef |- *. cbn [Nat.add run]. rewrite Ef.
        destruct (is_nil rest) eqn:En.
        -- destruct rest; [|discriminate]. inversion Ha; subst. cbn [app].
           cbn [final_state map snd last] in Hb.
           destruct b as [|b0 b'].
           ++ cbn [is_nil]. destruct fb; cbn in Hb; inversion Hb; subst; reflexivity.
           ++ cbn [is_nil]. rewrite (run_fuel_mono _ _ _ (fuel + fb)%nat _ _ _ Hb ltac:(lia)). reflexivity.
        -- destruct (run fuel puf allow s' rest) as [r'|] eqn:Er; [|discriminate]. inversion Ha; subst.
           inversion Hc; subst.
           assert (Hne : is_nil (rest ++ b) = false) by (destruct rest; [discriminate|reflexivity]).
           rewrite Hne.
           pose proof (parse_one_consumes _ _ _ _ _ _ _ E) as [pre [Hx [HL _]]].
           assert (Hw' : total_wire (map fst r') = length rest).
           { cbn [map fst total_wire fold_right] in Hw. fold (total_wire (map fst r')) in Hw.
             rewrite Hx, app_length in Hw. lia. }
           pose proof (final_state_cons s e s' r') as Hfs.
           rewrite Hfs in Hb.
           rewrite (IH s' rest b r' rb Er H2 Hw' Hb). reflexivity.
Qed.

Lemma run_deterministic puf allow f f' s x r r' :
  run f puf allow s x = Some r -> run f' puf allow s x = Some r' -> r = r'.
Proof.
  intros H H'. pose proof (run_fuel_mono _ _ _ (f + f')%nat _ _ _ H ltac:(lia)) as A.
  pose proof (run_fuel_mono _ _ _ (f + f')%nat _ _ _ H' ltac:(lia)) as B. congruence.
Qed.

Lemma final_state_app s r r' : final_state s (r ++ r') = final_state (final_state s r) r'.
Proof.
  revert s. induction r as [|[e s1] r IH]; intro s; [reflexivity|].
  cbn [app]. rewrite !final_state_cons. apply IH.
Qed.

Lemma parse_bytes_concat puf allow s a b ra rb :
  parse_bytes puf allow s a = Some ra -> clean ra -> total_wire (map fst ra) = length a ->
  parse_bytes puf allow (final_state s ra) b = Some rb ->
  parse_bytes puf allow s (a ++ b) = Some (ra ++ rb).
Proof.
  unfold parse_bytes. intros Ha Hc Hw Hb.
  pose proof (run_concat puf allow _ _ s a b ra rb Ha Hc Hw Hb) as H.
  destruct (parse_bytes_total puf allow s (a ++ b)) as [r Hr]. unfold parse_bytes in Hr.
  rewrite Hr. f_equal. eapply run_deterministic; eauto.
Qed.

(* delivery of a packet sequence as consecutive calls, each call holding whole packets *)
Inductive fed (puf : bool) (allow : N -> bool) : pstate -> list bytes -> list (elem * pstate) -> Prop :=
| fed_nil s : fed puf allow s [] []
| fed_cons s c cs r rs :
    parse_bytes puf allow s c = Some r -> clean r -> total_wire (map fst r) = length c ->
    fed puf allow (final_state s r) cs rs -> fed puf allow s (c :: cs) (r ++ rs).

Lemma clean_app r r' : clean r -> clean r' -> clean (r ++ r').
Proof. unfold clean. intros. apply Forall_app. auto. Qed.

Lemma total_wire_app a b : total_wire (a ++ b) = (total_wire a + total_wire b)%nat.
Proof. induction a as [|e a IH]; [reflexivity|]. cbn [app total_wire fold_right]. fold (total_wire (a ++ b)) (total_wire a). lia. Qed.

Lemma fed_one_call puf allow s calls r :
  fed puf allow s calls r ->
  parse_bytes puf allow s (List.concat calls) = Some r /\ clean r /\ total_wire (map fst r) = length (List.concat calls).
Proof.
  induction 1 as [s|s c cs r rs Hp Hc Hw Hf [IH1 [IH2 IH3]]].
  - split; [reflexivity|]. split; [constructor|reflexivity].
  - cbn [List.concat]. split; [now apply parse_bytes_concat|]. split; [now apply clean_app|].
    rewrite map_app, total_wire_app, app_length. lia.
Qed.
