(* Proofs/DecodeFacts.v — print-then-parse for values, records and V9 data flowsets (C04), and
   for IPFIX values with fixed and variable length (C05). *)
From NF Require Import Base Nom Types Layout Value V9 Ipfix Interp V9Stream.
From NF Require Import BaseFacts NomFacts ValueFacts.
From Coq Require Import Lia.
Open Scope list_scope.

Lemma u_s_app w (b rest : bytes) : length b = w -> u_s w (b ++ rest) = Ok (be b) rest.
Proof. intro H. unfold u_s. now rewrite <- H, take_app. Qed.
Lemma u_c_app w (b rest : bytes) : length b = w -> u_c w (b ++ rest) = Ok (be b) rest.
Proof. intro H. unfold u_c. now rewrite <- H, take_app. Qed.
Lemma take_c_lenN (b rest : bytes) : take_c (lenN b) (b ++ rest) = Ok b rest.
Proof. apply take_c_app. unfold lenN. now rewrite Nat2N.id. Qed.

Ltac len_case b :=
  let H := fresh "HL" in
  destruct (length b) as [|[|[|[|[|[|[|[|[|[|[|[|[|[|[|[|[|?]]]]]]]]]]]]]]]]] eqn:H; try discriminate.

(* every supported (data type, width): the decoder returns exactly the interpretation and
   consumes exactly the allotted bytes *)
Lemma decode_value puf dt b v rest :
  interp dt b = Some v -> (dt = DUnknown -> puf = true) ->
  from_field_type puf dt (lenN b) (b ++ rest) = Ok v rest.
Proof.
  intros H Hp. unfold from_field_type, lenN. destruct dt; cbn [interp] in H.
  - inversion H; subst. fold (lenN b). unfold pmap. now rewrite take_c_lenN.
  - len_case b; inversion H; subst; cbn [N.of_nat Pos.of_succ_nat Pos.succ]; unfold pmap at 1; unfold dnum_parse; cbv beta iota; unfold pmap;
      first [rewrite u_s_app by assumption | rewrite u_c_app by assumption]; reflexivity.
  - len_case b; inversion H; subst; cbn [N.of_nat Pos.of_succ_nat Pos.succ]; unfold pmap at 1; unfold dnum_parse; cbv beta iota; unfold pmap;
      first [rewrite u_s_app by assumption | rewrite u_c_app by assumption]; reflexivity.
  - destruct (Nat.eqb_spec (length b) 8); [|discriminate]. inversion H; subst. unfold pmap. now rewrite u_s_app.
  - len_case b; inversion H; subst; cbn [N.of_nat Pos.of_succ_nat Pos.succ]; unfold pmap at 1; unfold dnum_parse; cbv beta iota; unfold pmap;
      first [rewrite u_s_app by assumption | rewrite u_c_app by assumption]; reflexivity.
  - len_case b; inversion H; subst; cbn [N.of_nat Pos.of_succ_nat Pos.succ]; unfold pmap at 1; unfold dnum_parse; cbv beta iota; unfold pmap;
      first [rewrite u_s_app by assumption | rewrite u_c_app by assumption]; reflexivity.
  - len_case b; inversion H; subst; cbn [N.of_nat Pos.of_succ_nat Pos.succ]; unfold pmap at 1; unfold dnum_parse; cbv beta iota; unfold pmap;
      first [rewrite u_s_app by assumption | rewrite u_c_app by assumption]; reflexivity.
  - len_case b; inversion H; subst; cbn [N.of_nat Pos.of_succ_nat Pos.succ]; unfold pmap at 1; unfold dnum_parse; cbv beta iota; unfold pmap;
      first [rewrite u_s_app by assumption | rewrite u_c_app by assumption]; reflexivity.
  - destruct (Nat.eqb_spec (length b) 4); [|discriminate]. inversion H; subst. unfold pmap. now rewrite u_c_app.
  - destruct (Nat.eqb_spec (length b) 16); [|discriminate]. inversion H; subst. unfold pmap. now rewrite u_c_app.
  - destruct (Nat.eqb_spec (length b) 6); [|discriminate]. inversion H; subst. unfold pmap.
    now rewrite take_c_app by (rewrite e; reflexivity).
  - inversion H; subst. fold (lenN b). unfold pmap. now rewrite take_c_lenN.
  - destruct (Nat.eqb_spec (length b) 1); [|discriminate]. rewrite u_s_app by assumption.
    inversion H; subst. reflexivity.
  - inversion H; subst. rewrite (Hp eq_refl). fold (lenN b). unfold pmap. now rewrite take_c_lenN.
Qed.

(* every protocol byte decodes (to its variant or to Unknown), consuming that byte *)
Lemma proto_total puf len b r :
  from_field_type puf DProto len (b :: r) = Ok (VProto (proto_decode (bN b))) r.
Proof.
  unfold from_field_type. rewrite u_s_long by (cbn; lia). cbn [firstn skipn].
  replace (be [b]) with (bN b) by (unfold be; cbn; lia). reflexivity.
Qed.

(* ---- V9 records ---- *)
Definition all_known_or_puf (puf : bool) (fs : list tfield) : Prop :=
  Forall (fun f => v9_dtype (tf_type f) = DUnknown -> puf = true) fs.

Lemma decode_record puf fs : forall vals rec rest,
  interp_record fs vals = Some rec -> all_known_or_puf puf fs ->
  parse_record puf fs (List.concat vals ++ rest) = Ok rec rest.
Proof.
  induction fs as [|f fs IH]; intros [|b vals] rec rest H Hk; cbn [interp_record] in H; try discriminate.
  - inversion H; subst. reflexivity.
  - destruct (N.eqb_spec (lenN b) (tf_len f)) as [E|]; [|discriminate].
    destruct (interp _ b) as [v|] eqn:Ev; [|discriminate].
    destruct (interp_record fs vals) as [l|] eqn:El; [|discriminate]. inversion H; subst.
    inversion Hk; subst. cbn [parse_record List.concat]. rewrite <- app_assoc, <- E.
    rewrite (decode_value puf _ b v _ Ev H2). now rewrite (IH vals l rest El H3).
Qed.

Lemma interp_record_length fs : forall vals rec,
  interp_record fs vals = Some rec ->
  lenN (List.concat vals) = fold_right (fun f acc => tf_len f + acc)%N 0%N fs.
Proof.
  induction fs as [|f fs IH]; intros [|b vals] rec H; cbn [interp_record] in H; try discriminate; [reflexivity|].
  destruct (N.eqb_spec (lenN b) (tf_len f)) as [E|]; [|discriminate].
  destruct (interp _ b); [|discriminate]. destruct (interp_record fs vals) as [l|] eqn:El; [|discriminate].
  cbn [List.concat fold_right]. unfold lenN in *. rewrite app_length, Nat2N.inj_add, E. f_equal. eapply IH; eauto.
Qed.

(* consecutive records, then padding that the loop leaves alone *)
Lemma decode_records puf fs : forall recs_bytes recs pad,
  Forall2 (fun vals rec => interp_record fs vals = Some rec) recs_bytes recs ->
  all_known_or_puf puf fs ->
  parse_records puf (length recs_bytes) fs (List.concat (map (@List.concat byte) recs_bytes) ++ pad) = (recs, pad).
Proof.
  induction 1 as [|vals rec rb rs Hv Hrest IH]; intro Hk; cbn [length parse_records map List.concat]; [reflexivity|].
  rewrite <- app_assoc. rewrite (decode_record puf fs vals rec _ Hv Hk). now rewrite IH.
Qed.

(* ---- V9 data flowset: floor(body / record size) records, the rest is padding ---- *)
Definition sum_len (fs : list tfield) : N := fold_right (fun f acc => tf_len f + acc)%N 0%N fs.

Lemma total_size_no_sat_aux fs : forall acc,
  (acc + sum_len fs <= 65535)%N -> fold_left (fun a f => sat_add16 a (tf_len f)) fs acc = (acc + sum_len fs)%N.
Proof.
  induction fs as [|f fs IH]; intros acc H; cbn [fold_left sum_len fold_right] in *; [lia|].
  fold (sum_len fs) in *. rewrite IH; unfold sat_add16; lia.
Qed.
Lemma total_size_no_sat t : (sum_len (t_fields t) <= 65535)%N -> total_size t = sum_len (t_fields t).
Proof. intro H. unfold total_size. rewrite total_size_no_sat_aux; lia. Qed.

Lemma records_bytes_length fs : forall recs_bytes recs,
  Forall2 (fun vals rec => interp_record fs vals = Some rec) recs_bytes recs ->
  lenN (List.concat (map (@List.concat byte) recs_bytes)) = (N.of_nat (length recs_bytes) * sum_len fs)%N.
Proof.
  induction 1 as [|vals rec rb rs Hv Hrest IH]; [reflexivity|].
  cbn [map List.concat length]. unfold lenN in *. rewrite app_length, Nat2N.inj_add, IH.
  pose proof (interp_record_length fs vals rec Hv) as HL. unfold lenN, sum_len in *. rewrite HL. lia.
Qed.

Lemma decode_data puf t recs_bytes recs pad :
  Forall2 (fun vals rec => interp_record (t_fields t) vals = Some rec) recs_bytes recs ->
  all_known_or_puf puf (t_fields t) ->
  (0 < sum_len (t_fields t) <= 65535)%N ->
  (lenN pad < sum_len (t_fields t))%N ->
  parse_data puf t (List.concat (map (@List.concat byte) recs_bytes) ++ pad) = V9Data recs pad.
Proof.
  intros HF Hk Hsz Hpad. unfold parse_data. rewrite (total_size_no_sat t) by lia.
  assert (Hn : record_count (lenN (List.concat (map (@List.concat byte) recs_bytes) ++ pad)) (sum_len (t_fields t))
               = N.of_nat (length recs_bytes)).
  { unfold record_count. destruct (N.eqb_spec (sum_len (t_fields t)) 0); [lia|].
    pose proof (records_bytes_length _ _ _ HF) as HL. unfold lenN in *. rewrite app_length, Nat2N.inj_add, HL.
    rewrite N.div_add_l by lia. rewrite N.div_small by lia. lia. }
  rewrite Hn, Nat2N.id. now rewrite (decode_records puf _ _ _ pad HF Hk).
Qed.

(* ---- V9 template records: what was sent is what is reported and cached ---- *)
Definition wf_tfield (f : tfield) : Prop :=
  (tf_num f < 65536 /\ tf_len f < 65536)%N /\ tf_type f = v9_from_u16 (tf_num f).
Definition wf_template (t : template) : Prop :=
  (t_id t < 65536)%N /\ t_count t = lenN (t_fields t) /\ (t_count t < 65536)%N /\ Forall wf_tfield (t_fields t).

Lemma decode_tfield f rest : wf_tfield f -> parse_tfield (enc_tfield f ++ rest) = Ok f rest.
Proof.
  intros [[Hn Hl] Ht]. unfold parse_tfield, enc_tfield, bind. rewrite <- app_assoc.
  rewrite u_s_enc by exact Hn. rewrite u_s_enc by exact Hl. destruct f; cbn in *. now rewrite Ht.
Qed.

Lemma decode_tfields fs : forall rest, Forall wf_tfield fs ->
  count (length fs) parse_tfield (flat_map enc_tfield fs ++ rest) = Ok fs rest.
Proof.
  induction fs as [|f fs IH]; intros rest H; cbn [length count flat_map]; [reflexivity|].
  inversion H; subst. rewrite <- app_assoc, decode_tfield by assumption. now rewrite IH.
Qed.

Lemma decode_template t rest : wf_template t -> parse_template (enc_template t ++ rest) = Ok t rest.
Proof.
  intros [Hid [Hc [Hc' Hf]]]. unfold parse_template, enc_template, bind. rewrite <- !app_assoc.
  rewrite u_s_enc by exact Hid. rewrite u_s_enc by exact Hc'.
  rewrite Hc. unfold lenN. rewrite Nat2N.id, decode_tfields by exact Hf.
  destruct t; cbn in *; subst; reflexivity.
Qed.

(* ---- IPFIX values: fixed length, and variable length in short and long form ---- *)
Definition varlen_prefix (long : bool) (n : N) : bytes :=
  if long then xff :: enc 2 n else [byte_of n].

Lemma decode_field_length_fixed f i : (if_len f =? 65535)%N = false -> parse_field_length f i = Ok (if_len f) i.
Proof. intro H. unfold parse_field_length. now rewrite H. Qed.

Lemma decode_field_length_var f (long : bool) n rest :
  (if_len f =? 65535)%N = true -> (n < (if long then 65536 else 255))%N ->
  parse_field_length f (varlen_prefix long n ++ rest) = Ok n rest.
Proof.
  intros H Hn. unfold parse_field_length, bind, varlen_prefix. rewrite H. destruct long.
  - cbn [app]. unfold u_c at 1. cbn [take]. assert (Hb : be [xff] = 255%N) by reflexivity. rewrite Hb. cbn [N.eqb Pos.eqb].
    now rewrite u_c_enc.
  - cbn [app]. unfold u_c. cbn [take]. assert (Hb : be [byte_of n] = n).
    { unfold be. cbn [fold_left]. rewrite bN_byte_of. rewrite N.mod_small by lia. lia. }
    rewrite Hb. destruct (N.eqb_spec n 255); [lia|reflexivity].
Qed.

Lemma decode_ivalue_fixed puf f b v rest :
  (if_len f =? 65535)%N = false -> lenN b = if_len f ->
  match if_ent f with
  | Some _ => v = VVec b
  | None => interp (ipfix_dtype (if_type f)) b = Some v /\ (ipfix_dtype (if_type f) = DUnknown -> puf = true)
  end ->
  parse_ivalue puf f (b ++ rest) = Ok v rest.
Proof.
  intros Hf HL Hv. unfold parse_ivalue, bind. rewrite decode_field_length_fixed by exact Hf. rewrite <- HL.
  destruct (if_ent f).
  - subst v. unfold pmap. now rewrite take_c_lenN.
  - destruct Hv as [Hi Hp]. now apply decode_value.
Qed.

Lemma decode_ivalue_var puf f (long : bool) b v rest :
  (if_len f =? 65535)%N = true -> (lenN b < (if long then 65536 else 255))%N ->
  match if_ent f with
  | Some _ => v = VVec b
  | None => interp (ipfix_dtype (if_type f)) b = Some v /\ (ipfix_dtype (if_type f) = DUnknown -> puf = true)
  end ->
  parse_ivalue puf f (varlen_prefix long (lenN b) ++ b ++ rest) = Ok v rest.
Proof.
  intros Hf HL Hv. unfold parse_ivalue, bind. rewrite (decode_field_length_var f long (lenN b) _ Hf HL).
  destruct (if_ent f).
  - subst v. unfold pmap. now rewrite take_c_lenN.
  - destruct Hv as [Hi Hp]. now apply decode_value.
Qed.
