(* Proofs/IxStreamFacts.v — C05 at full strength for messages of template, options-template and
   data sets: parsing the encoding of a conformant message yields exactly the expected decode,
   the rest of the buffer, and the expected caches. *)
From NF Require Import Base Nom Types Layout Value Ipfix Interp IxStream.
From NF Require Import BaseFacts NomFacts LayoutFacts FixedFacts ValueFacts VarFacts DecodeFacts TotalFacts CacheFacts.
From Coq Require Import Lia.
Open Scope string_scope.
Open Scope list_scope.

(* ---- field specifiers ---- *)
Definition wf_ifield (f : ifield) : Prop :=
  (if_len f < 65536)%N /\ (if_num f < 32768)%N /\
  match if_ent f with
  | Some e => (e < 4294967296)%N /\ if_type f = ipfix_enterprise
  | None => if_type f = ipfix_from_u16 (if_num f)
  end.

Lemma decode_ifield f rest : wf_ifield f -> parse_ifield (enc_ifield f ++ rest) = Ok f rest.
Proof.
  destruct f as [num ty len ent]. unfold wf_ifield, enc_ifield, parse_ifield, bind. cbn [if_len if_num if_ent if_type].
  intros [Hl [Hn Hk]]. destruct ent as [e|].
  - destruct Hk as [He ->]. rewrite <- !app_assoc.
    rewrite u_s_enc by (change (256 ^ N.of_nat 2)%N with 65536%N; lia).
    rewrite u_s_enc by exact Hl.
    assert (Hb : (32767 <? 32768 + num)%N = true) by (apply N.ltb_lt; lia). rewrite Hb.
    rewrite u_s_enc by exact He. f_equal. f_equal. lia.
  - subst ty. rewrite <- !app_assoc.
    rewrite u_s_enc by (change (256 ^ N.of_nat 2)%N with 65536%N; lia).
    rewrite u_s_enc by exact Hl.
    assert (Hb : (32767 <? num)%N = false) by (apply N.ltb_ge; lia). rewrite Hb. reflexivity.
Qed.

Lemma enc_ifield_length f : (4 <= length (enc_ifield f))%nat.
Proof. unfold enc_ifield. destruct (if_ent f); rewrite !app_length, !enc_length; lia. Qed.

Lemma ifield_short pad : (length pad < 4)%nat -> complete parse_ifield pad = Err EError.
Proof.
  intro H. unfold complete, parse_ifield, bind.
  destruct pad as [|a [|b [|c [|d p]]]]; try reflexivity. cbn [length] in H. lia.
Qed.

Lemma many0_ifields fs pad : forall fuel,
  Forall wf_ifield fs -> (length pad < 4)%nat -> (length (flat_map enc_ifield fs ++ pad) < fuel)%nat ->
  many0_aux fuel (complete parse_ifield) (flat_map enc_ifield fs ++ pad) = Ok fs pad.
Proof.
  induction fs as [|f fs IH]; intros fuel Hwf Hp Hf.
  - destruct fuel; [lia|]. cbn [flat_map app many0_aux]. now rewrite (ifield_short pad Hp).
  - inversion Hwf as [|? ? Hf1 Hfs]; subst. destruct fuel; [lia|]. cbn [flat_map many0_aux].
    rewrite <- app_assoc. unfold complete at 1. rewrite (decode_ifield f _ Hf1).
    rewrite shorter_spec. pose proof (enc_ifield_length f) as H4.
    assert (Hs : (length (flat_map enc_ifield fs ++ pad) <? length (enc_ifield f ++ flat_map enc_ifield fs ++ pad))%nat = true).
    { apply Nat.ltb_lt. rewrite (app_length (enc_ifield f)). lia. }
    rewrite Hs. cbn [flat_map] in Hf. rewrite <- app_assoc, (app_length (enc_ifield f)) in Hf.
    rewrite IH; [reflexivity|assumption|assumption|lia].
Qed.

Lemma count_ifields fs : forall rest, Forall wf_ifield fs ->
  count (length fs) parse_ifield (flat_map enc_ifield fs ++ rest) = Ok fs rest.
Proof.
  induction fs as [|f fs IH]; intros rest Hwf; [reflexivity|].
  inversion Hwf as [|? ? Hf1 Hfs]; subst. cbn [length flat_map count]. rewrite <- app_assoc.
  rewrite (decode_ifield f _ Hf1). now rewrite IH.
Qed.

(* ---- template records ---- *)
Definition wf_itemplate (t : itemplate) : Prop :=
  (it_id t < 65536)%N /\ (it_count t < 65536)%N /\ Forall wf_ifield (it_fields t) /\ (length (it_pad t) < 4)%nat.

Lemma decode_itemplate t : wf_itemplate t ->
  parse_itemplate (enc 2 (it_id t) ++ enc 2 (it_count t) ++ flat_map enc_ifield (it_fields t) ++ it_pad t) = Ok t [].
Proof.
  intros [Hid [Hc [Hfs Hp]]]. unfold parse_itemplate, bind.
  rewrite u_s_enc by exact Hid. rewrite u_s_enc by exact Hc. unfold many0.
  rewrite many0_ifields; [destruct t; reflexivity|exact Hfs|exact Hp|lia].
Qed.

Definition wf_iotemplate (t : iotemplate) : Prop :=
  (io_id t < 65536)%N /\ (io_count t < 65536)%N /\ (io_scope_count t <= io_count t)%N /\
  io_count t = lenN (io_fields t) /\ Forall wf_ifield (io_fields t).

Lemma decode_iotemplate t : wf_iotemplate t ->
  parse_iotemplate (enc 2 (io_id t) ++ enc 2 (io_count t) ++ enc 2 (io_scope_count t)
                      ++ flat_map enc_ifield (io_fields t) ++ io_pad t) = Ok t [].
Proof.
  intros [Hid [Hc [Hsc [Hn Hfs]]]]. unfold parse_iotemplate, bind.
  rewrite u_s_enc by exact Hid. rewrite u_s_enc by exact Hc.
  rewrite u_s_enc by (change (256 ^ N.of_nat 2)%N with 65536%N; lia).
  assert (Hcc : N.to_nat (combined_count (io_count t) (io_scope_count t)) = length (io_fields t)).
  { unfold combined_count, sat_add16. assert (Hle : (io_scope_count t <=? io_count t)%N = true) by (apply N.leb_le; exact Hsc).
    rewrite Hle. replace (io_scope_count t + (io_count t - io_scope_count t))%N with (io_count t) by lia.
    rewrite N.min_r by lia. rewrite Hn. unfold lenN. apply Nat2N.id. }
  rewrite Hcc, (count_ifields _ _ Hfs). destruct t; reflexivity.
Qed.

(* ---- values ---- *)
Definition iknown (puf : bool) (f : ifield) : Prop :=
  if_ent f = None -> ipfix_dtype (if_type f) = DUnknown -> puf = true.

Lemma var_prefix_eq long n : var_prefix long n = varlen_prefix long n.
Proof. reflexivity. Qed.

Lemma decode_ivalue puf f v x rest :
  iknown puf f -> value_fits f v = true -> interp_ivalue f (snd v) = Some x ->
  parse_ivalue puf f (enc_ivalue f v ++ rest) = Ok x rest.
Proof.
  intros Hk Hfit Hx. unfold enc_ivalue, value_fits, interp_ivalue in *. destruct v as [long b]. cbn [fst snd] in *.
  destruct (if_len f =? 65535)%N eqn:E.
  - rewrite <- app_assoc, var_prefix_eq. apply decode_ivalue_var; [exact E|now apply N.ltb_lt|].
    unfold iknown in Hk. destruct (if_ent f); [now inversion Hx|split; [exact Hx|now apply Hk]].
  - apply decode_ivalue_fixed; [exact E|now apply N.eqb_eq|].
    unfold iknown in Hk. destruct (if_ent f); [now inversion Hx|split; [exact Hx|now apply Hk]].
Qed.

(* ---- one record: the entries, and the two byte counts the loop keeps ---- *)
Fixpoint var_bytes (fs : list ifield) (vals : list ivalue_spec) : N :=
  match fs, vals with
  | f :: fs', v :: vals' => (if is_varlen f then lenN (enc_ivalue f v) else 0) + var_bytes fs' vals'
  | _, _ => 0
  end%N.

Lemma decode_irecord puf fs : forall c vals ents rest,
  Forall (iknown puf) fs -> interp_irecord fs c vals = Some ents ->
  parse_irecord puf fs c (enc_irecord fs vals ++ rest) = Ok (ents, (lenN (enc_irecord fs vals), var_bytes fs vals)) rest.
Proof.
  induction fs as [|f fs IH]; intros c vals ents rest Hk H; destruct vals as [|v vals]; cbn [interp_irecord] in H; try discriminate.
  - inversion H; subst. reflexivity.
  - inversion Hk as [|? ? Hkf Hkfs]; subst.
    destruct (value_fits f v) eqn:Hfit; [|discriminate].
    destruct (interp_ivalue f (snd v)) as [x|] eqn:Hx; [|discriminate].
    destruct (interp_irecord fs (c + 1) vals) as [l|] eqn:Hl; [|discriminate]. inversion H; subst.
    cbn [enc_irecord parse_irecord var_bytes]. rewrite <- app_assoc.
    pose proof (decode_ivalue puf f v x (enc_irecord fs vals ++ rest) Hkf Hfit Hx) as Hv. rewrite Hv.
    rewrite (IH _ _ _ rest Hkfs Hl).
    apply parse_ivalue_ok in Hv. destruct Hv as [pre [Hpre [Htk _]]]. apply app_inv_tail in Hpre. subst pre.
    rewrite <- Htk. unfold lenN. rewrite app_length, Nat2N.inj_add. reflexivity.
Qed.

(* what the fixed-length fields take, and the smallest size a record can have *)
Definition fixed_sum (fs : list ifield) : N :=
  fold_right (fun f acc => (if is_varlen f then 0 else if_len f) + acc)%N 0%N fs.
Definition min_rec (fs : list ifield) : N := (fixed_sum fs + varlen_count fs)%N.

Lemma varlen_count_cons f fs : varlen_count (f :: fs) = ((if is_varlen f then 1 else 0) + varlen_count fs)%N.
Proof. unfold varlen_count, lenN. cbn [filter]. destruct (is_varlen f); cbn [length]; lia. Qed.

Lemma record_sizes fs : forall c vals ents, interp_irecord fs c vals = Some ents ->
  (lenN (enc_irecord fs vals) = fixed_sum fs + var_bytes fs vals /\ varlen_count fs <= var_bytes fs vals)%N.
Proof.
  induction fs as [|f fs IH]; intros c vals ents H; destruct vals as [|v vals]; cbn [interp_irecord] in H; try discriminate.
  - cbn. unfold varlen_count, lenN. cbn. lia.
  - destruct (value_fits f v) eqn:Hfit; [|discriminate].
    destruct (interp_ivalue f (snd v)) as [x|]; [|discriminate].
    destruct (interp_irecord fs (c + 1) vals) as [l|] eqn:Hl; [|discriminate].
    destruct (IH _ _ _ Hl) as [H1 H2]. cbn [enc_irecord var_bytes fixed_sum fold_right]. fold (fixed_sum fs).
    rewrite varlen_count_cons. unfold lenN in *. rewrite app_length, Nat2N.inj_add.
    unfold is_varlen, enc_ivalue, value_fits in *. destruct (if_len f =? 65535)%N; cbv iota.
    + split; [lia|]. rewrite app_length. destruct (fst v); cbn [var_prefix length]; lia.
    + apply N.eqb_eq in Hfit. unfold lenN in Hfit. split; lia.
Qed.

Lemma has_at_least_spec n (l : bytes) : has_at_least n l = (n <=? lenN l)%N.
Proof.
  unfold has_at_least. destruct (take (N.to_nat n) l) as [[a r]|] eqn:E.
  - apply take_spec in E. destruct E as [-> Ha]. symmetry. apply N.leb_le. unfold lenN. rewrite app_length. lia.
  - apply take_none in E. symmetry. apply N.leb_gt. unfold lenN. lia.
Qed.

(* ---- the record loop ---- *)
Lemma decode_irecords puf fs : forall recs ents pad fuel,
  Forall (iknown puf) fs -> recs <> [] -> interp_irecords fs recs = Some ents ->
  (0 < min_rec fs)%N -> (lenN pad < min_rec fs)%N ->
  (length (List.concat (map (enc_irecord fs) recs) ++ pad) < fuel)%nat ->
  parse_irecords fuel puf fs (List.concat (map (enc_irecord fs) recs) ++ pad) = Ok ents pad.
Proof.
  induction recs as [|r recs IH]; intros ents pad fuel Hk Hne Hi Hmin Hpad Hfuel; [contradiction|].
  cbn [interp_irecords] in Hi. destruct (interp_irecord fs 0 r) as [a|] eqn:Ha; [|discriminate].
  destruct (interp_irecords fs recs) as [l|] eqn:Hl; [|discriminate]. inversion Hi; subst.
  destruct fuel as [|fuel]; [lia|]. cbn [map List.concat parse_irecords]. rewrite <- app_assoc.
  rewrite (decode_irecord puf fs 0 r a _ Hk Ha).
  destruct (record_sizes fs 0 r a Ha) as [Hsz Hvc].
  assert (Hpos : (0 <? lenN (enc_irecord fs r))%N = true) by (apply N.ltb_lt; unfold min_rec in Hmin; lia).
  rewrite Hpos. cbn [andb]. rewrite has_at_least_spec.
  replace (lenN (enc_irecord fs r) - var_bytes fs r + varlen_count fs)%N with (min_rec fs) by (unfold min_rec; lia).
  destruct recs as [|r2 recs].
  - cbn [map List.concat app]. inversion Hl; subst. rewrite app_nil_r.
    assert (Hb : (min_rec fs <=? lenN pad)%N = false) by (apply N.leb_gt; exact Hpad). now rewrite Hb.
  - assert (Hb : (min_rec fs <=? lenN (List.concat (map (enc_irecord fs) (r2 :: recs)) ++ pad))%N = true).
    { apply N.leb_le. cbn [map List.concat interp_irecords] in *.
      destruct (interp_irecord fs 0 r2) as [a2|] eqn:Ha2; [|discriminate].
      destruct (record_sizes fs 0 r2 a2 Ha2) as [Hsz2 Hvc2]. unfold lenN in *. rewrite !app_length, !Nat2N.inj_add.
      unfold min_rec. lia. }
    rewrite Hb. rewrite (IH l pad fuel Hk ltac:(discriminate) eq_refl Hmin Hpad); [reflexivity|].
    cbn [map List.concat] in Hfuel. rewrite <- app_assoc, (app_length (enc_irecord fs r)) in Hfuel. cbn [map List.concat]. apply N.ltb_lt in Hpos. unfold lenN in Hpos. lia.
Qed.

Lemma decode_idata puf fs recs ents pad :
  fs <> [] -> Forall (iknown puf) fs -> recs <> [] -> interp_irecords fs recs = Some ents ->
  (0 < min_rec fs)%N -> (lenN pad < min_rec fs)%N ->
  parse_idata puf fs (List.concat (map (enc_irecord fs) recs) ++ pad) = Ok (ents, pad) [].
Proof.
  intros Hfs Hk Hne Hi Hmin Hpad. unfold parse_idata, bind. destruct fs as [|f fs]; [contradiction|]. cbn [is_nil].
  rewrite (decode_irecords puf (f :: fs) recs ents pad _ Hk Hne Hi Hmin Hpad); [reflexivity|lia].
Qed.

(* ---- one set ---- *)
Definition conformant_iset (puf : bool) (s : ixstate) (f : iset_spec) : Prop :=
  (4 + lenN (iset_body_bytes (fields_of s) f) < 65536)%N /\
  match f with
  | STemplate t => wf_itemplate t /\ fields_valid (it_fields t) = true
  | SOTemplate t => wf_iotemplate t /\ fields_valid (io_fields t) = true
  | SData id recs pad =>
      (ipfix_set_min_range <= id < 65536)%N /\ recs <> [] /\
      (* exactly one of the two maps holds the id (always so in a state a parser can reach, since repair 4fcfdcb) *)
      ((lookup id (ix_t s) <> None /\ lookup id (ix_o s) = None) \/ (lookup id (ix_t s) = None /\ lookup id (ix_o s) <> None)) /\
      let fs := fields_of s id in
      fs <> [] /\ Forall (iknown puf) fs /\ (0 < min_rec fs)%N /\ (lenN pad < min_rec fs)%N
  end.

Lemma decode_iset puf s f x rest :
  conformant_iset puf s f -> expect_iset s f = Some x ->
  parse_iset puf s (enc_iset s f ++ rest) = (Ok x rest, learn_iset s f).
Proof.
  intros [Hlen Hc] Hx. unfold parse_iset, enc_iset. cbv zeta. rewrite <- !app_assoc.
  assert (Hid : (iset_id_of f < 65536)%N) by (destruct f; cbn [iset_id_of]; [lia|lia|tauto]).
  rewrite u_s_enc by exact Hid. rewrite u_s_enc by exact Hlen.
  unfold map_res_take_st.
  replace (4 + lenN (iset_body_bytes (fields_of s) f) - 4)%N with (lenN (iset_body_bytes (fields_of s) f)) by lia.
  rewrite take_c_lenN.
  destruct f as [t|t|id recs pad]; cbn [iset_id_of iset_body_bytes learn_iset expect_iset] in *.
  - destruct Hc as [Hwf Hv]. inversion Hx; subst. unfold parse_ibody.
    change ((2 <? ipfix_set_min_range)%N && negb (2 =? ipfix_options_template_id)%N) with true. cbn iota.
    rewrite (decode_itemplate t Hwf), Hv. reflexivity.
  - destruct Hc as [Hwf Hv]. inversion Hx; subst. unfold parse_ibody.
    change ((3 <? ipfix_set_min_range)%N && negb (3 =? ipfix_options_template_id)%N) with false.
    change (3 =? ipfix_options_template_id)%N with true. cbn iota.
    rewrite (decode_iotemplate t Hwf), Hv. reflexivity.
  - destruct Hc as [[Hlo Hhi] [Hne [Hsome [Hfs [Hk [Hmin Hpad]]]]]]. unfold parse_ibody.
    assert (H1 : (id <? ipfix_set_min_range)%N = false) by (apply N.ltb_ge; exact Hlo). rewrite H1. cbn [andb].
    assert (H2 : (id =? ipfix_options_template_id)%N = false).
    { apply N.eqb_neq. intro E. subst id. vm_compute in Hlo. now apply Hlo. }
    rewrite H2. unfold fields_of in *.
    destruct (lookup id (ix_t s)) as [t|] eqn:Et.
    + destruct (interp_irecords (it_fields t) recs) as [ents|] eqn:Ei; [|discriminate]. inversion Hx; subst.
      rewrite (decode_idata puf (it_fields t) recs ents pad Hfs Hk Hne Ei Hmin Hpad). reflexivity.
    + destruct (lookup id (ix_o s)) as [t|] eqn:Eo; [|discriminate].
      destruct (interp_irecords (io_fields t) recs) as [ents|] eqn:Ei; [|discriminate]. inversion Hx; subst.
      rewrite (decode_idata puf (io_fields t) recs ents pad Hfs Hk Hne Ei Hmin Hpad). reflexivity.
Qed.

(* ---- the sets of a message, the collector's state threaded through ---- *)
Fixpoint conformant_isets (puf : bool) (s : ixstate) (l : list iset_spec) : Prop :=
  match l with
  | [] => True
  | f :: l' => conformant_iset puf s f /\ conformant_isets puf (learn_iset s f) l'
  end.

Lemma enc_iset_length s f : (4 <= length (enc_iset s f))%nat.
Proof. unfold enc_iset. cbv zeta. rewrite !app_length, !enc_length. lia. Qed.

Lemma parse_iset_nil puf s : complete_st (parse_iset puf) s [] = (Err EError, s).
Proof. reflexivity. Qed.

Lemma decode_isets puf : forall l s xs s' fuel,
  conformant_isets puf s l -> expect_isets s l = Some (xs, s') -> (length (enc_isets s l) < fuel)%nat ->
  many0_st_aux fuel (complete_st (parse_iset puf)) s (enc_isets s l) = (Ok xs [], s').
Proof.
  induction l as [|f l IH]; intros s xs s' fuel Hc Hx Hf; cbn [expect_isets] in Hx.
  - inversion Hx; subst. destruct fuel; [cbn in Hf; lia|]. cbn [enc_isets many0_st_aux].
    now rewrite parse_iset_nil.
  - destruct Hc as [Hcf Hc].
    destruct (expect_iset s f) as [x|] eqn:Ex; [|discriminate].
    destruct (expect_isets (learn_iset s f) l) as [[xs' s2]|] eqn:Es; [|discriminate]. inversion Hx; subst.
    destruct fuel; [lia|]. cbn [enc_isets many0_st_aux]. cbn [enc_isets] in Hf. rewrite app_length in Hf.
    unfold complete_st at 1. rewrite (decode_iset puf s f x _ Hcf Ex).
    rewrite shorter_spec. pose proof (enc_iset_length s f) as H4.
    assert (Hs : (length (enc_isets (learn_iset s f) l) <? length (enc_iset s f ++ enc_isets (learn_iset s f) l))%nat = true).
    { apply Nat.ltb_lt. rewrite app_length. lia. }
    rewrite Hs. rewrite (IH _ _ _ fuel Hc Es); [reflexivity|lia].
Qed.

(* ---- the message ---- *)
Definition enc_ix_message (s : ixstate) (h : list N) (l : list iset_spec) : bytes :=
  wire_bytes ipfix_header_layout h ++ enc_isets s l.

Lemma decode_message puf s h l xs s' rest :
  wf_vals ipfix_header_layout [] h ->
  get_field ipfix_header_layout h "length" = (16 + lenN (enc_isets s l))%N ->
  conformant_isets puf s l -> expect_isets s l = Some (xs, s') ->
  parse_ipfix puf s (enc_ix_message s h l ++ rest) = (Ok {| ix_header := h; ix_sets := xs |} rest, s').
Proof.
  intros Hwf Hlen Hc Hx. unfold parse_ipfix, enc_ix_message, parse_layout. rewrite <- app_assoc.
  rewrite (parse_layout_aux_enc _ _ _ _ Hwf). rewrite Hlen.
  replace (16 + lenN (enc_isets s l) - 16)%N with (lenN (enc_isets s l)) by lia.
  unfold map_res_take_st. rewrite take_c_lenN. unfold many0_st.
  rewrite (decode_isets puf l s xs s' _ Hc Hx); [reflexivity|lia].
Qed.

(* ---- C07 for IPFIX at message level: conformant sets, then a set the loop cannot take ---- *)
Lemma decode_isets_then_stop puf : forall l s xs s' tail fuel,
  conformant_isets puf s l -> expect_isets s l = Some (xs, s') ->
  parse_iset puf s' tail = (Err EError, s') ->
  (length (enc_isets s l ++ tail) < fuel)%nat ->
  many0_st_aux fuel (complete_st (parse_iset puf)) s (enc_isets s l ++ tail) = (Ok xs tail, s').
Proof.
  induction l as [|f l IH]; intros s xs s' tail fuel Hc Hx Ht Hf; cbn [expect_isets] in Hx.
  - inversion Hx; subst. destruct fuel; [cbn in Hf; lia|]. cbn [enc_isets app many0_st_aux].
    unfold complete_st. now rewrite Ht.
  - destruct Hc as [Hcf Hc].
    destruct (expect_iset s f) as [x|] eqn:Ex; [|discriminate].
    destruct (expect_isets (learn_iset s f) l) as [[xs' s2]|] eqn:Es; [|discriminate]. inversion Hx; subst.
    destruct fuel; [lia|]. cbn [enc_isets many0_st_aux]. cbn [enc_isets] in Hf. rewrite <- app_assoc in *.
    rewrite app_length in Hf.
    unfold complete_st at 1. rewrite (decode_iset puf s f x _ Hcf Ex).
    rewrite shorter_spec. pose proof (enc_iset_length s f) as H4.
    assert (Hs : (length (enc_isets (learn_iset s f) l ++ tail) <? length (enc_iset s f ++ enc_isets (learn_iset s f) l ++ tail))%nat = true).
    { apply Nat.ltb_lt. rewrite (app_length (enc_iset s f)). lia. }
    rewrite Hs. rewrite (IH _ _ _ tail fuel Hc Es Ht); [reflexivity|lia].
Qed.

(* a message whose sets are: any conformant list, then a data set for an id in neither IPFIX map
   (after those sets), then anything up to the message length: the message is reported with exactly
   the conformant sets, the caches are what those sets made them, and the bytes after the message
   are the rest: the unknown set and everything after it inside the message are omitted *)
Lemma decode_message_unknown puf s h l xs s' tail rest id len r1 r2 :
  wf_vals ipfix_header_layout [] h ->
  get_field ipfix_header_layout h "length" = (16 + lenN (enc_isets s l ++ tail))%N ->
  conformant_isets puf s l -> expect_isets s l = Some (xs, s') ->
  u_s 2 tail = Ok id r1 -> u_s 2 r1 = Ok len r2 -> (ipfix_set_min_range <= id)%N ->
  lookup id (ix_t s') = None -> lookup id (ix_o s') = None ->
  parse_ipfix puf s (wire_bytes ipfix_header_layout h ++ (enc_isets s l ++ tail) ++ rest)
  = (Ok {| ix_header := h; ix_sets := xs |} rest, s').
Proof.
  intros Hwf Hlen Hc Hx H1 H2 Hid Ht Ho. unfold parse_ipfix, parse_layout.
  rewrite (parse_layout_aux_enc _ _ _ _ Hwf). rewrite Hlen.
  replace (16 + lenN (enc_isets s l ++ tail) - 16)%N with (lenN (enc_isets s l ++ tail)) by lia.
  unfold map_res_take_st. rewrite take_c_lenN. unfold many0_st.
  pose proof (CacheFacts.parse_iset_unknown puf s' tail id len r1 r2 H1 H2 Hid Ht Ho) as Hu.
  rewrite (decode_isets_then_stop puf l s xs s' tail _ Hc Hx Hu); [reflexivity|lia].
Qed.
