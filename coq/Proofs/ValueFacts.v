(* Proofs/ValueFacts.v — data_number.rs: what a decoded value consumed, and the invariant that
   keeps re-export away from byteorder's range assertion. *)
From NF Require Import Base Nom Types Layout Value BaseFacts NomFacts.
From Coq Require Import Lia.
Open Scope list_scope.
Open Scope N_scope.

(* values the parser can produce: a U24 holds 24 bits (be_u24), so write_u24 cannot panic *)
Definition dnum_ok (d : dnum) : Prop := match d with U24 n => n < 2 ^ 24 | _ => True end.
Definition fval_ok (v : fval) : Prop := match v with VNum d => dnum_ok d | _ => True end.

Ltac destruct_pos H :=
  repeat match type of H with
         | context [match ?p with xI _ => _ | xO _ => _ | xH => _ end] => destruct p
         end.

Lemma pmap_ok {A B} (f : A -> B) (p : parser A) i b r :
  pmap f p i = Ok b r -> exists a, p i = Ok a r /\ b = f a.
Proof. unfold pmap. destruct (p i) as [a r'|e]; [|discriminate]. intro H. inversion H; subst. eauto. Qed.

(* DataNumber::parse consumes exactly field_length bytes, and only for the six supported widths *)
Lemma dnum_parse_ok len signed i d r :
  dnum_parse len signed i = Ok d r ->
  exists pre, i = pre ++ r /\ N.of_nat (length pre) = len /\ dnum_ok d.
Proof.
  unfold dnum_parse. intro H.
  destruct len as [|p]; [discriminate|].
  destruct_pos H; destruct signed; try discriminate;
    apply pmap_ok in H; destruct H as [n [H ->]];
    (apply u_s_ok in H || apply u_c_ok in H); destruct H as [-> Hb];
    eexists; (split; [reflexivity|]); rewrite enc_length; (split; [reflexivity|]); cbn; auto.
Qed.

Lemma from_field_type_ok puf dt len i v r :
  from_field_type puf dt len i = Ok v r ->
  exists pre, i = pre ++ r /\ N.of_nat (length pre) = consumed_of dt len /\ fval_ok v.
Proof.
  unfold from_field_type. intro H.
  destruct dt; cbn [consumed_of].
  - (* String *) apply pmap_ok in H. destruct H as [a [H ->]]. apply take_c_ok in H. destruct H as [-> HL].
    exists a. rewrite HL, N2Nat.id. cbn. auto.
  - apply pmap_ok in H. destruct H as [d [H ->]]. apply dnum_parse_ok in H. destruct H as [pre [-> [HL Hd]]]. eauto.
  - apply pmap_ok in H. destruct H as [d [H ->]]. apply dnum_parse_ok in H. destruct H as [pre [-> [HL Hd]]]. eauto.
  - apply pmap_ok in H. destruct H as [n [H ->]]. apply u_s_ok in H. destruct H as [-> _].
    eexists; split; [reflexivity|]. rewrite enc_length. cbn. auto.
  - apply pmap_ok in H. destruct H as [d [H ->]]. apply dnum_parse_ok in H. destruct H as [pre [-> [HL _]]].
    exists pre. cbn. auto.
  - apply pmap_ok in H. destruct H as [d [H ->]]. apply dnum_parse_ok in H. destruct H as [pre [-> [HL _]]].
    exists pre. cbn. auto.
  - apply pmap_ok in H. destruct H as [d [H ->]]. apply dnum_parse_ok in H. destruct H as [pre [-> [HL _]]].
    exists pre. cbn. auto.
  - apply pmap_ok in H. destruct H as [d [H ->]]. apply dnum_parse_ok in H. destruct H as [pre [-> [HL _]]].
    exists pre. cbn. auto.
  - apply pmap_ok in H. destruct H as [n [H ->]]. apply u_c_ok in H. destruct H as [-> _].
    eexists; split; [reflexivity|]. rewrite enc_length. cbn. auto.
  - apply pmap_ok in H. destruct H as [n [H ->]]. apply u_c_ok in H. destruct H as [-> _].
    eexists; split; [reflexivity|]. rewrite enc_length. cbn. auto.
  - apply pmap_ok in H. destruct H as [a [H ->]]. apply take_c_ok in H. destruct H as [-> HL].
    exists a. rewrite HL. cbn. auto.
  - apply pmap_ok in H. destruct H as [a [H ->]]. apply take_c_ok in H. destruct H as [-> HL].
    exists a. rewrite HL, N2Nat.id. cbn. auto.
  - destruct (u_s 1 i) as [b r1|e] eqn:E; [|discriminate]. inversion H; subst.
    apply u_s_ok in E. destruct E as [-> _]. eexists; split; [reflexivity|]. rewrite enc_length. cbn. auto.
  - destruct puf; [|discriminate]. apply pmap_ok in H. destruct H as [a [H ->]]. apply take_c_ok in H.
    destruct H as [-> HL]. exists a. rewrite HL, N2Nat.id. cbn. auto.
Qed.

Lemma from_field_type_no_fuel puf dt len i : from_field_type puf dt len i <> Err EFuel.
Proof.
  unfold from_field_type, dnum_parse, pmap, take_c, u_s, u_c.
  destruct dt; try (destruct (take _ i) as [[? ?]|]; discriminate).
  all: try (destruct len as [|p]; [discriminate|];
            repeat match goal with
                   | |- context [match ?p with xI _ => _ | xO _ => _ | xH => _ end] => destruct p
                   end; try discriminate; destruct (take _ i) as [[? ?]|]; discriminate).
  - destruct puf; [|discriminate]. destruct (take _ i) as [[? ?]|]; discriminate.
Qed.

(* ---- to_be_bytes never panics on parser output ---- *)
Lemma dnum_to_be_ok d : dnum_ok d -> dnum_to_be d <> XPanic.
Proof.
  destruct d; cbn; try discriminate. intro H. apply N.ltb_lt in H. rewrite H. discriminate.
Qed.

Lemma fval_to_be_ok v : fval_ok v -> fval_to_be v <> XPanic.
Proof.
  destruct v; cbn; try discriminate.
  - apply dnum_to_be_ok.
  - intros _. destruct (secs <? 2 ^ 32); discriminate.
Qed.
