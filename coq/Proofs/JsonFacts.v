(* Proofs/JsonFacts.v — C16: the text the model's printer emits is well-formed JSON: reading it back
   gives the tree (names and marker leaves as ordinary JSON, see JsonRead.plain). *)
From NF Require Import Base Nom Types Layout Value V9 Ipfix Parser Export Common Json JsonRead BaseFacts.
From Coq Require Import Lia Decimal DecimalN DecimalPos.
Open Scope string_scope.
Open Scope list_scope.
Open Scope N_scope.

(* ---- a usable induction principle for the nested type ---- *)
Section JsonInd.
  Variable P : json -> Prop.
  Hypothesis Hnull : P JNull.
  Hypothesis Hbool : forall b, P (JBool b).
  Hypothesis Hnum : forall z, P (JNum z).
  Hypothesis Hstr : forall s, P (JStr s).
  Hypothesis Htext : forall b, P (JText b).
  Hypothesis Hf64 : forall n, P (JF64 n).
  Hypothesis Hip4 : forall n, P (JIp4 n).
  Hypothesis Hip6 : forall n, P (JIp6 n).
  Hypothesis Hmsg : forall e, P (JMsg e).
  Hypothesis Harr : forall l, Forall P l -> P (JArr l).
  Hypothesis Hobj : forall l, Forall (fun kv => P (snd kv)) l -> P (JObj l).

  Fixpoint json_ind' (j : json) : P j :=
    match j with
    | JNull => Hnull | JBool b => Hbool b | JNum z => Hnum z | JStr s => Hstr s | JText b => Htext b
    | JF64 n => Hf64 n | JIp4 n => Hip4 n | JIp6 n => Hip6 n | JMsg e => Hmsg e
    | JArr l => Harr l ((fix go (l : list json) : Forall P l :=
                           match l with [] => Forall_nil _ | x :: l' => Forall_cons _ (json_ind' x) (go l') end) l)
    | JObj l => Hobj l ((fix go (l : list (string * json)) : Forall (fun kv => P (snd kv)) l :=
                           match l with [] => Forall_nil _ | x :: l' => Forall_cons _ (json_ind' (snd x)) (go l') end) l)
    end.
End JsonInd.

(* ---- numbers ---- *)
Definition no_digit_start (k : bytes) : Prop := match k with [] => True | c :: _ => is_digit c = false end.

Lemma rd_uint_print u : forall k, no_digit_start k -> rd_uint (uint_bytes u k) = (u, k).
Proof.
  induction u; intros k Hk; cbn [uint_bytes rd_uint];
    try (change (is_digit _) with true; cbn iota; rewrite IHu by exact Hk; reflexivity).
  destruct k as [|c k]; [reflexivity|]. cbn [rd_uint]. cbn in Hk. now rewrite Hk.
Qed.

Lemma to_uint_nonnil n : N.to_uint n <> Nil.
Proof. destruct n; cbn; [discriminate|apply Unsigned.to_uint_nonnil]. Qed.

Lemma uint_bytes_head u k : u <> Nil -> exists b r, uint_bytes u k = b :: r /\ is_digit b = true /\ bN b <> 45.
Proof. destruct u; intro H; [contradiction| | | | | | | | | |]; eexists; eexists; (split; [reflexivity|split; [reflexivity|discriminate]]). Qed.

(* ---- strings ---- *)
Lemma bN_hexd d : d < 16 -> unhex (hexd d) = d.
Proof.
  intro H. unfold unhex, hexd. rewrite bN_byte_of.
  destruct (N.ltb_spec d 10) as [E|E].
  - rewrite (N.mod_small (48 + d) 256) by lia.
    destruct (N.ltb_spec (48 + d) 58) as [E2|E2]; lia.
  - rewrite (N.mod_small (87 + d) 256) by lia.
    destruct (N.ltb_spec (87 + d) 58) as [E2|E2]; lia.
Qed.

Lemma hexd_not_special d : d < 16 -> True.
Proof. trivial. Qed.

Lemma rd_str_print b : forall k, rd_str (esc_bytes b (x22 :: k)) = Some (b, k).
Proof.
  induction b as [|x b IH]; intro k; cbn [esc_bytes].
  - reflexivity.
  - destruct (bN x =? 34) eqn:E34.
    + cbn [rd_str]. change (bN x5c =? 34) with false. change (bN x5c =? 92) with true. cbn iota.
      change (bN x22 =? 34) with true. cbn iota. rewrite IH. apply N.eqb_eq in E34.
      f_equal. f_equal. f_equal. rewrite <- (byte_of_bN x), E34. reflexivity.
    + destruct (bN x =? 92) eqn:E92.
      * cbn [rd_str]. change (bN x5c =? 34) with false. change (bN x5c =? 92) with true. cbn iota.
        rewrite IH. apply N.eqb_eq in E92. f_equal. f_equal. f_equal. rewrite <- (byte_of_bN x), E92. reflexivity.
      * destruct (bN x <? 32) eqn:E32.
        -- cbn [rd_str]. change (bN x5c =? 34) with false. change (bN x5c =? 92) with true. cbn iota.
           change (bN x75 =? 34) with false. change (bN x75 =? 92) with false. change (bN x75 =? 117) with true. cbn iota.
           change (bN x30 =? 48) with true. cbn [andb]. rewrite IH.
           apply N.ltb_lt in E32. rewrite !bN_hexd.
           ++ replace (16 * (bN x / 16) + bN x mod 16) with (bN x) by (apply N.div_mod; lia).
              now rewrite byte_of_bN.
           ++ apply N.mod_lt. lia.
           ++ apply N.div_lt_upper_bound; lia.
        -- cbn [rd_str]. rewrite E34, E92, IH. reflexivity.
Qed.

Lemma expect_app w k : expect w (w ++ k) = Some k.
Proof. induction w as [|a w IH]; cbn [Datatypes.app expect]; [reflexivity|]. rewrite N.eqb_refl. exact IH. Qed.

(* ---- what may follow a value inside an array or object, or at the end ---- *)
Definition delim_start (k : bytes) : Prop :=
  match k with [] => True | c :: _ => bN c = 44 \/ bN c = 93 \/ bN c = 125 end.
Lemma delim_no_digit k : delim_start k -> no_digit_start k.
Proof.
  destruct k as [|c k]; cbn; [auto|]. unfold is_digit. intros [H|[H|H]]; rewrite H; reflexivity.
Qed.

Fixpoint jsize (j : json) : nat :=
  match j with
  | JArr l => S (fold_right (fun x acc => S (jsize x + acc))%nat O l)
  | JObj l => S (fold_right (fun kv acc => S (jsize (snd kv) + acc))%nat O l)
  | JF64 _ | JIp4 _ | JIp6 _ | JMsg _ => 3
  | _ => 1
  end%nat.

Lemma rd_val_N n k f : delim_start k -> rd_val (S f) (n_bytes n k) = Some (JNum (Z.of_N n), k).
Proof.
  intro Hk. pose proof (delim_no_digit k Hk) as Hnd. unfold n_bytes.
  destruct (uint_bytes_head (N.to_uint n) k (to_uint_nonnil _)) as [b [r [Hb [Hd H45]]]].
  cbn [rd_val]. rewrite Hb.
  pose proof Hd as Hdg. unfold is_digit in Hd. apply andb_prop in Hd. destruct Hd as [Hd1 Hd2].
  apply N.leb_le in Hd1, Hd2.
  destruct (N.eqb_spec (bN b) 110); [lia|]. destruct (N.eqb_spec (bN b) 116); [lia|].
  destruct (N.eqb_spec (bN b) 102); [lia|]. destruct (N.eqb_spec (bN b) 34); [lia|].
  destruct (N.eqb_spec (bN b) 45); [lia|].
  rewrite Hdg, <- Hb, rd_uint_print by exact Hnd.
  rewrite DecimalN.Unsigned.of_to. pose proof (to_uint_nonnil n) as Hnn. destruct (N.to_uint n); [contradiction| | | | | | | | | |]; reflexivity.
Qed.

Lemma rd_val_num z k f : delim_start k -> rd_val (S f) (z_bytes z k) = Some (JNum z, k).
Proof.
  intro Hk. destruct z as [|p|p]; cbn [z_bytes].
  - exact (rd_val_N 0 k f Hk).
  - exact (rd_val_N (Npos p) k f Hk).
  - pose proof (delim_no_digit k Hk) as Hnd.
    cbn [rd_val]. change (bN x2d =? 110) with false. change (bN x2d =? 116) with false. change (bN x2d =? 102) with false.
    change (bN x2d =? 34) with false. change (bN x2d =? 45) with true. cbn iota.
    unfold n_bytes. rewrite rd_uint_print by exact Hnd.
    rewrite DecimalN.Unsigned.of_to. pose proof (to_uint_nonnil (Npos p)) as Hnn. destruct (N.to_uint (Npos p)); [contradiction| | | | | | | | | |]; reflexivity.
Qed.

(* ---- the printer's list loops as standalone functions ---- *)
Fixpoint pj_elems (l : list json) (first : bool) (k : bytes) : bytes :=
  match l with
  | [] => k
  | j :: l' => if first then pj j (pj_elems l' false k) else x2c :: pj j (pj_elems l' false k)
  end.
Fixpoint pj_members (l : list (string * json)) (first : bool) (k : bytes) : bytes :=
  match l with
  | [] => k
  | (n, j) :: l' =>
      let body := quoted (str_bytes n) (x3a :: pj j (pj_members l' false k)) in
      if first then body else x2c :: body
  end.

Lemma pj_arr l k : pj (JArr l) k = x5b :: pj_elems l true (x5d :: k).
Proof. reflexivity. Qed.
Lemma pj_obj l k : pj (JObj l) k = x7b :: pj_members l true (x7d :: k).
Proof. reflexivity. Qed.

(* ---- the round trip ---- *)
Definition rd_ok (j : json) : Prop :=
  forall k fuel, delim_start k -> (jsize j <= fuel)%nat -> rd_val fuel (pj j k) = Some (plain j, k).

Lemma rd_quoted b k f : rd_val (S f) (quoted b k) = Some (JText b, k).
Proof.
  unfold quoted. cbn [rd_val]. change (bN x22 =? 110) with false. change (bN x22 =? 116) with false.
  change (bN x22 =? 102) with false. change (bN x22 =? 34) with true. cbn iota. now rewrite rd_str_print.
Qed.

Definition elems_size (l : list json) : nat := fold_right (fun x acc => S (jsize x + acc))%nat O l.
Definition members_size (l : list (string * json)) : nat := fold_right (fun kv acc => S (jsize (snd kv) + acc))%nat O l.

(* a printed value never starts with a closing bracket *)
Lemma pj_head j k : exists c r, pj j k = c :: r /\ bN c <> 93.
Proof.
  destruct j as [| [|] |z|s0|b|n|n|n|e|l|l]; cbn [pj]; try (eexists; eexists; split; [reflexivity|discriminate]).
  - destruct z as [|p|p]; cbn [z_bytes].
    + destruct (uint_bytes_head (N.to_uint (Z.to_N 0)) k (to_uint_nonnil _)) as [c [r [H [Hd _]]]].
      exists c, r. split; [exact H|]. unfold is_digit in Hd. apply andb_prop in Hd. destruct Hd as [_ Hd]. apply N.leb_le in Hd. lia.
    + destruct (uint_bytes_head (N.to_uint (Z.to_N (Zpos p))) k (to_uint_nonnil _)) as [c [r [H [Hd _]]]].
      exists c, r. split; [exact H|]. unfold is_digit in Hd. apply andb_prop in Hd. destruct Hd as [_ Hd]. apply N.leb_le in Hd. lia.
    + eexists; eexists; split; [reflexivity|discriminate].
Qed.

Lemma rd_elems_print : forall l, l <> [] -> Forall rd_ok l ->
  forall k fuel, (elems_size l <= fuel)%nat ->
  rd_elems fuel (pj_elems l true (x5d :: k)) = Some (map plain l, k).
Proof.
  induction l as [|j l IH]; intros Hne HF k fuel Hfuel; [contradiction|].
  inversion HF as [|? ? Hj HFl]; subst. cbn [elems_size fold_right] in Hfuel. fold (elems_size l) in Hfuel.
  destruct fuel as [|f]; [lia|]. cbn [pj_elems rd_elems map].
  destruct l as [|j2 l2].
  - cbn [pj_elems]. rewrite (Hj (x5d :: k) f); [|cbn; auto|lia].
    change (bN x5d =? 44) with false. change (bN x5d =? 93) with true. reflexivity.
  - change (pj_elems (j2 :: l2) false (x5d :: k)) with (x2c :: pj_elems (j2 :: l2) true (x5d :: k)).
    rewrite (Hj (x2c :: pj_elems (j2 :: l2) true (x5d :: k)) f); [|cbn; auto|lia].
    change (bN x2c =? 44) with true. cbn iota.
    rewrite (IH ltac:(discriminate) HFl k f); [reflexivity|]. cbn [elems_size fold_right] in *. lia.
Qed.

Lemma rd_members_print : forall l, l <> [] -> Forall (fun kv => rd_ok (snd kv)) l ->
  forall k fuel, (members_size l <= fuel)%nat ->
  rd_members fuel (pj_members l true (x7d :: k)) = Some (map (fun kv => (fst kv, plain (snd kv))) l, k).
Proof.
  induction l as [|[n j] l IH]; intros Hne HF k fuel Hfuel; [contradiction|].
  inversion HF as [|? ? Hj HFl]; subst. cbn [snd] in Hj. cbn [members_size fold_right snd] in Hfuel. fold (members_size l) in Hfuel.
  destruct fuel as [|f]; [lia|]. cbn [pj_members map fst snd]. unfold quoted at 1. cbn [rd_members].
  change (bN x22 =? 34) with true. cbn iota. rewrite rd_str_print.
  change (bN x3a =? 58) with true. cbn iota.
  replace (string_of_list_byte (str_bytes n)) with n by (unfold str_bytes; now rewrite string_of_list_byte_of_string).
  destruct l as [|[n2 j2] l2].
  - cbn [pj_members]. rewrite (Hj (x7d :: k) f); [|cbn; auto|lia].
    change (bN x7d =? 44) with false. change (bN x7d =? 125) with true. reflexivity.
  - change (pj_members ((n2, j2) :: l2) false (x7d :: k)) with (x2c :: pj_members ((n2, j2) :: l2) true (x7d :: k)).
    rewrite (Hj (x2c :: pj_members ((n2, j2) :: l2) true (x7d :: k)) f); [|cbn; auto|lia].
    change (bN x2c =? 44) with true. cbn iota.
    rewrite (IH ltac:(discriminate) HFl k f); [reflexivity|]. cbn [members_size fold_right snd] in *. lia.
Qed.

(* one-step unfoldings, so that proofs open exactly one level of fuel *)
Lemma rd_obj_S f r : rd_val (S f) (x7b :: r) =
  match r with
  | c :: r1 => if bN c =? 125 then Some (JObj [], r1)
               else match rd_members f r with Some (l, k) => Some (JObj l, k) | None => None end
  | [] => None
  end.
Proof. reflexivity. Qed.

Lemma rd_arr_S f r : rd_val (S f) (x5b :: r) =
  match r with
  | c :: r1 => if bN c =? 93 then Some (JArr [], r1)
               else match rd_elems f r with Some (l, k) => Some (JArr l, k) | None => None end
  | [] => None
  end.
Proof. reflexivity. Qed.

Lemma rd_member1 f (name : bytes) (j : json) r k :
  rd_val f r = Some (j, x7d :: k) ->
  rd_members (S f) (quoted name (x3a :: r)) = Some ([(string_of_list_byte name, j)], k).
Proof.
  intro H. unfold quoted. cbn [rd_members]. change (bN x22 =? 34) with true. cbn iota.
  rewrite rd_str_print. change (bN x3a =? 58) with true. cbn iota. rewrite H.
  change (bN x7d =? 44) with false. change (bN x7d =? 125) with true. reflexivity.
Qed.

(* marker leaves: a one-member object holding a number / a name *)
Lemma rd_marker_num (name : string) (n : N) k f :
  delim_start k ->
  rd_val (S (S (S f))) (x7b :: quoted (str_bytes name) (x3a :: n_bytes n (x7d :: k)))
  = Some (JObj [(name, JNum (Z.of_N n))], k).
Proof.
  intro Hk. rewrite rd_obj_S. unfold quoted at 1. change (bN x22 =? 125) with false. cbn iota.
  fold (quoted (str_bytes name) (x3a :: n_bytes n (x7d :: k))).
  rewrite (rd_member1 (S f) (str_bytes name) (JNum (Z.of_N n)) _ k).
  - unfold str_bytes. now rewrite string_of_list_byte_of_string.
  - apply rd_val_N. cbn; auto.
Qed.

Lemma rd_marker_text (name : string) (b : bytes) k f :
  rd_val (S (S (S f))) (x7b :: quoted (str_bytes name) (x3a :: quoted b (x7d :: k)))
  = Some (JObj [(name, JText b)], k).
Proof.
  rewrite rd_obj_S. unfold quoted at 1. change (bN x22 =? 125) with false. cbn iota.
  fold (quoted (str_bytes name) (x3a :: quoted b (x7d :: k))).
  rewrite (rd_member1 (S f) (str_bytes name) (JText b) _ k).
  - unfold str_bytes. now rewrite string_of_list_byte_of_string.
  - apply rd_quoted.
Qed.

Theorem rd_val_print : forall j, rd_ok j.
Proof.
  induction j using json_ind'; intros k fuel Hk Hfuel; cbn [jsize] in Hfuel.
  - destruct fuel; [lia|]. cbn [pj]. change (str_bytes "null" ++ k) with (x6e :: (str_bytes "ull" ++ k)).
    cbn [rd_val]. change (bN x6e =? 110) with true. cbn iota. now rewrite expect_app.
  - destruct fuel; [lia|]. destruct b; cbn [pj].
    + change (str_bytes "true" ++ k) with (x74 :: (str_bytes "rue" ++ k)). cbn [rd_val].
      change (bN x74 =? 110) with false. change (bN x74 =? 116) with true. cbn iota. now rewrite expect_app.
    + change (str_bytes "false" ++ k) with (x66 :: (str_bytes "alse" ++ k)). cbn [rd_val].
      change (bN x66 =? 110) with false. change (bN x66 =? 116) with false. change (bN x66 =? 102) with true. cbn iota.
      now rewrite expect_app.
  - destruct fuel; [lia|]. cbn [pj plain]. now apply rd_val_num.
  - destruct fuel; [lia|]. cbn [pj plain]. apply rd_quoted.
  - destruct fuel; [lia|]. cbn [pj plain]. apply rd_quoted.
  - do 3 (destruct fuel; [lia|]). cbn [pj plain].
    change (str_bytes "{""$f64"":" ++ n_bytes n (x7d :: k)) with (x7b :: quoted (str_bytes "$f64") (x3a :: n_bytes n (x7d :: k))).
    now apply rd_marker_num.
  - do 3 (destruct fuel; [lia|]). cbn [pj plain].
    change (str_bytes "{""$ip4"":" ++ n_bytes n (x7d :: k)) with (x7b :: quoted (str_bytes "$ip4") (x3a :: n_bytes n (x7d :: k))).
    now apply rd_marker_num.
  - do 3 (destruct fuel; [lia|]). cbn [pj plain].
    change (str_bytes "{""$ip6"":" ++ n_bytes n (x7d :: k)) with (x7b :: quoted (str_bytes "$ip6") (x3a :: n_bytes n (x7d :: k))).
    now apply rd_marker_num.
  - do 3 (destruct fuel; [lia|]). cbn [pj plain].
    change (str_bytes "{""$msg"":" ++ quoted (str_bytes (msg_name e)) (x7d :: k))
      with (x7b :: quoted (str_bytes "$msg") (x3a :: quoted (str_bytes (msg_name e)) (x7d :: k))).
    apply rd_marker_text.
  - (* arrays *)
    destruct fuel as [|f]; [lia|]. rewrite pj_arr. cbn [plain]. fold (elems_size l) in Hfuel.
    destruct l as [|j l].
    + cbn [pj_elems map]. rewrite rd_arr_S. change (bN x5d =? 93) with true. reflexivity.
    + rewrite rd_arr_S.
      pose proof (rd_elems_print (j :: l) ltac:(discriminate) H k f ltac:(lia)) as He.
      cbn [pj_elems] in He |- *.
      destruct (pj_head j (pj_elems l false (x5d :: k))) as [c [r [Hc Hn]]]. rewrite Hc in He |- *.
      destruct (N.eqb_spec (bN c) 93); [contradiction|]. now rewrite He.
  - (* objects *)
    destruct fuel as [|f]; [lia|]. rewrite pj_obj. cbn [plain]. fold (members_size l) in Hfuel.
    destruct l as [|[n j] l].
    + cbn [pj_members map]. rewrite rd_obj_S. change (bN x7d =? 125) with true. reflexivity.
    + rewrite rd_obj_S.
      pose proof (rd_members_print ((n, j) :: l) ltac:(discriminate) H k f ltac:(lia)) as He.
      cbn [pj_members] in He |- *. unfold quoted at 1.
      change (bN x22 =? 125) with false. cbn iota. fold (quoted (str_bytes n) (x3a :: pj j (pj_members l false (x7d :: k)))). now rewrite He.
Qed.

(* text length against the reader's fuel *)
Lemma uint_bytes_len u : forall k, (length k <= length (uint_bytes u k))%nat.
Proof. induction u; intro k; cbn [uint_bytes length]; try specialize (IHu k); lia. Qed.

Lemma n_bytes_len n k : (S (length k) <= length (n_bytes n k))%nat.
Proof.
  unfold n_bytes. destruct (uint_bytes_head (N.to_uint n) k (to_uint_nonnil _)) as [c [r [Hc _]]].
  pose proof (to_uint_nonnil n) as Hn. destruct (N.to_uint n) as [|u|u|u|u|u|u|u|u|u|u]; [contradiction|..];
    cbn [uint_bytes length]; pose proof (uint_bytes_len u k); lia.
Qed.

Lemma esc_len b : forall k, (length k <= length (esc_bytes b k))%nat.
Proof.
  induction b as [|x b IHb]; intro k; cbn [esc_bytes]; [lia|]. specialize (IHb k).
  destruct (bN x =? 34); [cbn [length]; lia|]. destruct (bN x =? 92); [cbn [length]; lia|].
  destruct (bN x <? 32); cbn [length]; lia.
Qed.

Lemma quoted_len b k : (S (length k) <= length (quoted b k))%nat.
Proof. unfold quoted. cbn [length]. pose proof (esc_len b (x22 :: k)) as H. cbn [length] in H. lia. Qed.

Lemma z_bytes_len z k : (S (length k) <= length (z_bytes z k))%nat.
Proof.
  destruct z as [|p|p]; cbn [z_bytes length].
  - apply n_bytes_len.
  - apply n_bytes_len.
  - pose proof (n_bytes_len (Npos p) k). lia.
Qed.

Lemma pj_length : forall j k, (jsize j + length k <= length (pj j k))%nat.
Proof.
  induction j using json_ind'; intro k; try rewrite pj_arr; try rewrite pj_obj; cbn [jsize pj].
  - rewrite app_length. change (length (str_bytes "null")) with 4%nat. lia.
  - destruct b; rewrite app_length.
    + change (length (str_bytes "true")) with 4%nat. lia.
    + change (length (str_bytes "false")) with 5%nat. lia.
  - pose proof (z_bytes_len z k). lia.
  - pose proof (quoted_len (str_bytes s) k). lia.
  - pose proof (quoted_len b k). lia.
  - rewrite app_length. change (length (str_bytes "{""$f64"":")) with 8%nat.
    pose proof (n_bytes_len n (x7d :: k)) as H. cbn [length] in H. lia.
  - rewrite app_length. change (length (str_bytes "{""$ip4"":")) with 8%nat.
    pose proof (n_bytes_len n (x7d :: k)) as H. cbn [length] in H. lia.
  - rewrite app_length. change (length (str_bytes "{""$ip6"":")) with 8%nat.
    pose proof (n_bytes_len n (x7d :: k)) as H. cbn [length] in H. lia.
  - rewrite app_length. change (length (str_bytes "{""$msg"":")) with 8%nat.
    pose proof (quoted_len (str_bytes (msg_name e)) (x7d :: k)) as H. cbn [length] in H. lia.
  - fold (elems_size l). cbn [length].
    assert (Hg : forall first k0, (elems_size l + length k0 <= length (pj_elems l first k0) + (if first then 1 else 0))%nat).
    { clear k. induction H as [|j l Hj Hl IHl]; intros first k0; cbn [elems_size fold_right pj_elems]; [destruct first; lia|].
      fold (elems_size l). specialize (IHl false k0). specialize (Hj (pj_elems l false k0)).
      cbv iota in IHl. destruct first; cbn [length]; lia. }
    specialize (Hg true (x5d :: k)). cbn [length] in Hg. lia.
  - fold (members_size l). cbn [length].
    assert (Hg : forall first k0, (members_size l + length k0 <= length (pj_members l first k0) + (if first then 1 else 0))%nat).
    { clear k. induction H as [|[n j] l Hj Hl IHl]; intros first k0; cbn [members_size fold_right pj_members snd]; [destruct first; lia|].
      fold (members_size l). specialize (IHl false k0). cbn [snd] in Hj. specialize (Hj (pj_members l false k0)).
      pose proof (quoted_len (str_bytes n) (x3a :: pj j (pj_members l false k0))) as Hq. cbn [length] in Hq.
      cbv iota in IHl. destruct first; cbn [length]; lia. }
    specialize (Hg true (x7d :: k)). cbn [length] in Hg. lia.
Qed.

(* C16: the printed text of any tree reads back to the tree *)
Theorem read_print : forall j, read_json (print_json j) = Some (plain j).
Proof.
  intro j. unfold read_json, print_json.
  rewrite (rd_val_print j [] (S (length (pj j []))) I); [reflexivity|].
  pose proof (pj_length j []). cbn in H. lia.
Qed.
