(* Proofs/BaseFacts.v — bytes, big-endian codec, take, association lists. *)
From NF Require Import Base.
From Coq Require Import Lia ZifyBool ZifyNat ZifyN.
Ltac Zify.zify_post_hook ::= Z.div_mod_to_equations.
Arguments N.add : simpl never.
Arguments N.mul : simpl never.
Arguments N.div : simpl never.
Arguments N.modulo : simpl never.
Arguments N.pow : simpl never.

(* ---- bytes ---- *)
Lemma bN_bound (b : byte) : bN b < 256.
Proof. unfold bN. pose proof (Byte.to_N_bounded b). lia. Qed.

Lemma byte_of_bN (b : byte) : byte_of (bN b) = b.
Proof.
  unfold byte_of, bN. rewrite N.mod_small by (pose proof (Byte.to_N_bounded b); lia).
  now rewrite Byte.of_to_N.
Qed.

Lemma bN_byte_of (n : N) : bN (byte_of n) = n mod 256.
Proof.
  unfold byte_of, bN.
  destruct (Byte.of_N (n mod 256)) eqn:E.
  - now apply Byte.to_of_N.
  - apply Byte.of_N_None_iff in E. pose proof (N.mod_upper_bound n 256). lia.
Qed.

(* ---- be / enc ---- *)
Lemma be_app_gen (l : bytes) : forall acc,
  fold_left (fun a b => a * 256 + bN b) l acc = acc * 256 ^ N.of_nat (length l) + be l.
Proof.
  unfold be. induction l as [|b l IH]; intro acc; cbn [fold_left length].
  - change (N.of_nat 0) with 0. rewrite N.pow_0_r. lia.
  - rewrite IH. rewrite (IH (0 * 256 + bN b)).
    rewrite Nat2N.inj_succ, N.pow_succ_r'. lia.
Qed.

Lemma be_nil : be [] = 0.
Proof. reflexivity. Qed.

Lemma be_cons (b : byte) (l : bytes) : be (b :: l) = bN b * 256 ^ N.of_nat (length l) + be l.
Proof. unfold be at 1. cbn [fold_left]. rewrite be_app_gen. lia. Qed.

Lemma be_app (a b : bytes) : be (a ++ b) = be a * 256 ^ N.of_nat (length b) + be b.
Proof. unfold be at 1. rewrite fold_left_app. fold (be a). apply be_app_gen. Qed.

Lemma be_snoc (a : bytes) (b : byte) : be (a ++ [b]) = be a * 256 + bN b.
Proof.
  rewrite be_app. cbn [length]. change (N.of_nat 1) with 1. rewrite N.pow_1_r.
  unfold be at 2. cbn [fold_left]. lia.
Qed.

Lemma be_bound (l : bytes) : be l < 256 ^ N.of_nat (length l).
Proof.
  induction l as [|b l IH] using rev_ind.
  - cbn. lia.
  - rewrite be_snoc, app_length. cbn [length]. rewrite Nat.add_1_r, Nat2N.inj_succ, N.pow_succ_r'.
    pose proof (bN_bound b). lia.
Qed.

Lemma enc_length (w : nat) : forall n, length (enc w n) = w.
Proof. induction w as [|w IH]; intro n; cbn [enc]; [reflexivity|]. rewrite app_length, IH. cbn. lia. Qed.

Lemma be_enc (w : nat) : forall n, be (enc w n) = n mod 256 ^ N.of_nat w.
Proof.
  induction w as [|w IH]; intro n; cbn [enc].
  - change (N.of_nat 0) with 0. rewrite N.pow_0_r, N.mod_1_r. reflexivity.
  - rewrite be_snoc, IH, bN_byte_of, Nat2N.inj_succ, N.pow_succ_r'.
    assert (H : 256 ^ N.of_nat w <> 0) by (apply N.pow_nonzero; lia).
    rewrite N.mod_mul_r by lia.
    generalize ((n / 256) mod 256 ^ N.of_nat w). generalize (n mod 256). intros. lia.
Qed.

Lemma enc_be (l : bytes) : enc (length l) (be l) = l.
Proof.
  induction l as [|b l IH] using rev_ind; [reflexivity|].
  rewrite app_length. cbn [length]. rewrite Nat.add_1_r. cbn [enc].
  rewrite be_snoc.
  replace ((be l * 256 + bN b) / 256) with (be l) by (pose proof (bN_bound b); lia).
  rewrite IH. f_equal. f_equal.
  unfold byte_of. replace ((be l * 256 + bN b) mod 256) with (bN b) by (pose proof (bN_bound b); lia).
  unfold bN. now rewrite Byte.of_to_N.
Qed.

Lemma be_enc_small (w : nat) (n : N) : n < 256 ^ N.of_nat w -> be (enc w n) = n.
Proof. intro H. rewrite be_enc. now apply N.mod_small. Qed.

Lemma be_inj (a b : bytes) : length a = length b -> be a = be b -> a = b.
Proof. intros HL HB. rewrite <- (enc_be a), <- (enc_be b), HL, HB. reflexivity. Qed.

(* ---- take ---- *)
Lemma take_spec (n : nat) : forall l a r, take n l = Some (a, r) -> l = a ++ r /\ length a = n.
Proof.
  induction n as [|n IH]; intros l a r H; cbn [take] in H.
  - inversion H; subst. split; reflexivity.
  - destruct l as [|b l]; [discriminate|].
    destruct (take n l) as [[a' r']|] eqn:E; [|discriminate].
    inversion H; subst. destruct (IH _ _ _ E) as [-> <-]. split; reflexivity.
Qed.

Lemma take_app (a r : bytes) : take (length a) (a ++ r) = Some (a, r).
Proof. induction a as [|b a IH]; cbn [take length app]; [reflexivity|]. now rewrite IH. Qed.

Lemma take_none (n : nat) : forall l, take n l = None <-> (length l < n)%nat.
Proof.
  induction n as [|n IH]; intro l; cbn [take].
  - split; [discriminate|lia].
  - destruct l as [|b l]; cbn [length].
    + split; [lia|reflexivity].
    + destruct (take n l) as [[a r]|] eqn:E.
      * split; [discriminate|]. intro H. assert (HN : take n l = None) by (apply IH; lia). congruence.
      * split; [|reflexivity]. intros _. apply IH in E. lia.
Qed.

Lemma take_some (n : nat) (l : bytes) : (n <= length l)%nat -> take n l = Some (firstn n l, skipn n l).
Proof.
  intro H. rewrite <- (firstn_skipn n l) at 1.
  replace n with (length (firstn n l)) at 1 by (rewrite firstn_length; lia).
  apply take_app.
Qed.

Lemma take_frame (n : nat) (l a r z : bytes) : take n l = Some (a, r) -> take n (l ++ z) = Some (a, r ++ z).
Proof.
  intro H. apply take_spec in H. destruct H as [-> <-]. rewrite <- app_assoc. apply take_app.
Qed.

Lemma skipn_skipn {A} (a : nat) : forall (b : nat) (l : list A), skipn a (skipn b l) = skipn (b + a) l.
Proof.
  intros b. induction b as [|b IH]; intro l; [reflexivity|].
  destruct l as [|x l]; cbn [skipn Nat.add]; [now rewrite skipn_nil|apply IH].
Qed.

(* ---- shorter ---- *)
Lemma shorter_spec {A B} (a : list A) : forall (b : list B), shorter a b = (length a <? length b)%nat.
Proof.
  induction a as [|x a IH]; intros [|y b]; cbn [shorter length]; try reflexivity.
  rewrite IH. reflexivity.
Qed.

(* ---- association lists ---- *)
Lemma lookup_insert_eq {V} (k : N) (v : V) (m : list (N * V)) : lookup k (insert k v m) = Some v.
Proof.
  induction m as [|[k' v'] m IH]; cbn [insert lookup].
  - now rewrite N.eqb_refl.
  - destruct (k <? k') eqn:E1; cbn [lookup].
    + now rewrite N.eqb_refl.
    + destruct (k =? k') eqn:E2; cbn [lookup].
      * now rewrite N.eqb_refl.
      * rewrite E2. exact IH.
Qed.

Lemma lookup_insert_neq {V} (k k0 : N) (v : V) (m : list (N * V)) :
  k0 <> k -> lookup k0 (insert k v m) = lookup k0 m.
Proof.
  intro H. induction m as [|[k' v'] m IH]; cbn [insert lookup].
  - destruct (k0 =? k) eqn:E; [apply N.eqb_eq in E; contradiction|reflexivity].
  - destruct (k <? k') eqn:E1; cbn [lookup].
    + destruct (k0 =? k) eqn:E; [apply N.eqb_eq in E; contradiction|reflexivity].
    + destruct (k =? k') eqn:E2; cbn [lookup].
      * apply N.eqb_eq in E2. subst k'.
        destruct (k0 =? k) eqn:E; [apply N.eqb_eq in E; contradiction|reflexivity].
      * destruct (k0 =? k'); [reflexivity|exact IH].
Qed.

Lemma lookup_insert_some {V} (k k0 : N) (v : V) (m : list (N * V)) :
  lookup k0 m <> None -> lookup k0 (insert k v m) <> None.
Proof.
  intro H. destruct (N.eq_dec k0 k) as [->|Hne].
  - rewrite lookup_insert_eq. discriminate.
  - now rewrite lookup_insert_neq.
Qed.

(* ---- remove / remove_keys ---- *)
Lemma lookup_remove_eq {V} (k : N) (m : list (N * V)) : lookup k (remove k m) = None.
Proof.
  induction m as [|[k' v] m IH]; [reflexivity|]. cbn [remove].
  destruct (N.eqb_spec k k') as [->|Hne]; [exact IH|]. cbn [lookup].
  destruct (N.eqb_spec k k'); [contradiction|exact IH].
Qed.

Lemma lookup_remove_neq {V} (k k0 : N) (m : list (N * V)) : k0 <> k -> lookup k0 (remove k m) = lookup k0 m.
Proof.
  intro Hne. induction m as [|[k' v] m IH]; [reflexivity|]. cbn [remove lookup].
  destruct (N.eqb_spec k k') as [->|Hk].
  - destruct (N.eqb_spec k0 k'); [contradiction|exact IH].
  - cbn [lookup]. destruct (N.eqb_spec k0 k'); [reflexivity|exact IH].
Qed.

Lemma lookup_remove_some {V} (k k0 : N) (m : list (N * V)) v : lookup k0 (remove k m) = Some v -> lookup k0 m = Some v.
Proof.
  destruct (N.eq_dec k0 k) as [->|Hne]; [rewrite lookup_remove_eq; discriminate|].
  now rewrite lookup_remove_neq.
Qed.

Lemma lookup_remove_keys_out {V} (ks : list N) : forall (m : list (N * V)) k0,
  ~ In k0 ks -> lookup k0 (remove_keys ks m) = lookup k0 m.
Proof.
  unfold remove_keys. induction ks as [|k ks IH]; intros m k0 H; [reflexivity|]. cbn [fold_left].
  rewrite IH by (intro Hi; apply H; now right). apply lookup_remove_neq. intro E. apply H. now left.
Qed.

Lemma lookup_remove_keys_in {V} (ks : list N) : forall (m : list (N * V)) k0,
  In k0 ks -> lookup k0 (remove_keys ks m) = None.
Proof.
  unfold remove_keys. induction ks as [|k ks IH]; intros m k0 H; [contradiction|]. cbn [fold_left].
  destruct (in_dec N.eq_dec k0 ks) as [Hi|Hn]; [now apply IH|].
  destruct H as [->|H]; [|contradiction].
  fold (remove_keys ks (remove k0 m)). rewrite lookup_remove_keys_out by exact Hn. apply lookup_remove_eq.
Qed.

Lemma lookup_remove_keys_some {V} (ks : list N) (m : list (N * V)) k0 v :
  lookup k0 (remove_keys ks m) = Some v -> lookup k0 m = Some v /\ ~ In k0 ks.
Proof.
  intro H. destruct (in_dec N.eq_dec k0 ks) as [Hi|Hn].
  - rewrite lookup_remove_keys_in in H by exact Hi. discriminate.
  - rewrite lookup_remove_keys_out in H by exact Hn. auto.
Qed.
