(* Proofs/C08Proofs.v — V5/V7 re-export round trip, both directions. *)
From NF Require Import Base Nom Types Layout Value V9 Ipfix Parser.
From NF Require Import BaseFacts NomFacts LayoutFacts FixedFacts ParserFacts.
From Coq Require Import Lia.
Open Scope list_scope.

(* side conditions on the generated layouts and serializer orders (decided by computation) *)
Lemma v5_shape : header_shape v5_header_layout 5 2 = true. Proof. vm_compute. reflexivity. Qed.
Lemma v7_shape : header_shape v7_header_layout 7 2 = true. Proof. vm_compute. reflexivity. Qed.
Lemma v5_export_ok : export_ok v5_header_layout v5_record_layout v5_header_export v5_record_export = true.
Proof. vm_compute. reflexivity. Qed.
Lemma v7_export_ok : export_ok v7_header_layout v7_record_layout v7_header_export v7_record_export = true.
Proof. vm_compute. reflexivity. Qed.

(* a well-formed structure: field values fit their types, version and protocol_type are what
   the parser would derive, count equals the number of records *)
Definition wf_fixed (HL RL : list fld) (cnt : string) (p : fixed_packet) : Prop :=
  wf_vals HL [] (fx_header p) /\ Forall (wf_vals RL []) (fx_records p)
  /\ length (fx_records p) = N.to_nat (get_field HL (fx_header p) cnt).
Definition wf_v5 := wf_fixed v5_header_layout v5_record_layout v5_count_field.
Definition wf_v7 := wf_fixed v7_header_layout v7_record_layout v7_count_field.

Lemma v5_parse_export puf allow s x p rest s' :
  parse_one puf allow s x = StOk (PV5 p) rest s' -> x = export_v5 p ++ rest /\ wf_v5 p /\ s' = s.
Proof.
  intro H. apply parse_one_ok_inv in H. destruct H as [v [Hv [Ha Hs]]]. inversion Hs; subst.
  match goal with E : parse_v5 _ = Ok _ _ |- _ => apply parse_fixed_ok in E; destruct E as [Hb [Hh [Hr Hc]]] end.
  split; [|split; [repeat split; assumption|reflexivity]].
  unfold export_v5. rewrite (export_fixed_spec _ _ _ _ 5 2 p v5_shape v5_export_ok Hh Hr).
  rewrite <- !app_assoc. rewrite <- Hb. rewrite <- Hv. symmetry. apply firstn_skipn.
Qed.

Lemma v7_parse_export puf allow s x p rest s' :
  parse_one puf allow s x = StOk (PV7 p) rest s' -> x = export_v7 p ++ rest /\ wf_v7 p /\ s' = s.
Proof.
  intro H. apply parse_one_ok_inv in H. destruct H as [v [Hv [Ha Hs]]]. inversion Hs; subst.
  match goal with E : parse_v7 _ = Ok _ _ |- _ => apply parse_fixed_ok in E; destruct E as [Hb [Hh [Hr Hc]]] end.
  split; [|split; [repeat split; assumption|reflexivity]].
  unfold export_v7. rewrite (export_fixed_spec _ _ _ _ 7 2 p v7_shape v7_export_ok Hh Hr).
  rewrite <- !app_assoc. rewrite <- Hb. rewrite <- Hv. symmetry. apply firstn_skipn.
Qed.

Lemma firstn_enc_app w v (r : bytes) : firstn w (enc w v ++ r) = enc w v.
Proof. rewrite firstn_app, enc_length, Nat.sub_diag, app_nil_r. rewrite <- (enc_length w v) at 1. apply firstn_all. Qed.
Lemma skipn_enc_app w v (r : bytes) : skipn w (enc w v ++ r) = r.
Proof. rewrite <- (enc_length w v) at 1. now rewrite skipn_app, skipn_all, enc_length, Nat.sub_diag. Qed.

Lemma v5_export_parse puf allow s p rest :
  allow 5 = true -> wf_v5 p -> parse_one puf allow s (export_v5 p ++ rest) = StOk (PV5 p) rest s.
Proof.
  intros Ha [Hh [Hr Hc]]. unfold export_v5.
  rewrite (export_fixed_spec _ _ _ _ 5 2 p v5_shape v5_export_ok Hh Hr). rewrite <- !app_assoc.
  rewrite parse_one_v5; [|exact Ha|apply firstn_enc_app]. rewrite skipn_enc_app.
  unfold parse_v5. now rewrite parse_fixed_enc.
Qed.

Lemma v7_export_parse puf allow s p rest :
  allow 7 = true -> wf_v7 p -> parse_one puf allow s (export_v7 p ++ rest) = StOk (PV7 p) rest s.
Proof.
  intros Ha [Hh [Hr Hc]]. unfold export_v7.
  rewrite (export_fixed_spec _ _ _ _ 7 2 p v7_shape v7_export_ok Hh Hr). rewrite <- !app_assoc.
  rewrite parse_one_v7; [|exact Ha|apply firstn_enc_app]. rewrite skipn_enc_app.
  unfold parse_v7. now rewrite parse_fixed_enc.
Qed.

(* non-vacuity: a concrete non-trivial structure meets wf_v5, and round-trips by computation *)
Definition sample_v5 : fixed_packet :=
  {| fx_header := [5; 2; 1000; 1700000000; 999; 42; 1; 2; 300];
     fx_records := [ [167772161; 167772162; 167772163; 1; 2; 10; 1500; 100; 200; 443; 51000; 0; 24; 6; 6; 0; 65000; 65001; 24; 16; 0];
                     [3232235777; 3232235778; 0; 3; 4; 1; 64; 300; 300; 53; 5353; 0; 0; 17; 17; 8; 1; 2; 0; 0; 0] ] |}%N.
Example sample_v5_wf : wf_v5 sample_v5.
Proof. unfold wf_v5, wf_fixed. split; [|split]; [vm_compute; intuition (try reflexivity)| |reflexivity].
  repeat constructor; vm_compute; intuition (try reflexivity). Qed.
