(* Proofs/ExportFacts.v — re-export of parser output never panics (C01): every decoded value
   satisfies fval_ok, and to_be_bytes of an fval_ok value does not reach the range assertion. *)
From NF Require Import Base Nom Types Layout Value V9 Ipfix Parser Export.
From NF Require Import BaseFacts NomFacts LayoutFacts ValueFacts VarFacts ParserFacts RunFacts TotalFacts.
From Coq Require Import Lia.
Open Scope string_scope.
Open Scope list_scope.

Definition rec_ok (rec : list (N * fval)) : Prop := Forall (fun tv => fval_ok (snd tv)) rec.
Definition v9_body_ok (b : v9_body) : Prop :=
  match b with V9Data recs _ => Forall rec_ok recs | _ => True end.
Definition v9_packet_ok (p : v9_packet) : Prop := Forall (fun f => v9_body_ok (fs_body f)) (v9_sets p).
Definition ix_body_ok (b : ix_body) : Prop :=
  match b with IxData ents _ | IxOData ents _ => ientries_ok ents | _ => True end.
Definition ix_packet_ok (p : ix_packet) : Prop := Forall (fun f => ix_body_ok (is_body f)) (ix_sets p).
Definition elem_ok (e : elem) : Prop :=
  match e with PV9 p => v9_packet_ok p | PIx p => ix_packet_ok p | _ => True end.

(* ---- decoding yields ok values ---- *)
Lemma parse_record_ok puf fs : forall i rec r, parse_record puf fs i = Ok rec r -> rec_ok rec.
Proof.
  induction fs as [|f fs IH]; intros i rec r H; cbn [parse_record] in H.
  - inversion H; constructor.
  - destruct (from_field_type _ _ _ i) as [v r1|e] eqn:E1; [|discriminate].
    destruct (parse_record puf fs r1) as [l r2|e] eqn:E2; [|discriminate]. inversion H; subst.
    apply from_field_type_ok in E1. destruct E1 as [_ [_ [_ Hok]]].
    constructor; [exact Hok|]. eapply IH; eauto.
Qed.

Lemma parse_records_ok puf n fs : forall i, Forall rec_ok (fst (parse_records puf n fs i)).
Proof.
  induction n as [|n IH]; intro i; cbn [parse_records]; [constructor|].
  destruct (parse_record puf fs i) as [rec r|e] eqn:E; [|constructor].
  specialize (IH r). destruct (parse_records puf n fs r) as [l r']. cbn [fst] in *.
  constructor; [eapply parse_record_ok; eauto|exact IH].
Qed.

Lemma parse_body_ok puf id s i b r s' : parse_body puf id s i = (Ok b r, s') -> v9_body_ok b.
Proof.
  unfold parse_body. destruct (id =? v9_template_id)%N.
  { destruct (parse_templates i) as [[ts pad] r0|e]; intro H; inversion H; subst; exact I. }
  destruct (id =? v9_options_template_id)%N.
  { destruct (parse_otemplates i) as [[ts pad] r0|e]; intro H; inversion H; subst; exact I. }
  destruct (lookup id (v9_o s)) as [ot|].
  { unfold parse_odata, bind. destruct (scope_loop _ i) as [sc r1|e]; [|intro H; inversion H].
    destruct (option_loop _ r1) as [op r2|e]; intro H; inversion H; subst. exact I. }
  destruct (lookup id (v9_t s)) as [t|]; intro H; inversion H; subst.
  unfold parse_data. pose proof (parse_records_ok puf (N.to_nat (record_count (lenN i) (total_size t))) (t_fields t) i) as Hr.
  destruct (parse_records _ _ _ i) as [recs r']. exact Hr.
Qed.

Lemma parse_flowsets_ok puf n : forall s i l r s',
  parse_flowsets puf n s i = (Ok l r, s') -> Forall (fun f => v9_body_ok (fs_body f)) l.
Proof.
  induction n as [|n IH]; intros s i l r s' H; cbn [parse_flowsets] in H.
  - inversion H; constructor.
  - destruct (is_nil i); [inversion H; constructor|].
    destruct (parse_flowset puf s i) as [[f r1|e] s1] eqn:E1; [|inversion H].
    destruct (parse_flowsets puf n s1 r1) as [[l' r2|e] s2] eqn:E2; inversion H; subst.
    constructor; [|eapply IH; eauto].
    apply parse_flowset_ok in E1. destruct E1 as [body [r0 [_ [_ Hb]]]]. eapply parse_body_ok; eauto.
Qed.

Lemma parse_v9_ok puf s i p r s' : parse_v9 puf s i = (Ok p r, s') -> v9_packet_ok p.
Proof.
  unfold parse_v9. destruct (parse_layout v9_header_layout i) as [h r1|e]; [|intro H; inversion H].
  destruct (parse_flowsets _ _ s r1) as [[l r2|e] s2] eqn:E; intro H; inversion H; subst.
  unfold v9_packet_ok. cbn [v9_sets]. eapply parse_flowsets_ok; eauto.
Qed.

Lemma parse_idata_ok puf fs i ents pad r : parse_idata puf fs i = Ok (ents, pad) r -> ientries_ok ents.
Proof.
  unfold parse_idata, bind. destruct (is_nil fs); [discriminate|].
  destruct (parse_irecords _ puf fs i) as [e r1|e] eqn:E; [|discriminate].
  intro H. inversion H; subst. eapply parse_irecords_ok; eauto.
Qed.

Lemma parse_ibody_ok puf id s i b r s' : parse_ibody puf id s i = (Ok b r, s') -> ix_body_ok b.
Proof.
  unfold parse_ibody.
  destruct ((id <? ipfix_set_min_range)%N && negb (id =? ipfix_options_template_id)%N).
  { destruct (parse_itemplate i) as [t r0|e]; [|intro H; inversion H].
    destruct (fields_valid _); intro H; inversion H; subst; exact I. }
  destruct (id =? ipfix_options_template_id)%N.
  { destruct (parse_iotemplate i) as [t r0|e]; [|intro H; inversion H].
    destruct (fields_valid _); intro H; inversion H; subst; exact I. }
  destruct (lookup id (ix_t s)) as [t|].
  { destruct (parse_idata puf (it_fields t) i) as [[ents pad] r0|e] eqn:E; intro H; inversion H; subst.
    eapply parse_idata_ok; eauto. }
  destruct (lookup id (ix_o s)) as [t|]; [|intro H; inversion H].
  destruct (parse_idata puf (io_fields t) i) as [[ents pad] r0|e] eqn:E; intro H; inversion H; subst.
  eapply parse_idata_ok; eauto.
Qed.

Lemma parse_iset_ok puf s i f r s' : parse_iset puf s i = (Ok f r, s') -> ix_body_ok (is_body f).
Proof.
  unfold parse_iset. destruct (u_s 2 i) as [id r1|e]; [|intro H; inversion H].
  destruct (u_s 2 r1) as [len r2|e]; [|intro H; inversion H].
  destruct (map_res_take_st _ _ s r2) as [[b r3|e] s3] eqn:E; intro H; inversion H; subst.
  apply map_res_take_st_ok in E. destruct E as [body [r0 [_ [_ Hb]]]]. cbn [is_body].
  eapply parse_ibody_ok; eauto.
Qed.

Lemma many0_st_aux_all {St A} (p : sparser St A) (Q : A -> Prop) :
  (forall s i a r s', p s i = (Ok a r, s') -> Q a) ->
  forall fuel s i l r s', many0_st_aux fuel p s i = (Ok l r, s') -> Forall Q l.
Proof.
  intro Hp. induction fuel as [|fuel IH]; intros s i l r s' H; cbn [many0_st_aux] in H; [inversion H|].
  destruct (p s i) as [[a r1|e] s1] eqn:E.
  - destruct (shorter r1 i); [|inversion H].
    destruct (many0_st_aux fuel p s1 r1) as [[l' r2|e] s2] eqn:E2; inversion H; subst.
    constructor; [eapply Hp; eauto|eapply IH; eauto].
  - destruct e; inversion H; subst; constructor.
Qed.

Lemma parse_ipfix_ok puf s i p r s' : parse_ipfix puf s i = (Ok p r, s') -> ix_packet_ok p.
Proof.
  unfold parse_ipfix. destruct (parse_layout ipfix_header_layout i) as [h r1|e]; [|intro H; inversion H].
  destruct (map_res_take_st _ _ s r1) as [[sets r2|e] s2] eqn:E; intro H; inversion H; subst.
  apply map_res_take_st_ok in E. destruct E as [body [r0 [_ [_ Hb]]]].
  unfold ix_packet_ok. cbn [ix_sets]. unfold many0_st in Hb.
  eapply (many0_st_aux_all (complete_st (parse_iset puf)) (fun f => ix_body_ok (is_body f))); [|exact Hb].
  intros s0 i0 a r3 s3 Hc. unfold complete_st in Hc.
  destruct (parse_iset puf s0 i0) as [[a' r'|[]] s''] eqn:Ei; inversion Hc; subst.
  eapply parse_iset_ok; eauto.
Qed.

Lemma parse_one_elem_ok puf allow s x e rest s' : parse_one puf allow s x = StOk e rest s' -> elem_ok e.
Proof.
  intro H. apply parse_one_ok_inv in H. destruct H as [v [_ [_ Hs]]].
  destruct Hs; cbn [elem_ok]; auto; [eapply parse_v9_ok|eapply parse_ipfix_ok]; eauto.
Qed.

Lemma run_elems_ok puf allow : forall fuel s x r,
  run fuel puf allow s x = Some r -> Forall (fun es => elem_ok (fst es)) r.
Proof.
  induction fuel as [|fuel IH]; intros s x r H.
  - destruct x; [|discriminate]. inversion H; constructor.
  - destruct x as [|b x']; [inversion H; constructor|]. cbn [run] in H.
    destruct (parse_one puf allow s (b :: x')) as [|e s'|e rest s'] eqn:E.
    + inversion H; constructor.
    + inversion H; subst. apply parse_one_err_inv in E. destruct E as [err ->]. repeat constructor.
    + pose proof (parse_one_elem_ok _ _ _ _ _ _ _ E) as Hok.
      destruct (is_nil rest); [inversion H; subst; repeat constructor; exact Hok|].
      destruct (run fuel puf allow s' rest) as [r'|] eqn:Er; [|discriminate]. inversion H; subst.
      constructor; [exact Hok|]. eapply IH; eauto.
Qed.

(* ---- to_be_bytes of ok structures ---- *)
Lemma xconcat_no_panic l : Forall (fun x => x <> XPanic) l -> xconcat l <> XPanic.
Proof.
  induction 1 as [|x l Hx Hl IH]; cbn [xconcat]; [discriminate|].
  destruct x; [|discriminate|contradiction]. destruct (xconcat l); [discriminate|discriminate|contradiction].
Qed.

Lemma xconcat_map_no_panic {A} (f : A -> xres) l : Forall (fun a => f a <> XPanic) l -> xconcat_map f l <> XPanic.
Proof.
  induction 1 as [|a l Ha Hl IH]; cbn [xconcat_map]; [discriminate|].
  unfold xseq, xpre. destruct (f a); [|discriminate|contradiction].
  destruct (xconcat_map f l); [discriminate|discriminate|contradiction].
Qed.

Lemma export_v9_no_panic p : v9_packet_ok p -> export_v9 p <> XPanic.
Proof.
  intro H. unfold export_v9, xpre.
  assert (Hs : xconcat_map export_v9_set (v9_sets p) <> XPanic).
  { apply xconcat_map_no_panic. eapply Forall_impl; [|exact H]. intros f Hf.
    unfold export_v9_set, xpre.
    assert (Hb : export_v9_body (fs_body f) <> XPanic).
    { cbn beta in Hf. revert Hf. destruct (fs_body f); cbn [export_v9_body v9_body_ok]; intro Hf; try discriminate. unfold xapp.
      assert (Hc : xconcat (map (fun rec => xconcat (map (fun tv => fval_to_be (snd tv)) rec)) recs) <> XPanic).
      { apply xconcat_no_panic. rewrite Forall_map. eapply Forall_impl; [|exact Hf]. intros rec Hr.
        apply xconcat_no_panic. rewrite Forall_map. eapply Forall_impl; [|exact Hr].
        intros tv Htv. now apply fval_to_be_ok. }
      destruct (xconcat _); [discriminate|discriminate|contradiction]. }
    destruct (export_v9_body (fs_body f)); [discriminate|discriminate|contradiction]. }
  destruct (xconcat_map _ _); [discriminate|discriminate|contradiction].
Qed.

Lemma export_ipfix_no_panic p : ix_packet_ok p -> export_ipfix p <> XPanic.
Proof.
  intro H. unfold export_ipfix, xpre.
  assert (Hs : xconcat_map export_ix_set (ix_sets p) <> XPanic).
  { apply xconcat_map_no_panic. eapply Forall_impl; [|exact H]. intros f Hf.
    unfold export_ix_set, xpre.
    assert (Hb : export_ix_body (is_body f) <> XPanic).
    { assert (He : forall ents, ientries_ok ents -> export_ientries ents <> XPanic).
      { intros ents Hok. unfold export_ientries. apply xconcat_no_panic. rewrite Forall_map.
        eapply Forall_impl; [|exact Hok]. intros e He. now apply fval_to_be_ok. }
      cbn beta in Hf. revert Hf. destruct (is_body f); cbn [export_ix_body ix_body_ok]; intro Hf; try discriminate; unfold xapp;
        specialize (He _ Hf); destruct (export_ientries fields); try discriminate; contradiction. }
    destruct (export_ix_body (is_body f)); [discriminate|discriminate|contradiction]. }
  destruct (xconcat_map _ _); [discriminate|discriminate|contradiction].
Qed.

Lemma export_elem_no_panic e : elem_ok e -> export_elem e <> Some XPanic.
Proof.
  destruct e; cbn [export_elem elem_ok]; try discriminate.
  - intros H E. inversion E as [E']. now apply export_v9_no_panic in E'.
  - intros H E. inversion E as [E']. now apply export_ipfix_no_panic in E'.
Qed.
