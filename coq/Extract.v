(* Extraction of the executable model for the correspondence check.  ExtrOcamlBasic only:
   N, positive, nat, byte, string stay the extracted datatypes. *)
From Coq Require Extraction ExtrOcamlBasic.
From NF Require Import Obs.
Extraction Language OCaml.
Extraction "model.ml"
  obs_parse obs_flows obs_e empty_state default_allowed byte_of bN
  tbl_proto tbl_proto_name tbl_v9 tbl_v9_name tbl_ipfix tbl_ipfix_name tbl_scope tbl_scope_name
  N.of_nat N.to_nat N.succ N.double N.add.
