(* Model/Base.v — bytes, big-endian numbers, structural take.  Definitions only; lemmas are
   in Proofs/BaseFacts.v so that the model still runs when a proof breaks. *)
From Coq Require Export List NArith ZArith Bool.
From Coq Require Export Strings.Byte Strings.String.
Export ListNotations.
Open Scope N_scope.
(* Strings.String exports its own length; everything here is about lists *)
Notation length := List.length (only parsing).

Definition bytes := list byte.

(* total N -> byte, reducing mod 256 *)
Definition byte_of (n : N) : byte :=
  match Byte.of_N (n mod 256) with Some b => b | None => x00 end.

Definition bN (b : byte) : N := Byte.to_N b.

(* big-endian value of a byte string *)
Definition be (l : bytes) : N := fold_left (fun acc b => acc * 256 + bN b) l 0.

(* big-endian encoding of n (mod 256^w) on w bytes *)
Fixpoint enc (w : nat) (n : N) : bytes :=
  match w with
  | O => []
  | S w' => enc w' (n / 256) ++ [byte_of n]
  end.

(* structural take: no call to length *)
Fixpoint take (n : nat) (l : bytes) : option (bytes * bytes) :=
  match n with
  | O => Some ([], l)
  | S n' => match l with
            | [] => None
            | b :: l' => match take n' l' with
                         | Some (a, r) => Some (b :: a, r)
                         | None => None
                         end
            end
  end.

(* how many bytes are missing for a take of n (used only for the Incomplete message) *)
Definition is_nil {A} (l : list A) : bool := match l with [] => true | _ => false end.

(* lockstep comparison: true iff length a < length b, without computing either length *)
Fixpoint shorter {A B} (a : list A) (b : list B) : bool :=
  match a, b with
  | _, [] => false
  | [], _ :: _ => true
  | _ :: a', _ :: b' => shorter a' b'
  end.

(* length as N, for the few places where the Rust code calls len() *)
Definition lenN {A} (l : list A) : N := N.of_nat (List.length l).

(* association lists keyed by N, kept sorted and duplicate-free by insert *)
Fixpoint lookup {V} (k : N) (m : list (N * V)) : option V :=
  match m with
  | [] => None
  | (k', v) :: m' => if k =? k' then Some v else lookup k m'
  end.

Fixpoint insert {V} (k : N) (v : V) (m : list (N * V)) : list (N * V) :=
  match m with
  | [] => [(k, v)]
  | (k', v') :: m' =>
      if k <? k' then (k, v) :: m
      else if k =? k' then (k, v) :: m'
      else (k', v') :: insert k v m'
  end.

(* drop every entry of key k / of the keys ks *)
Fixpoint remove {V} (k : N) (m : list (N * V)) : list (N * V) :=
  match m with
  | [] => []
  | (k', v) :: m' => if k =? k' then remove k m' else (k', v) :: remove k m'
  end.
Definition remove_keys {V} (ks : list N) (m : list (N * V)) : list (N * V) :=
  fold_left (fun m k => remove k m) ks m.

Definition lookup_def {V} (k : N) (m : list (N * V)) (d : V) : V :=
  match lookup k m with Some v => v | None => d end.

Definition sat_add16 (a b : N) : N := N.min 65535 (a + b).

(* two's complement readings *)
Definition to_signed (bits : N) (n : N) : Z :=
  if n <? 2 ^ (bits - 1) then Z.of_N n else (Z.of_N n - Z.of_N (2 ^ bits))%Z.
Definition of_signed (bits : N) (z : Z) : N := Z.to_N (z mod Z.of_N (2 ^ bits)).
