(* Model/Obs.v — entry points the OCaml driver calls; each mirrors one op of the Rust harness. *)
From NF Require Export Json.
Open Scope string_scope.
Open Scope list_scope.
Open Scope N_scope.

(* op B: parse_bytes, everything observed *)
Definition obs_parse (puf : bool) (allowed : list N) (s : pstate) (x : bytes) : option (bytes * pstate) :=
  match parse_bytes puf (allow_list allowed) s x with
  | None => None
  | Some r => let s' := final_state s r in Some (print_json (obs_json r s'), s')
  end.

(* op F: parse_bytes_as_netflow_common_flowsets *)
Definition obs_flows (puf : bool) (allowed : list N) (s : pstate) (x : bytes) : option (bytes * pstate) :=
  match parse_bytes puf (allow_list allowed) s x with
  | None => None
  | Some r =>
      Some (print_json (JObj [("F", JArr (map json_cflow (common_flowsets (map fst r))))]),
            final_state s r)
  end.

(* ops E5 / E7: build the structure from its wire fields (derived fields computed the way the
   parser computes them), export it, parse the export with a default parser *)
Fixpoint build_struct (L : list fld) (env : list (string * N)) (wire : list N) : list N :=
  match L with
  | [] => []
  | f :: L' =>
      match f_kind f with
      | KConst n => n :: build_struct L' ((f_name f, n) :: env) wire
      | KProtoOf src => let v := proto_from_u8 (env_get src env) in v :: build_struct L' ((f_name f, v) :: env) wire
      | _ => match wire with
             | v :: wire' => v :: build_struct L' ((f_name f, v) :: env) wire'
             | [] => 0 :: build_struct L' ((f_name f, 0) :: env) []
             end
      end
  end.

Definition obs_e (ver : N) (h : list N) (recs : list (list N)) : option bytes :=
  let '(HL, RL, mk, ex) :=
    if ver =? 5 then (v5_header_layout, v5_record_layout, PV5, export_v5)
    else (v7_header_layout, v7_record_layout, PV7, export_v7) in
  let p := {| fx_header := build_struct HL [] h; fx_records := map (build_struct RL []) recs |} in
  let b := ex p in
  match parse_bytes true (allow_list default_allowed) empty_state b with
  | None => None
  | Some r =>
      Some (print_json (JObj [("E", jn ver); ("bytes", JText (hex_of b));
                              ("orig", JArr [json_elem (mk p)]);
                              ("back", JArr (map (fun e => json_elem (fst e)) r))]))
  end.

(* exhaustive table dumps, compared with the compiled crate's (tools: `tables`) *)
Definition tbl_proto (b : N) : N * N * option N := (proto_from_u8 b, proto_to_u8 (proto_from_u8 b), Some (proto_decode b)).
Definition tbl_proto_name (d : N) : bytes := str_bytes (variant_name proto_variants d).
Definition tbl_v9 (n : N) : N * dtype := (v9_from_u16 n, v9_dtype (v9_from_u16 n)).
Definition tbl_v9_name (d : N) : bytes := str_bytes (variant_name v9_variants d).
Definition tbl_ipfix (n : N) : N * dtype := (ipfix_from_u16 n, ipfix_dtype (ipfix_from_u16 n)).
Definition tbl_ipfix_name (d : N) : bytes := str_bytes (variant_name ipfix_variants d).
Definition tbl_scope (n : N) : N := scope_from_u16 n.
Definition tbl_scope_name (d : N) : bytes := str_bytes (variant_name scope_variants d).
