(* Model/Export.v — the hand-written to_be_bytes serializers of v9.rs and ipfix.rs (V5/V7 are in
   Layout.v).  Definitions only. *)
From NF Require Export Parser.
Open Scope string_scope.
Open Scope list_scope.
Open Scope N_scope.

(* `?` on each value in order: the first value that fails decides *)
Fixpoint xconcat (l : list xres) : xres :=
  match l with
  | [] => XOk []
  | XOk b :: l' => match xconcat l' with XOk b' => XOk (b ++ b') | e => e end
  | e :: _ => e
  end.

Definition xapp (a : xres) (b : bytes) : xres :=
  match a with XOk x => XOk (x ++ b) | e => e end.
Definition xpre (a : bytes) (b : xres) : xres :=
  match b with XOk x => XOk (a ++ x) | e => e end.
Definition xseq (a b : xres) : xres :=
  match a with XOk x => xpre x b | e => e end.

(* ---- V9::to_be_bytes ---- *)
Definition export_tfield (f : tfield) : bytes := enc 2 (tf_num f) ++ enc 2 (tf_len f).
Definition export_sfield (f : sfield) : bytes := enc 2 (sf_num f) ++ enc 2 (sf_len f).
Definition export_template (t : template) : bytes :=
  enc 2 (t_id t) ++ enc 2 (t_count t) ++ flat_map export_tfield (t_fields t).
Definition export_otemplate (t : otemplate) : bytes :=
  enc 2 (ot_id t) ++ enc 2 (ot_scope_len t) ++ enc 2 (ot_opt_len t)
  ++ flat_map export_sfield (ot_scope t) ++ flat_map export_tfield (ot_opts t).

Definition export_v9_body (b : v9_body) : xres :=
  match b with
  | V9Templates ts pad => XOk (flat_map export_template ts ++ pad)
  | V9OTemplates ts pad => XOk (flat_map export_otemplate ts ++ pad)
  | V9Data recs pad =>
      xapp (xconcat (map (fun rec => xconcat (map (fun tv => fval_to_be (snd tv)) rec)) recs)) pad
  | V9OData sc op pad => XOk (flat_map snd sc ++ flat_map snd op ++ pad)
  end.

Definition export_v9_set (f : v9_flowset) : xres :=
  xpre (enc 2 (fs_id f) ++ enc 2 (fs_len f)) (export_v9_body (fs_body f)).

Definition v9_header_export : list string :=
  ["version"; "count"; "sys_up_time"; "unix_secs"; "sequence_number"; "source_id"].

Fixpoint xconcat_map {A} (f : A -> xres) (l : list A) : xres :=
  match l with
  | [] => XOk []
  | a :: l' => xseq (f a) (xconcat_map f l')
  end.

Definition export_v9 (p : v9_packet) : xres :=
  xpre (export_fields v9_header_layout v9_header_export (v9_header p))
       (xconcat_map export_v9_set (v9_sets p)).

(* ---- IPFix::to_be_bytes ---- *)
Definition export_ifield (f : ifield) : bytes :=
  match if_ent f with
  | Some e => enc 2 (if_num f + 32768) ++ enc 2 (if_len f) ++ enc 4 e
  | None => enc 2 (if_num f) ++ enc 2 (if_len f)
  end.

Definition export_ientries (l : list ientry) : xres :=
  xconcat (map (fun e => fval_to_be (snd e)) l).

Definition export_ix_body (b : ix_body) : xres :=
  match b with
  | IxTemplate t =>
      XOk (enc 2 (it_id t) ++ enc 2 (it_count t) ++ flat_map export_ifield (it_fields t) ++ it_pad t)
  | IxOTemplate t =>
      XOk (enc 2 (io_id t) ++ enc 2 (io_count t) ++ enc 2 (io_scope_count t)
           ++ flat_map export_ifield (io_fields t) ++ io_pad t)
  | IxData ents pad => xapp (export_ientries ents) pad
  | IxOData ents pad => xapp (export_ientries ents) pad
  end.

Definition export_ix_set (f : ix_set) : xres :=
  xpre (enc 2 (is_id f) ++ enc 2 (is_len f)) (export_ix_body (is_body f)).

Definition ipfix_header_export : list string :=
  ["version"; "length"; "export_time"; "sequence_number"; "observation_domain_id"].

Definition export_ipfix (p : ix_packet) : xres :=
  xpre (export_fields ipfix_header_layout ipfix_header_export (ix_header p))
       (xconcat_map export_ix_set (ix_sets p)).

(* NetflowPacket re-export as the harness observes it; None for an Error element *)
Definition export_elem (e : elem) : option xres :=
  match e with
  | PV5 p => Some (XOk (export_v5 p))
  | PV7 p => Some (XOk (export_v7 p))
  | PV9 p => Some (export_v9 p)
  | PIx p => Some (export_ipfix p)
  | PErr _ _ => None
  end.
