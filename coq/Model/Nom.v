(* Model/Nom.v — the nom 7.1.3 / nom-derive 0.10.1 pieces the crate uses, with their quirks
   (DESIGN.md Appendix B).  Definitions only. *)
From NF Require Export Base.

(* EIncomplete / EError are nom's Err::Incomplete / Err::Error.  EFuel is not a Rust value: it
   marks exhaustion of the model's explicit recursion fuel and is proved unreachable. *)
Inductive perr := EIncomplete | EError | EFuel.

Inductive res (A : Type) :=
| Ok (a : A) (rest : bytes)
| Err (e : perr).
Arguments Ok {A} a rest.
Arguments Err {A} e.

Definition parser (A : Type) := bytes -> res A.

Definition bind {A B} (r : res A) (k : A -> bytes -> res B) : res B :=
  match r with
  | Ok a rest => k a rest
  | Err e => Err e
  end.

Notation "'let*' ( a , r ) := p 'in' k" := (bind p (fun a r => k))
  (at level 200, a name, r name, p at level 100, k at level 200).

Definition pmap {A B} (f : A -> B) (p : parser A) : parser B :=
  fun i => match p i with Ok a r => Ok (f a) r | Err e => Err e end.

(* nom::bytes::complete::take / nom::bytes::streaming::take *)
Definition take_c (n : N) : parser bytes :=
  fun i => match take (N.to_nat n) i with Some (a, r) => Ok a r | None => Err EError end.
Definition take_s (n : N) : parser bytes :=
  fun i => match take (N.to_nat n) i with Some (a, r) => Ok a r | None => Err EIncomplete end.

(* be_uN: complete (hand-written imports from nom::number::complete) and streaming
   (what derive(Nom) generates for primitive fields) *)
Definition u_c (w : nat) : parser N :=
  fun i => match take w i with Some (a, r) => Ok (be a) r | None => Err EError end.
Definition u_s (w : nat) : parser N :=
  fun i => match take w i with Some (a, r) => Ok (be a) r | None => Err EIncomplete end.

(* nom::combinator::complete *)
Definition complete {A} (p : parser A) : parser A :=
  fun i => match p i with Err EIncomplete => Err EError | r => r end.

(* nom::multi::count: element errors keep their kind *)
Fixpoint count {A} (n : nat) (p : parser A) (i : bytes) : res (list A) :=
  match n with
  | O => Ok [] i
  | S n' =>
      match p i with
      | Err e => Err e
      | Ok a r =>
          match count n' p r with
          | Ok l r' => Ok (a :: l) r'
          | Err e => Err e
          end
      end
  end.

(* nom::multi::many0: stops on Error, propagates anything else, fails (Error) when an element
   succeeds without consuming. *)
Fixpoint many0_aux {A} (fuel : nat) (p : parser A) (i : bytes) : res (list A) :=
  match fuel with
  | O => Err EFuel
  | S f =>
      match p i with
      | Err EError => Ok [] i
      | Err e => Err e
      | Ok a r =>
          if shorter r i then
            match many0_aux f p r with
            | Ok l r' => Ok (a :: l) r'
            | Err e => Err e
            end
          else Err EError
      end
  end.
Definition many0 {A} (p : parser A) : parser (list A) :=
  fun i => many0_aux (S (List.length i)) p i.

(* map_res(take(len), |i| inner(i).map(|(_, v)| v)): the inner remainder is thrown away and
   every inner failure becomes Error(MapRes). *)
Definition map_res_take {A} (len : N) (inner : parser A) : parser A :=
  fun i =>
    match take_c len i with
    | Err e => Err e
    | Ok body rest =>
        match inner body with
        | Ok a _ => Ok a rest
        | Err EFuel => Err EFuel
        | Err _ => Err EError
        end
    end.

(* derived Vec<u8>: many0(complete(u8)) = everything that is left *)
Definition rest_bytes : parser bytes := fun i => Ok i [].

(* ---- the same combinators threading a state (the template caches) ---- *)
Definition sparser (St A : Type) := St -> bytes -> res A * St.

Fixpoint many0_st_aux {St A} (fuel : nat) (p : sparser St A) (s : St) (i : bytes) : res (list A) * St :=
  match fuel with
  | O => (Err EFuel, s)
  | S f =>
      match p s i with
      | (Err EError, s') => (Ok [] i, s')
      | (Err e, s') => (Err e, s')
      | (Ok a r, s') =>
          if shorter r i then
            match many0_st_aux f p s' r with
            | (Ok l r', s'') => (Ok (a :: l) r', s'')
            | (Err e, s'') => (Err e, s'')
            end
          else (Err EError, s')
      end
  end.
Definition many0_st {St A} (p : sparser St A) : sparser St (list A) :=
  fun s i => many0_st_aux (S (List.length i)) p s i.

Definition complete_st {St A} (p : sparser St A) : sparser St A :=
  fun s i => match p s i with (Err EIncomplete, s') => (Err EError, s') | r => r end.

Definition map_res_take_st {St A} (len : N) (inner : sparser St A) : sparser St A :=
  fun s i =>
    match take_c len i with
    | Err e => (Err e, s)
    | Ok body rest =>
        match inner s body with
        | (Ok a _, s') => (Ok a rest, s')
        | (Err EFuel, s') => (Err EFuel, s')
        | (Err _, s') => (Err EError, s')
        end
    end.
