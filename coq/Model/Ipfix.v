(* Model/Ipfix.v — variable_versions/ipfix.rs, function by function.  Definitions only. *)
From NF Require Export Value.
Open Scope string_scope.
Open Scope list_scope.
Open Scope N_scope.

Definition ipfix_from_u16 (n : N) : N := assocN n ipfix_from_u16_tbl ipfix_from_u16_def.
Definition ipfix_dtype (d : N) : dtype := assocN d ipfix_dtype_tbl ipfix_dtype_def.
Definition ipfix_enterprise : N :=
  match disc_of_name ipfix_variants "Enterprise" with Some d => d | None => 0 end.

Record ifield := { if_num : N; if_type : N; if_len : N; if_ent : option N }.   (* TemplateField *)
Record itemplate := { it_id : N; it_count : N; it_fields : list ifield; it_pad : bytes }.
Record iotemplate := { io_id : N; io_count : N; io_scope_count : N;
                       io_fields : list ifield; io_pad : bytes }.

(* one decoded value: (field index, field type, value); the Rust Vec holds one single-entry
   BTreeMap per value *)
Definition ientry := (N * N * fval)%type.

Inductive ix_body :=
| IxTemplate (t : itemplate)
| IxOTemplate (t : iotemplate)
| IxData (fields : list ientry) (pad : bytes)
| IxOData (fields : list ientry) (pad : bytes).

Record ix_set := { is_id : N; is_len : N; is_body : ix_body }.
Record ix_packet := { ix_header : list N; ix_sets : list ix_set }.

Record ixstate := { ix_t : list (N * itemplate); ix_o : list (N * iotemplate) }.
Definition ix_empty : ixstate := {| ix_t := []; ix_o := [] |}.

(* #[derive(Nom)] struct TemplateField with Cond / PostExec *)
Definition parse_ifield : parser ifield :=
  fun i =>
    let* (n, r) := u_s 2 i in
    let* (l, r) := u_s 2 r in
    if 32767 <? n then
      let* (e, r) := u_s 4 r in
      Ok {| if_num := n - 32768; if_type := ipfix_enterprise; if_len := l; if_ent := Some e |} r
    else
      Ok {| if_num := n; if_type := ipfix_from_u16 n; if_len := l; if_ent := None |} r.

(* #[derive(Nom)] struct Template: fields is a plain Vec (many0(complete)), field_count unused *)
Definition parse_itemplate : parser itemplate :=
  fun i =>
    let* (id, r) := u_s 2 i in
    let* (c, r) := u_s 2 r in
    let* (fs, r) := many0 (complete parse_ifield) r in
    Ok {| it_id := id; it_count := c; it_fields := fs; it_pad := r |} [].

Definition combined_count (field_count scope_count : N) : N :=
  sat_add16 scope_count (if scope_count <=? field_count then field_count - scope_count else field_count).

Definition parse_iotemplate : parser iotemplate :=
  fun i =>
    let* (id, r) := u_s 2 i in
    let* (c, r) := u_s 2 r in
    let* (sc, r) := u_s 2 r in
    let* (fs, r) := count (N.to_nat (combined_count c sc)) parse_ifield r in
    Ok {| io_id := id; io_count := c; io_scope_count := sc; io_fields := fs; io_pad := r |} [].

(* CommonTemplate::is_valid *)
Definition fields_valid (fs : list ifield) : bool := existsb (fun f => 0 <? if_len f) fs.

(* TemplateField::parse_field_length *)
Definition parse_field_length (f : ifield) : parser N :=
  fun i =>
    if if_len f =? 65535 then
      let* (l, r) := u_c 1 i in
      if l =? 255 then u_c 2 r else Ok l r
    else Ok (if_len f) i.

(* TemplateField::parse_as_field_value *)
Definition parse_ivalue (puf : bool) (f : ifield) : parser fval :=
  fun i =>
    let* (len, r) := parse_field_length f i in
    match if_ent f with
    | Some _ => pmap VVec (take_c len) r
    | None => from_field_type puf (ipfix_dtype (if_type f)) len r
    end.

(* bytes a successful parse_ivalue consumes: remaining.len() - i.len() in FieldParser::parse
   (proved equal in Proofs/ValueFacts.v) *)
Definition ivalue_taken (f : ifield) (i : bytes) : N :=
  if if_len f =? 65535 then
    match i with
    | [] => 0
    | b :: r =>
        if bN b =? 255 then
          match take 2 r with
          | Some (l, _) => 3 + (match if_ent f with Some _ => be l | None => consumed_of (ipfix_dtype (if_type f)) (be l) end)
          | None => 0
          end
        else 1 + (match if_ent f with Some _ => bN b | None => consumed_of (ipfix_dtype (if_type f)) (bN b) end)
    end
  else match if_ent f with Some _ => if_len f | None => consumed_of (ipfix_dtype (if_type f)) (if_len f) end.

(* one pass over the template in FieldParser::parse: every field once, in order; returns the
   entries, the bytes taken, and the part of them taken by variable-length fields *)
Definition is_varlen (f : ifield) : bool := if_len f =? 65535.

Fixpoint parse_irecord (puf : bool) (fs : list ifield) (c : N) (i : bytes) : res (list ientry * (N * N)) :=
  match fs with
  | [] => Ok ([], (0, 0)) i
  | f :: fs' =>
      match parse_ivalue puf f i with
      | Err e => Err e
      | Ok v r =>
          match parse_irecord puf fs' (c + 1) r with
          | Ok (l, (taken, vtaken)) r' =>
              let t := ivalue_taken f i in
              Ok ((c, if_type f, v) :: l, (t + taken, (if is_varlen f then t else 0) + vtaken)) r'
          | Err e => Err e
          end
      end
  end.

Definition varlen_count (fs : list ifield) : N := lenN (filter is_varlen fs).

(* remaining.len() >= n, walking only n cells *)
Definition has_at_least (n : N) (l : bytes) : bool :=
  match take (N.to_nat n) l with Some _ => true | None => false end.

(* FieldParser::parse: decode one record; go on while it took at least one byte and the next
   record can still fit: what the fixed-length fields took plus one length byte per
   variable-length field *)
Fixpoint parse_irecords (fuel : nat) (puf : bool) (fs : list ifield) (i : bytes) : res (list ientry) :=
  match fuel with
  | O => Err EFuel
  | S fuel' =>
      match parse_irecord puf fs 0 i with
      | Err e => Err e
      | Ok (ents, (taken, vtaken)) r =>
          if (0 <? taken) && has_at_least (taken - vtaken + varlen_count fs) r then
            match parse_irecords fuel' puf fs r with
            | Ok more r' => Ok (ents ++ more) r'
            | Err e => Err e
            end
          else Ok ents r
      end
  end.

(* #[derive(Nom)] struct Data / OptionsData: ErrorIf fields.is_empty(), records, padding = rest *)
Definition parse_idata (puf : bool) (fs : list ifield) : parser (list ientry * bytes) :=
  fun i =>
    if is_nil fs then Err EError
    else
      let* (ents, r) := parse_irecords (S (List.length i)) puf fs i in
      Ok (ents, r) [].

(* FlowSetBody::parse *)
Definition parse_ibody (puf : bool) (id : N) : sparser ixstate ix_body :=
  fun s i =>
    if (id <? ipfix_set_min_range) && negb (id =? ipfix_options_template_id) then
      match parse_itemplate i with
      | Err e => (Err e, s)
      | Ok t r =>
          if fields_valid (it_fields t)
          then (Ok (IxTemplate t) r, {| ix_t := insert (it_id t) t (ix_t s); ix_o := remove (it_id t) (ix_o s) |})
          else (Err EError, s)
      end
    else if id =? ipfix_options_template_id then
      match parse_iotemplate i with
      | Err e => (Err e, s)
      | Ok t r =>
          if fields_valid (io_fields t)
          then (Ok (IxOTemplate t) r, {| ix_t := remove (io_id t) (ix_t s); ix_o := insert (io_id t) t (ix_o s) |})
          else (Err EError, s)
      end
    else
      match lookup id (ix_t s) with
      | Some t =>
          match parse_idata puf (it_fields t) i with
          | Ok (ents, pad) r => (Ok (IxData ents pad) r, s)
          | Err e => (Err e, s)
          end
      | None =>
          match lookup id (ix_o s) with
          | Some t =>
              match parse_idata puf (io_fields t) i with
              | Ok (ents, pad) r => (Ok (IxOData ents pad) r, s)
              | Err e => (Err e, s)
              end
          | None => (Err EError, s)
          end
      end.

(* #[derive(Nom)] struct FlowSet *)
Definition parse_iset (puf : bool) : sparser ixstate ix_set :=
  fun s i =>
    match u_s 2 i with
    | Err e => (Err e, s)
    | Ok id r =>
        match u_s 2 r with
        | Err e => (Err e, s)
        | Ok len r =>
            match map_res_take_st (len - 4) (parse_ibody puf id) s r with
            | (Ok b r', s') => (Ok {| is_id := id; is_len := len; is_body := b |} r', s')
            | (Err e, s') => (Err e, s')
            end
        end
    end.

(* #[derive(Nom)] struct IPFix: header, then
   map_res(take(length.saturating_sub(16)), many0(complete(FlowSet::parse))) *)
Definition parse_ipfix (puf : bool) : sparser ixstate ix_packet :=
  fun s i =>
    match parse_layout ipfix_header_layout i with
    | Err e => (Err e, s)
    | Ok h r =>
        match map_res_take_st (get_field ipfix_header_layout h "length" - 16)
                (many0_st (complete_st (parse_iset puf))) s r with
        | (Ok sets r', s') => (Ok {| ix_header := h; ix_sets := sets |} r', s')
        | (Err e, s') => (Err e, s')
        end
    end.
