(* Model/Json.v — the serde shape of every result type as a JSON tree, a compact printer, and the
   observation records the correspondence check compares (results, re-exports, common views,
   paddings, caches).  Definitions only. *)
From NF Require Export Common.
From Coq Require Import Decimal.
Open Scope string_scope.
Open Scope list_scope.
Open Scope N_scope.

Inductive json :=
| JNull
| JBool (b : bool)
| JNum (z : Z)
| JStr (s : string)          (* ASCII identifier-like text (variant and field names) *)
| JText (b : bytes)          (* a Rust String, as its UTF-8 bytes *)
| JF64 (bits : N)            (* an f64 by its bit pattern; serde_json prints non-finite as null *)
| JIp4 (n : N)
| JIp6 (n : N)
| JMsg (k : perr)            (* a nom error message, by kind *)
| JArr (l : list json)
| JObj (l : list (string * json)).

Definition jn (n : N) : json := JNum (Z.of_N n).
Definition jtag (name : string) (v : json) : json := JObj [(name, v)].
Definition jbytes (b : bytes) : json := JArr (map (fun x => jn (bN x)) b).
Definition jopt {A} (f : A -> json) (o : option A) : json := match o with Some a => f a | None => JNull end.

(* ---- serde shapes ---- *)
Definition json_fld (f : fld) (v : N) : json :=
  match f_show f with
  | ShowNum => jn v
  | ShowIp4 => JIp4 v
  | ShowProto => JStr (variant_name proto_variants v)
  end.

Fixpoint json_struct (L : list fld) (vs : list N) : list (string * json) :=
  match L, vs with
  | f :: L', v :: vs' => (f_name f, json_fld f v) :: json_struct L' vs'
  | _, _ => []
  end.

Definition json_fixed (HL RL : list fld) (p : fixed_packet) : json :=
  JObj [("header", JObj (json_struct HL (fx_header p)));
        ("flowsets", JArr (map (fun r => JObj (json_struct RL r)) (fx_records p)))].

Definition json_dnum (d : dnum) : json :=
  match d with
  | U8 n | U16 n | U24 n | U32 n | U64 n | U128 n => jn n
  | I24 z | I32 z => JNum z
  end.

Definition json_fval (v : fval) : json :=
  match v with
  | VStr b => jtag "String" (JText b)
  | VNum d => jtag "DataNumber" (json_dnum d)
  | VF64 bits => jtag "Float64" (JF64 bits)
  | VDur s n => jtag "Duration" (JObj [("secs", jn s); ("nanos", jn n)])
  | VIp4 n => jtag "Ip4Addr" (JIp4 n)
  | VIp6 n => jtag "Ip6Addr" (JIp6 n)
  | VMac b => jtag "MacAddr" (JText (mac_text b))
  | VVec b => jtag "Vec" (jbytes b)
  | VProto d => jtag "ProtocolType" (JStr (variant_name proto_variants d))
  end.

Definition json_tfield (f : tfield) : json :=
  JObj [("field_type_number", jn (tf_num f));
        ("field_type", JStr (variant_name v9_variants (tf_type f)));
        ("field_length", jn (tf_len f))].
Definition json_sfield (f : sfield) : json :=
  JObj [("field_type_number", jn (sf_num f));
        ("field_type", JStr (variant_name scope_variants (sf_type f)));
        ("field_length", jn (sf_len f))].
Definition json_template (t : template) : json :=
  JObj [("template_id", jn (t_id t)); ("field_count", jn (t_count t));
        ("fields", JArr (map json_tfield (t_fields t)))].
Definition json_otemplate (t : otemplate) : json :=
  JObj [("template_id", jn (ot_id t)); ("options_scope_length", jn (ot_scope_len t));
        ("options_length", jn (ot_opt_len t));
        ("scope_fields", JArr (map json_sfield (ot_scope t)));
        ("option_fields", JArr (map json_tfield (ot_opts t)))].

(* decimal text of an N *)
Fixpoint uint_bytes (u : uint) (k : bytes) : bytes :=
  match u with
  | Nil => k
  | D0 u => x30 :: uint_bytes u k | D1 u => x31 :: uint_bytes u k
  | D2 u => x32 :: uint_bytes u k | D3 u => x33 :: uint_bytes u k
  | D4 u => x34 :: uint_bytes u k | D5 u => x35 :: uint_bytes u k
  | D6 u => x36 :: uint_bytes u k | D7 u => x37 :: uint_bytes u k
  | D8 u => x38 :: uint_bytes u k | D9 u => x39 :: uint_bytes u k
  end.
Definition n_bytes (n : N) (k : bytes) : bytes := uint_bytes (N.to_uint n) k.
(* BTreeMap<usize,_> keys *)
Definition dec_string (n : N) : string := string_of_list_byte (n_bytes n []).

Fixpoint json_record (vs : list (N * string)) (idx : N) (rec : list (N * fval)) : list (string * json) :=
  match rec with
  | [] => []
  | (t, v) :: r =>
      (dec_string idx, JArr [JStr (variant_name vs t); json_fval v]) :: json_record vs (idx + 1) r
  end.

Definition scope_data_tag (d : N) : string :=
  match scope_data_name (variant_name scope_variants d) with Some s => s | None => "?" end.

Definition json_v9_body (b : v9_body) : json :=
  match b with
  | V9Templates ts _ => jtag "Template" (JObj [("templates", JArr (map json_template ts))])
  | V9OTemplates ts _ => jtag "OptionsTemplate" (JObj [("templates", JArr (map json_otemplate ts))])
  | V9Data recs _ =>
      jtag "Data" (JObj [("fields", JArr (map (fun r => JObj (json_record v9_variants 0 r)) recs))])
  | V9OData sc op _ =>
      jtag "OptionsData"
        (JObj [("scope_fields", JArr (map (fun e => jtag (scope_data_tag (fst e)) (jbytes (snd e))) sc));
               ("options_fields",
                JArr (map (fun e => JObj [("field_type", JStr (variant_name v9_variants (fst e)));
                                          ("field_value", jbytes (snd e))]) op))])
  end.

Definition json_v9_set (f : v9_flowset) : json :=
  JObj [("header", JObj [("flowset_id", jn (fs_id f)); ("length", jn (fs_len f))]);
        ("body", json_v9_body (fs_body f))].

Definition json_v9 (p : v9_packet) : json :=
  JObj [("header", JObj (json_struct v9_header_layout (v9_header p)));
        ("flowsets", JArr (map json_v9_set (v9_sets p)))].

Definition json_ifield (f : ifield) : json :=
  JObj ([("field_type_number", jn (if_num f));
         ("field_type", JStr (variant_name ipfix_variants (if_type f)));
         ("field_length", jn (if_len f))]
        ++ match if_ent f with Some e => [("enterprise_number", jn e)] | None => [] end).
Definition json_itemplate (t : itemplate) : json :=
  JObj [("template_id", jn (it_id t)); ("field_count", jn (it_count t));
        ("fields", JArr (map json_ifield (it_fields t)))].
Definition json_iotemplate (t : iotemplate) : json :=
  JObj [("template_id", jn (io_id t)); ("field_count", jn (io_count t));
        ("scope_field_count", jn (io_scope_count t));
        ("fields", JArr (map json_ifield (io_fields t)))].

Definition json_ientry (e : ientry) : json :=
  let '(c, t, v) := e in
  JObj [(dec_string c, JArr [JStr (variant_name ipfix_variants t); json_fval v])].

Definition json_ix_body (b : ix_body) : json :=
  match b with
  | IxTemplate t => jtag "Template" (json_itemplate t)
  | IxOTemplate t => jtag "OptionsTemplate" (json_iotemplate t)
  | IxData ents _ => jtag "Data" (JObj [("fields", JArr (map json_ientry ents))])
  | IxOData ents _ => jtag "OptionsData" (JObj [("fields", JArr (map json_ientry ents))])
  end.

Definition json_ix_set (f : ix_set) : json :=
  JObj [("header", JObj [("header_id", jn (is_id f)); ("length", jn (is_len f))]);
        ("body", json_ix_body (is_body f))].

Definition json_ipfix (p : ix_packet) : json :=
  JObj [("header", JObj (json_struct ipfix_header_layout (ix_header p)));
        ("flowsets", JArr (map json_ix_set (ix_sets p)))].

Definition json_nferr (e : nferr) : json :=
  match e with
  | NIncomplete k => jtag "Incomplete" (JMsg k)
  | NPartial v rem k =>
      jtag "Partial" (JObj [("version", jn v); ("remaining", jbytes rem); ("error", JMsg k)])
  | NUnknownVersion b => jtag "UnknownVersion" (jbytes b)
  end.

Definition json_elem (e : elem) : json :=
  match e with
  | PV5 p => jtag "V5" (json_fixed v5_header_layout v5_record_layout p)
  | PV7 p => jtag "V7" (json_fixed v7_header_layout v7_record_layout p)
  | PV9 p => jtag "V9" (json_v9 p)
  | PIx p => jtag "IPFix" (json_ipfix p)
  | PErr e rem => jtag "Error" (JObj [("error", json_nferr e); ("remaining", jbytes rem)])
  end.

(* ---- the other observations ---- *)
Definition hexd (n : N) : byte := byte_of (if n <? 10 then 48 + n else 87 + n).
Fixpoint hex_of (b : bytes) : bytes :=
  match b with
  | [] => []
  | x :: b' => hexd (bN x / 16) :: hexd (bN x mod 16) :: hex_of b'
  end.

Definition json_export (e : elem) : json :=
  match export_elem e with
  | None => JNull
  | Some (XOk b) => JText (hex_of b)
  | Some XErr => JStr "ERR"
  | Some XPanic => JStr "PANIC"
  end.

Definition json_ip (a : ipaddr) : json := match a with Ip4 n => JIp4 n | Ip6 n => JIp6 n end.

Definition json_cflow (f : cflow) : json :=
  JObj [("src_addr", jopt json_ip (c_src f)); ("dst_addr", jopt json_ip (c_dst f));
        ("src_port", jopt jn (c_sport f)); ("dst_port", jopt jn (c_dport f));
        ("protocol_number", jopt jn (c_pnum f));
        ("protocol_type", jopt (fun d => JStr (variant_name proto_variants d)) (c_ptype f));
        ("first_seen", jopt jn (c_first f)); ("last_seen", jopt jn (c_last f));
        ("src_mac", jopt JText (c_smac f)); ("dst_mac", jopt JText (c_dmac f))].

Definition json_common (e : elem) : json :=
  match common_elem e with
  | None => JStr "ERR"
  | Some c => JObj [("version", jn (c_version c)); ("timestamp", jn (c_ts c));
                    ("flows", JArr (map json_cflow (c_flows c)))]
  end.

Definition json_paddings (e : elem) : json :=
  match e with
  | PV9 p => JArr (map (fun f => match fs_body f with
                                 | V9Templates _ pad | V9OTemplates _ pad | V9Data _ pad | V9OData _ _ pad =>
                                     JText (hex_of pad)
                                 end) (v9_sets p))
  | PIx p => JArr (map (fun f => match is_body f with
                                 | IxTemplate t => JText (hex_of (it_pad t))
                                 | IxOTemplate t => JText (hex_of (io_pad t))
                                 | IxData _ pad | IxOData _ pad => JText (hex_of pad)
                                 end) (ix_sets p))
  | _ => JArr []
  end.

Definition json_state (s : pstate) : json :=
  JObj [("v9_t", JArr (map (fun kv => JArr [jn (fst kv); json_template (snd kv)]) (v9_t (st9 s))));
        ("v9_o", JArr (map (fun kv => JArr [jn (fst kv); json_otemplate (snd kv)]) (v9_o (st9 s))));
        ("ix_t", JArr (map (fun kv => JArr [jn (fst kv); json_itemplate (snd kv);
                                            JText (hex_of (it_pad (snd kv)))]) (ix_t (stx s))));
        ("ix_o", JArr (map (fun kv => JArr [jn (fst kv); json_iotemplate (snd kv);
                                            JText (hex_of (io_pad (snd kv)))]) (ix_o (stx s))))].

(* ---- compact printer (accumulator style: pj j k = text of j followed by k) ---- *)
Definition str_bytes (s : string) : bytes := list_byte_of_string s.

Definition z_bytes (z : Z) (k : bytes) : bytes :=
  match z with
  | Zneg p => x2d :: n_bytes (Npos p) k
  | _ => n_bytes (Z.to_N z) k
  end.

(* JSON string escaping: quote, backslash, control characters; everything else verbatim *)
Fixpoint esc_bytes (b : bytes) (k : bytes) : bytes :=
  match b with
  | [] => k
  | x :: b' =>
      let n := bN x in
      if n =? 34 then x5c :: x22 :: esc_bytes b' k
      else if n =? 92 then x5c :: x5c :: esc_bytes b' k
      else if n <? 32 then x5c :: x75 :: x30 :: x30 :: hexd (n / 16) :: hexd (n mod 16) :: esc_bytes b' k
      else x :: esc_bytes b' k
  end.
Definition quoted (b : bytes) (k : bytes) : bytes := x22 :: esc_bytes b (x22 :: k).

Definition msg_name (e : perr) : string :=
  match e with EIncomplete => "incomplete" | EError => "error" | EFuel => "fuel" end.

Fixpoint pj (j : json) (k : bytes) : bytes :=
  match j with
  | JNull => str_bytes "null" ++ k
  | JBool true => str_bytes "true" ++ k
  | JBool false => str_bytes "false" ++ k
  | JNum z => z_bytes z k
  | JStr s => quoted (str_bytes s) k
  | JText b => quoted b k
  | JF64 bits => str_bytes "{""$f64"":" ++ n_bytes bits (x7d :: k)
  | JIp4 n => str_bytes "{""$ip4"":" ++ n_bytes n (x7d :: k)
  | JIp6 n => str_bytes "{""$ip6"":" ++ n_bytes n (x7d :: k)
  | JMsg e => str_bytes "{""$msg"":" ++ quoted (str_bytes (msg_name e)) (x7d :: k)
  | JArr l =>
      x5b :: (fix go (l : list json) (first : bool) (k : bytes) : bytes :=
                match l with
                | [] => k
                | j :: l' => if first then pj j (go l' false k) else x2c :: pj j (go l' false k)
                end) l true (x5d :: k)
  | JObj l =>
      x7b :: (fix go (l : list (string * json)) (first : bool) (k : bytes) : bytes :=
                match l with
                | [] => k
                | (n, j) :: l' =>
                    let body := quoted (str_bytes n) (x3a :: pj j (go l' false k)) in
                    if first then body else x2c :: body
                end) l true (x7d :: k)
  end.

Definition print_json (j : json) : bytes := pj j [].

(* one observation line for a parse_bytes call, same keys as the Rust harness prints *)
Definition obs_json (r : list (elem * pstate)) (s_after : pstate) : json :=
  let es := map fst r in
  JObj [("R", JArr (map json_elem es));
        ("X", JArr (map json_export es));
        ("C", JArr (map json_common es));
        ("D", JArr (map json_paddings es));
        ("S", json_state s_after)].
