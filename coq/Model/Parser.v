(* Model/Parser.v — lib.rs: version dispatch, error mapping, packet chaining.  Definitions only. *)
From NF Require Export V9 Ipfix.
Open Scope string_scope.
Open Scope list_scope.
Open Scope N_scope.

(* NetflowParseError (the text of the nom message is not modelled; its kind is) *)
Inductive nferr :=
| NIncomplete (k : perr)
| NPartial (version : N) (remaining : bytes) (k : perr)
| NUnknownVersion (rest : bytes).

(* NetflowPacket *)
Inductive elem :=
| PV5 (p : fixed_packet)
| PV7 (p : fixed_packet)
| PV9 (p : v9_packet)
| PIx (p : ix_packet)
| PErr (e : nferr) (remaining : bytes).

Record pstate := { st9 : v9state; stx : ixstate }.
Definition empty_state : pstate := {| st9 := v9_empty; stx := ix_empty |}.

(* outcome of parse_packet_by_version as parse_bytes sees it *)
Inductive step :=
| StStop                                       (* UnallowedVersion: vec![] *)
| StErr (e : elem) (s : pstate)                (* one Error element, nothing after it *)
| StOk (e : elem) (rest : bytes) (s : pstate).

Fixpoint assoc_str (k : N) (t : list (N * string)) : option string :=
  match t with
  | [] => None
  | (k', v) :: t' => if k =? k' then Some v else assoc_str k t'
  end.

(* which version parser a version number is dispatched to: the generated table of the match arms
   of parse_packet_by_version, read through the parser names *)
Inductive vkind := K5 | K7 | K9 | K10.
Definition kind_of_tag (t : string) : option vkind :=
  if String.eqb t "v5" then Some K5
  else if String.eqb t "v7" then Some K7
  else if String.eqb t "v9" then Some K9
  else if String.eqb t "ipfix" then Some K10
  else None.
Definition version_kind (v : N) : option vkind :=
  match assoc_str v version_dispatch with
  | Some t => kind_of_tag t
  | None => None
  end.

Definition parse_one (puf : bool) (allow : N -> bool) (s : pstate) (x : bytes) : step :=
  match u_s 2 x with
  | Err k => StErr (PErr (NIncomplete k) x) s
  | Ok v body =>
      if negb (allow v) then StStop
      else
        match version_kind v with
        | Some K5 =>
            match parse_v5 body with
            | Ok p rest => StOk (PV5 p) rest s
            | Err k => StErr (PErr (NPartial 5 body k) x) s
            end
        | Some K7 =>
            match parse_v7 body with
            | Ok p rest => StOk (PV7 p) rest s
            | Err k => StErr (PErr (NPartial 7 body k) x) s
            end
        | Some K9 =>
            match parse_v9 puf (st9 s) body with
            | (Ok p rest, s9) => StOk (PV9 p) rest {| st9 := s9; stx := stx s |}
            | (Err k, s9) => StErr (PErr (NPartial 9 body k) x) {| st9 := s9; stx := stx s |}
            end
        | Some K10 =>
            match parse_ipfix puf (stx s) body with
            | (Ok p rest, sx) => StOk (PIx p) rest {| st9 := st9 s; stx := sx |}
            | (Err k, sx) => StErr (PErr (NPartial 10 body k) x) {| st9 := st9 s; stx := sx |}
            end
        | None => StErr (PErr (NUnknownVersion body) x) s
        end
  end.

(* parse_bytes: results paired with the parser state after each element; None = out of fuel *)
Fixpoint run (fuel : nat) (puf : bool) (allow : N -> bool) (s : pstate) (x : bytes)
  : option (list (elem * pstate)) :=
  match x with
  | [] => Some []
  | _ :: _ =>
      match fuel with
      | O => None
      | S fuel' =>
          match parse_one puf allow s x with
          | StStop => Some []
          | StErr e s' => Some [(e, s')]
          | StOk e rest s' =>
              if is_nil rest then Some [(e, s')]
              else option_map (cons (e, s')) (run fuel' puf allow s' rest)
          end
      end
  end.

Definition parse_bytes (puf : bool) (allow : N -> bool) (s : pstate) (x : bytes) :=
  run (S (List.length x)) puf allow s x.

Definition final_state (s : pstate) (r : list (elem * pstate)) : pstate :=
  last (map snd r) s.

Definition allow_list (l : list N) : N -> bool := fun v => existsb (N.eqb v) l.
