(* Model/JsonRead.v — a small JSON reader for the text the model's printer emits: the other half
   of C16's well-formedness statement (print then read gives the tree back).  Definitions only. *)
From NF Require Export Json.
From Coq Require Import Decimal.
Open Scope string_scope.
Open Scope list_scope.
Open Scope N_scope.

(* what the reader returns for a printed tree: names and marker leaves become ordinary JSON *)
Fixpoint plain (j : json) : json :=
  match j with
  | JStr s => JText (str_bytes s)
  | JF64 bits => JObj [("$f64", JNum (Z.of_N bits))]
  | JIp4 n => JObj [("$ip4", JNum (Z.of_N n))]
  | JIp6 n => JObj [("$ip6", JNum (Z.of_N n))]
  | JMsg e => JObj [("$msg", JText (str_bytes (msg_name e)))]
  | JArr l => JArr (map plain l)
  | JObj l => JObj (map (fun kv => (fst kv, plain (snd kv))) l)
  | _ => j
  end.

Definition is_digit (b : byte) : bool := (48 <=? bN b) && (bN b <=? 57).

Definition cons_digit (b : byte) (u : uint) : uint :=
  match bN b - 48 with
  | 0 => D0 u | 1 => D1 u | 2 => D2 u | 3 => D3 u | 4 => D4 u
  | 5 => D5 u | 6 => D6 u | 7 => D7 u | 8 => D8 u | _ => D9 u
  end.

Fixpoint rd_uint (i : bytes) : uint * bytes :=
  match i with
  | [] => (Nil, [])
  | b :: r => if is_digit b then let (u, k) := rd_uint r in (cons_digit b u, k) else (Nil, i)
  end.

Definition unhex (b : byte) : N :=
  let n := bN b in if n <? 58 then n - 48 else n - 87.

(* after the opening quote: unescape up to the closing quote *)
Fixpoint rd_str (i : bytes) : option (bytes * bytes) :=
  match i with
  | [] => None
  | b :: r =>
      if bN b =? 34 then Some ([], r)
      else if bN b =? 92 then
        match r with
        | c :: r1 =>
            if bN c =? 34 then match rd_str r1 with Some (s, k) => Some (x22 :: s, k) | None => None end
            else if bN c =? 92 then match rd_str r1 with Some (s, k) => Some (x5c :: s, k) | None => None end
            else if bN c =? 117 then
              match r1 with
              | z1 :: z2 :: h1 :: h2 :: r2 =>
                  if (bN z1 =? 48) && (bN z2 =? 48) then
                    match rd_str r2 with
                    | Some (s, k) => Some (byte_of (16 * unhex h1 + unhex h2) :: s, k)
                    | None => None
                    end
                  else None
              | _ => None
              end
            else None
        | [] => None
        end
      else match rd_str r with Some (s, k) => Some (b :: s, k) | None => None end
  end.

Fixpoint expect (w : bytes) (i : bytes) : option bytes :=
  match w, i with
  | [], _ => Some i
  | a :: w', b :: i' => if bN a =? bN b then expect w' i' else None
  | _ :: _, [] => None
  end.

Fixpoint rd_val (fuel : nat) (i : bytes) : option (json * bytes) :=
  match fuel with
  | O => None
  | S f =>
      match i with
      | [] => None
      | b :: r =>
          let n := bN b in
          if n =? 110 then match expect (str_bytes "ull") r with Some k => Some (JNull, k) | None => None end
          else if n =? 116 then match expect (str_bytes "rue") r with Some k => Some (JBool true, k) | None => None end
          else if n =? 102 then match expect (str_bytes "alse") r with Some k => Some (JBool false, k) | None => None end
          else if n =? 34 then match rd_str r with Some (s, k) => Some (JText s, k) | None => None end
          else if n =? 45 then
            match rd_uint r with
            | (Nil, _) => None
            | (u, k) => Some (JNum (Z.opp (Z.of_N (N.of_uint u))), k)
            end
          else if is_digit b then
            match rd_uint i with
            | (Nil, _) => None
            | (u, k) => Some (JNum (Z.of_N (N.of_uint u)), k)
            end
          else if n =? 91 then
            match r with
            | c :: r1 => if bN c =? 93 then Some (JArr [], r1)
                         else match rd_elems f r with Some (l, k) => Some (JArr l, k) | None => None end
            | [] => None
            end
          else if n =? 123 then
            match r with
            | c :: r1 => if bN c =? 125 then Some (JObj [], r1)
                         else match rd_members f r with Some (l, k) => Some (JObj l, k) | None => None end
            | [] => None
            end
          else None
      end
  end
with rd_elems (fuel : nat) (i : bytes) : option (list json * bytes) :=
  match fuel with
  | O => None
  | S f =>
      match rd_val f i with
      | Some (j, c :: k) =>
          if bN c =? 44 then match rd_elems f k with Some (l, k') => Some (j :: l, k') | None => None end
          else if bN c =? 93 then Some ([j], k)
          else None
      | _ => None
      end
  end
with rd_members (fuel : nat) (i : bytes) : option (list (string * json) * bytes) :=
  match fuel with
  | O => None
  | S f =>
      match i with
      | q :: r =>
          if bN q =? 34 then
            match rd_str r with
            | Some (key, c :: k) =>
                if bN c =? 58 then
                  match rd_val f k with
                  | Some (j, d :: k1) =>
                      if bN d =? 44 then
                        match rd_members f k1 with
                        | Some (l, k2) => Some ((string_of_list_byte key, j) :: l, k2)
                        | None => None
                        end
                      else if bN d =? 125 then Some ([(string_of_list_byte key, j)], k1)
                      else None
                  | _ => None
                  end
                else None
            | _ => None
            end
          else None
      | [] => None
      end
  end.

Definition read_json (t : bytes) : option json :=
  match rd_val (S (length t)) t with
  | Some (j, []) => Some j
  | _ => None
  end.
