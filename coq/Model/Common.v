(* Model/Common.v — netflow_common.rs.  Definitions only. *)
From NF Require Export Export.
Open Scope string_scope.
Open Scope list_scope.
Open Scope N_scope.

Record cflow := {
  c_src : option ipaddr; c_dst : option ipaddr;
  c_sport : option N; c_dport : option N;
  c_pnum : option N; c_ptype : option N;
  c_first : option N; c_last : option N;
  c_smac : option bytes; c_dmac : option bytes }.

Record common := { c_version : N; c_ts : N; c_flows : list cflow }.

Definition opt_bind {A B} (o : option A) (f : A -> option B) : option B :=
  match o with Some a => f a | None => None end.
Definition opt_or {A} (a b : option A) : option A := match a with Some _ => a | None => b end.

(* From<&V5> / From<&V7>: every numeric field Some, MACs None *)
Definition common_fixed_flow (RL : list fld) (r : list N) : cflow :=
  {| c_src := Some (Ip4 (get_field RL r "src_addr")); c_dst := Some (Ip4 (get_field RL r "dst_addr"));
     c_sport := Some (get_field RL r "src_port"); c_dport := Some (get_field RL r "dst_port");
     c_pnum := Some (get_field RL r "protocol_number"); c_ptype := Some (get_field RL r "protocol_type");
     c_first := Some (get_field RL r "first"); c_last := Some (get_field RL r "last");
     c_smac := None; c_dmac := None |}.

Definition common_fixed (HL RL : list fld) (p : fixed_packet) : common :=
  {| c_version := get_field HL (fx_header p) "version";
     c_ts := get_field HL (fx_header p) "sys_up_time";
     c_flows := map (common_fixed_flow RL) (fx_records p) |}.

(* BTreeMap<Field, FieldValue> built from the record's values: the last value of a type wins *)
Fixpoint get_last (d : N) (rec : list (N * fval)) : option fval :=
  match rec with
  | [] => None
  | (t, v) :: r =>
      match get_last d r with
      | Some x => Some x
      | None => if t =? d then Some v else None
      end
  end.

Definition vdisc (vs : list (N * string)) (name : string) : N :=
  match disc_of_name vs name with Some d => d | None => 0 end.

(* how the protocol number and the two sysUpTime fields are read off a decoded value: plain
   numbers (IPFIX), or -- V9, where PROTOCOL is decoded as a protocol name and FIRST/LAST_SWITCHED
   as durations -- v9_protocol_number / v9_uptime_millis of netflow_common.rs *)
Definition v9_pnum (v : fval) : option N :=
  match v with
  | VProto d => if d =? vdisc proto_variants "Unknown" then None else Some (proto_to_u8 d)
  | _ => fval_un 8 v
  end.
(* v9_protocol_type of netflow_common.rs (repair of the view's protocol name): the name the
   record was decoded with; a plain number is looked up in From<u8> *)
Definition v9_ptype (v : fval) : option N :=
  match v with
  | VProto d => if d =? vdisc proto_variants "Unknown" then None else Some d
  | _ => option_map proto_from_u8 (fval_un 8 v)
  end.
Definition v9_upt (v : fval) : option N :=
  match v with
  | VDur secs nanos => let ms := secs * 1000 + nanos / 1000000 in if ms <? 2 ^ 32 then Some ms else None
  | _ => fval_un 32 v
  end.
Definition common_flow (vs : list (N * string)) (pnum ptype upt : fval -> option N)
  (src4 src6 dst4 dst6 sport dport proto first last smac dmac : string) (rec : list (N * fval)) : cflow :=
  let g := fun name => get_last (vdisc vs name) rec in
  {| c_src := opt_bind (opt_or (g src4) (g src6)) fval_ip;
     c_dst := opt_bind (opt_or (g dst4) (g dst6)) fval_ip;
     c_sport := opt_bind (g sport) (fval_un 16);
     c_dport := opt_bind (g dport) (fval_un 16);
     c_pnum := opt_bind (g proto) pnum;
     c_ptype := opt_bind (g proto) ptype;
     c_first := opt_bind (g first) upt;
     c_last := opt_bind (g last) upt;
     c_smac := opt_bind (g smac) fval_string;
     c_dmac := opt_bind (g dmac) fval_string |}.

Definition v9_common_flow : list (N * fval) -> cflow :=
  common_flow v9_variants v9_pnum v9_ptype v9_upt "Ipv4SrcAddr" "Ipv6SrcAddr" "Ipv4DstAddr" "Ipv6DstAddr"
    "L4SrcPort" "L4DstPort" "Protocol" "FirstSwitched" "LastSwitched" "InSrcMac" "InDstMac".

Definition ipfix_common_flow : list (N * fval) -> cflow :=
  common_flow ipfix_variants (fval_un 8) (fun v => option_map proto_from_u8 (fval_un 8 v)) (fval_un 32) "SourceIpv4address" "SourceIpv6address"
    "DestinationIpv4address" "DestinationIpv6address"
    "SourceTransportPort" "DestinationTransportPort" "ProtocolIdentifier"
    "FlowStartSysUpTime" "FlowEndSysUpTime" "SourceMacaddress" "DestinationMacaddress".

Definition common_v9 (p : v9_packet) : common :=
  {| c_version := get_field v9_header_layout (v9_header p) "version";
     c_ts := get_field v9_header_layout (v9_header p) "sys_up_time";
     c_flows := flat_map (fun f => match fs_body f with
                                   | V9Data recs _ => map v9_common_flow recs
                                   | _ => []
                                   end) (v9_sets p) |}.

(* every value of an IPFIX data set is its own single-entry map, hence its own "flow" *)
Definition common_ipfix (p : ix_packet) : common :=
  {| c_version := get_field ipfix_header_layout (ix_header p) "version";
     c_ts := get_field ipfix_header_layout (ix_header p) "export_time";
     c_flows := flat_map (fun f => match is_body f with
                                   | IxData ents _ =>
                                       map (fun e : ientry => ipfix_common_flow [(snd (fst e), snd e)]) ents
                                   | _ => []
                                   end) (ix_sets p) |}.

(* NetflowPacket::as_netflow_common; None = Err(UnknownVersion) *)
Definition common_elem (e : elem) : option common :=
  match e with
  | PV5 p => Some (common_fixed v5_header_layout v5_record_layout p)
  | PV7 p => Some (common_fixed v7_header_layout v7_record_layout p)
  | PV9 p => Some (common_v9 p)
  | PIx p => Some (common_ipfix p)
  | PErr _ _ => None
  end.

(* parse_bytes_as_netflow_common_flowsets *)
Definition common_flowsets (r : list elem) : list cflow :=
  flat_map (fun e => match common_elem e with Some c => c_flows c | None => [] end) r.
