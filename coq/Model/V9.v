(* Model/V9.v — variable_versions/v9.rs, function by function.  Definitions only. *)
From NF Require Export Value.
Open Scope string_scope.
Open Scope list_scope.
Open Scope N_scope.

(* ---- lookup tables (v9_lookup.rs), via the generated tables ---- *)
Definition v9_from_u16 (n : N) : N := assocN n v9_from_u16_tbl v9_from_u16_def.
Definition v9_dtype (d : N) : dtype := assocN d v9_dtype_tbl v9_dtype_def.
Definition scope_from_u16 (n : N) : N := assocN n scope_from_u16_tbl scope_from_u16_def.

(* ---- result types ---- *)
Record tfield := { tf_num : N; tf_type : N; tf_len : N }.          (* TemplateField *)
Record template := { t_id : N; t_count : N; t_fields : list tfield }. (* Template *)
Record sfield := { sf_num : N; sf_type : N; sf_len : N }.          (* OptionsTemplateScopeField *)
Record otemplate := { ot_id : N; ot_scope_len : N; ot_opt_len : N;
                      ot_scope : list sfield; ot_opts : list tfield }. (* OptionsTemplate *)

Inductive v9_body :=
| V9Templates (ts : list template) (pad : bytes)
| V9OTemplates (ts : list otemplate) (pad : bytes)
| V9Data (recs : list (list (N * fval))) (pad : bytes)     (* record = values in field-index order *)
| V9OData (scope : list (N * bytes)) (opts : list (N * bytes)) (pad : bytes).

Record v9_flowset := { fs_id : N; fs_len : N; fs_body : v9_body }.
Record v9_packet := { v9_header : list N; v9_sets : list v9_flowset }.

Record v9state := { v9_t : list (N * template); v9_o : list (N * otemplate) }.
Definition v9_empty : v9state := {| v9_t := []; v9_o := [] |}.

Definition default_template : template := {| t_id := 0; t_count := 0; t_fields := [] |}.
Definition default_otemplate : otemplate :=
  {| ot_id := 0; ot_scope_len := 0; ot_opt_len := 0; ot_scope := []; ot_opts := [] |}.

(* ---- template records ---- *)
(* #[derive(Nom)] struct TemplateField *)
Definition parse_tfield : parser tfield :=
  fun i =>
    let* (n, r) := u_s 2 i in
    let* (l, r) := u_s 2 r in
    Ok {| tf_num := n; tf_type := v9_from_u16 n; tf_len := l |} r.

(* #[derive(Nom)] struct Template: Count = field_count *)
Definition parse_template : parser template :=
  fun i =>
    let* (id, r) := u_s 2 i in
    let* (c, r) := u_s 2 r in
    let* (fs, r) := count (N.to_nat c) parse_tfield r in
    Ok {| t_id := id; t_count := c; t_fields := fs |} r.

Definition parse_sfield : parser sfield :=
  fun i =>
    let* (n, r) := u_s 2 i in
    let* (l, r) := u_s 2 r in
    Ok {| sf_num := n; sf_type := scope_from_u16 n; sf_len := l |} r.

(* #[derive(Nom)] struct OptionsTemplate: Count = (len / 4) as usize, twice *)
Definition parse_otemplate : parser otemplate :=
  fun i =>
    let* (id, r) := u_s 2 i in
    let* (sl, r) := u_s 2 r in
    let* (ol, r) := u_s 2 r in
    let* (sc, r) := count (N.to_nat (sl / 4)) parse_sfield r in
    let* (op, r) := count (N.to_nat (ol / 4)) parse_tfield r in
    Ok {| ot_id := id; ot_scope_len := sl; ot_opt_len := ol; ot_scope := sc; ot_opts := op |} r.

(* #[derive(Nom)] struct Templates { templates: Vec<Template>, padding: Vec<u8> } *)
Definition parse_templates : parser (list template * bytes) :=
  fun i =>
    let* (ts, r) := many0 (complete parse_template) i in
    Ok (ts, r) [].
Definition parse_otemplates : parser (list otemplate * bytes) :=
  fun i =>
    let* (ts, r) := many0 (complete parse_otemplate) i in
    Ok (ts, r) [].

(* ---- data ---- *)
(* Template::get_total_size: saturating u16 sum *)
Definition total_size (t : template) : N :=
  fold_left (fun acc f => sat_add16 acc (tf_len f)) (t_fields t) 0.

(* FieldParser::parse_data_field *)
Fixpoint parse_record (puf : bool) (fs : list tfield) (i : bytes) : res (list (N * fval)) :=
  match fs with
  | [] => Ok [] i
  | f :: fs' =>
      match from_field_type puf (v9_dtype (tf_type f)) (tf_len f) i with
      | Err e => Err e
      | Ok v r =>
          match parse_record puf fs' r with
          | Ok l r' => Ok ((tf_type f, v) :: l) r'
          | Err e => Err e
          end
      end
  end.

(* the fold of FieldParser::parse.  A failing record leaves (remaining, fields) unchanged and the
   Rust fold goes on to retry it; parse_data_field is a pure function of (remaining, template),
   so every retry fails the same way and the loop can stop at the first failure. *)
Fixpoint parse_records (puf : bool) (n : nat) (fs : list tfield) (i : bytes) : list (list (N * fval)) * bytes :=
  match n with
  | O => ([], i)
  | S n' =>
      match parse_record puf fs i with
      | Err _ => ([], i)
      | Ok rec r => let (l, r') := parse_records puf n' fs r in (rec :: l, r')
      end
  end.

(* FieldParser::parse: record_count = len / total size; a total size of 0 gives no records
   (checked_div(..).unwrap_or(0), the C01 repair) *)
Definition record_count (len total : N) : N := if total =? 0 then 0 else len / total.

Definition parse_data (puf : bool) (t : template) (i : bytes) : v9_body :=
  let n := record_count (lenN i) (total_size t) in
  let (recs, r) := parse_records puf (N.to_nat n) (t_fields t) i in
  V9Data recs r.

(* ScopeDataField::parse inside many0(complete(..)) over template.scope_fields.iter() *)
Definition scope_data_name (type_name : string) : option string :=
  if String.eqb type_name "System" then Some "System"
  else if String.eqb type_name "Interface" then Some "Interface"
  else if String.eqb type_name "LineCard" then Some "LineCard"
  else if String.eqb type_name "NetflowCache" then Some "NetFlowCache"
  else if String.eqb type_name "Template" then Some "Template"
  else None.
Definition scope_known (d : N) : bool :=
  match scope_data_name (variant_name scope_variants d) with Some _ => true | None => false end.

Fixpoint scope_loop (fs : list sfield) (i : bytes) : res (list (N * bytes)) :=
  match fs with
  | [] => Ok [] i                                  (* iterator exhausted: Error(Fail), many0 stops *)
  | f :: fs' =>
      match take_c (sf_len f) i with
      | Err _ => Ok [] i                           (* short: Error, many0 stops *)
      | Ok v r =>
          if scope_known (sf_type f) then
            if shorter r i then
              match scope_loop fs' r with
              | Ok l r' => Ok ((sf_type f, v) :: l) r'
              | Err e => Err e
              end
            else Err EError                        (* many0: element consumed nothing *)
          else Ok [] i                             (* Error(Verify), many0 stops *)
      end
  end.

(* OptionDataField::parse (Take = field_length, streaming) inside many0(complete(..)) *)
Fixpoint option_loop (fs : list tfield) (i : bytes) : res (list (N * bytes)) :=
  match fs with
  | [] => Ok [] i
  | f :: fs' =>
      match take_s (tf_len f) i with
      | Err _ => Ok [] i
      | Ok v r =>
          if shorter r i then
            match option_loop fs' r with
            | Ok l r' => Ok ((tf_type f, v) :: l) r'
            | Err e => Err e
            end
          else Err EError
      end
  end.

Definition parse_odata (t : otemplate) : parser v9_body :=
  fun i =>
    let* (sc, r) := scope_loop (ot_scope t) i in
    let* (op, r) := option_loop (ot_opts t) r in
    Ok (V9OData sc op r) [].

(* ---- FlowSetBody::parse ---- *)
Definition learn_templates (ts : list template) (m : list (N * template)) : list (N * template) :=
  fold_left (fun m t => insert (t_id t) t m) ts m.
Definition learn_otemplates (ts : list otemplate) (m : list (N * otemplate)) : list (N * otemplate) :=
  fold_left (fun m t => insert (ot_id t) t m) ts m.

Definition parse_body (puf : bool) (id : N) : sparser v9state v9_body :=
  fun s i =>
    if id =? v9_template_id then
      match parse_templates i with
      | Err e => (Err e, s)
      | Ok (ts, pad) r =>
          (* an id names one template: the definitions supersede options templates of the same ids *)
          (Ok (V9Templates ts pad) r, {| v9_t := learn_templates ts (v9_t s); v9_o := remove_keys (map t_id ts) (v9_o s) |})
      end
    else if id =? v9_options_template_id then
      match parse_otemplates i with
      | Err e => (Err e, s)
      | Ok (ts, pad) r =>
          (Ok (V9OTemplates ts pad) r, {| v9_t := remove_keys (map ot_id ts) (v9_t s); v9_o := learn_otemplates ts (v9_o s) |})
      end
    else
      match lookup id (v9_o s) with
      | Some ot => (parse_odata ot i, s)
      | None =>
          match lookup id (v9_t s) with
          | Some t => (Ok (parse_data puf t i) [], s)
          | None => (Err EError, s)
          end
      end.

(* #[derive(Nom)] struct FlowSet: header, then map_res(take(length.saturating_sub(4)), body) *)
Definition parse_flowset (puf : bool) : sparser v9state v9_flowset :=
  fun s i =>
    match u_s 2 i with
    | Err e => (Err e, s)
    | Ok id r =>
        match u_s 2 r with
        | Err e => (Err e, s)
        | Ok len r =>
            match map_res_take_st (len - 4) (parse_body puf id) s r with
            | (Ok b r', s') => (Ok {| fs_id := id; fs_len := len; fs_body := b |} r', s')
            | (Err e, s') => (Err e, s')
            end
        end
    end.

(* FlowSetParser::parse_flowsets: up to count flowsets, stopping at the end of the input *)
Fixpoint parse_flowsets (puf : bool) (n : nat) (s : v9state) (i : bytes) : res (list v9_flowset) * v9state :=
  match n with
  | O => (Ok [] i, s)
  | S n' =>
      if is_nil i then (Ok [] i, s)
      else
        match parse_flowset puf s i with
        | (Err e, s') => (Err e, s')
        | (Ok f r, s') =>
            match parse_flowsets puf n' s' r with
            | (Ok l r', s'') => (Ok (f :: l) r', s'')
            | (Err e, s'') => (Err e, s'')
            end
        end
  end.

(* #[derive(Nom)] struct V9 *)
Definition parse_v9 (puf : bool) : sparser v9state v9_packet :=
  fun s i =>
    match parse_layout v9_header_layout i with
    | Err e => (Err e, s)
    | Ok h r =>
        match parse_flowsets puf (N.to_nat (get_field v9_header_layout h "count")) s r with
        | (Ok fs r', s') => (Ok {| v9_header := h; v9_sets := fs |} r', s')
        | (Err e, s') => (Err e, s')
        end
    end.
