(* Model/Types.v — enumerations shared by the generated tables and the model. *)
From NF Require Export Base.

(* FieldDataType (data_number.rs) *)
Inductive dtype :=
| DString | DSigned | DUnsigned | DFloat64
| DDurSecs | DDurMillis | DDurMicros | DDurNanos
| DIp4 | DIp6 | DMac | DVec | DProto | DUnknown.

Definition dtype_eqb (a b : dtype) : bool :=
  match a, b with
  | DString, DString | DSigned, DSigned | DUnsigned, DUnsigned | DFloat64, DFloat64
  | DDurSecs, DDurSecs | DDurMillis, DDurMillis | DDurMicros, DDurMicros | DDurNanos, DDurNanos
  | DIp4, DIp4 | DIp6, DIp6 | DMac, DMac | DVec, DVec | DProto, DProto | DUnknown, DUnknown => true
  | _, _ => false
  end.

(* how a derive(Nom) struct field gets its value *)
Inductive fkind :=
| KStream                 (* primitive uN field: be_uN, streaming *)
| KComplete               (* #[nom(Parse = "be_u32")]: nom::number::complete *)
| KConst (n : N)          (* #[nom(Value = "n")]: consumes nothing *)
| KProtoOf (src : string) (* #[nom(Value(ProtocolTypes::from(src)))] *).

(* how serde shows it *)
Inductive fshow := ShowNum | ShowIp4 | ShowProto.

Record fld := { f_name : string; f_width : nat; f_kind : fkind; f_show : fshow }.

Definition on_wire (f : fld) : bool :=
  match f_kind f with KStream | KComplete => true | _ => false end.

(* table lookup with default *)
Fixpoint assocN {V} (k : N) (t : list (N * V)) (d : V) : V :=
  match t with
  | [] => d
  | (k', v) :: t' => if k =? k' then v else assocN k t' d
  end.

Fixpoint memN {V} (k : N) (t : list (N * V)) : bool :=
  match t with
  | [] => false
  | (k', _) :: t' => if k =? k' then true else memN k t'
  end.
