(* Model/Layout.v — generic interpreter for derive(Nom) structs made of fixed-width fields
   (V5/V7 headers and records, V9/IPFIX packet and flowset headers), driven by the layouts that
   tools/translate.py regenerates from the Rust structs.  Definitions only. *)
From NF Require Export Nom Types.
From NF Require Export Tables Layouts.
Open Scope string_scope.
Open Scope list_scope.
Open Scope N_scope.

(* ---- the three protocol tables (protocol.rs) ---- *)
(* impl From<u8> for ProtocolTypes, result = discriminant of the variant *)
Definition proto_from_u8 (n : N) : N := assocN n proto_from_u8_tbl proto_from_u8_def.
(* impl From<ProtocolTypes> for u8 *)
Definition proto_to_u8 (d : N) : N := assocN d proto_to_u8_tbl 255.
(* derive(Nom) on the fieldless #[repr(u8)] enum: the variant with that discriminant *)
Definition proto_parse (b : N) : option N := if memN b proto_variants then Some b else None.

Definition variant_name (vs : list (N * string)) (d : N) : string := assocN d vs "?".

Fixpoint disc_of_name (vs : list (N * string)) (name : string) : option N :=
  match vs with
  | [] => None
  | (d, n) :: vs' => if String.eqb n name then Some d else disc_of_name vs' name
  end.

(* FieldDataType::ProtocolType in from_field_type (repair of the unnamed-protocol defect): the
   variant with that discriminant, or Unknown for a number the enum has no variant for *)
Definition proto_unknown : N := match disc_of_name proto_variants "Unknown" with Some d => d | None => 255 end.
Definition proto_decode (b : N) : N := match proto_parse b with Some d => d | None => proto_unknown end.


(* ---- layout interpreter ---- *)
Fixpoint env_get (name : string) (env : list (string * N)) : N :=
  match env with
  | [] => 0
  | (n, v) :: env' => if String.eqb n name then v else env_get name env'
  end.

Definition parse_fld (f : fld) (env : list (string * N)) : parser N :=
  fun i =>
    match f_kind f with
    | KStream => u_s (f_width f) i
    | KComplete => u_c (f_width f) i
    | KConst n => Ok n i
    | KProtoOf src => Ok (proto_from_u8 (env_get src env)) i
    end.

Fixpoint parse_layout_aux (L : list fld) (env : list (string * N)) (i : bytes) : res (list N) :=
  match L with
  | [] => Ok [] i
  | f :: L' =>
      match parse_fld f env i with
      | Err e => Err e
      | Ok v r =>
          match parse_layout_aux L' ((f_name f, v) :: env) r with
          | Ok vs r' => Ok (v :: vs) r'
          | Err e => Err e
          end
      end
  end.
Definition parse_layout (L : list fld) : parser (list N) := parse_layout_aux L [].

(* value of the field called name in a decoded struct *)
Fixpoint get_field (L : list fld) (vs : list N) (name : string) : N :=
  match L, vs with
  | f :: L', v :: vs' => if String.eqb (f_name f) name then v else get_field L' vs' name
  | _, _ => 0
  end.

Fixpoint find_fld (L : list fld) (vs : list N) (name : string) : option (fld * N) :=
  match L, vs with
  | f :: L', v :: vs' => if String.eqb (f_name f) name then Some (f, v) else find_fld L' vs' name
  | _, _ => None
  end.

(* the hand-written serializers: each named field as big-endian bytes of its type's width *)
Definition export_fields (L : list fld) (order : list string) (vs : list N) : bytes :=
  flat_map (fun name => match find_fld L vs name with
                        | Some (f, v) => enc (f_width f) v
                        | None => []
                        end) order.

Definition wire_width (L : list fld) : nat :=
  fold_right (fun f acc => if on_wire f then f_width f + acc else acc)%nat O L.

(* ---- V5 / V7 ---- *)
Record fixed_packet := { fx_header : list N; fx_records : list (list N) }.

Definition parse_fixed (HL RL : list fld) (cnt : string) : parser fixed_packet :=
  fun i =>
    match parse_layout HL i with
    | Err e => Err e
    | Ok h r =>
        match count (N.to_nat (get_field HL h cnt)) (parse_layout RL) r with
        | Err e => Err e
        | Ok recs r' => Ok {| fx_header := h; fx_records := recs |} r'
        end
    end.

Definition export_fixed (HL RL : list fld) (HO RO : list string) (p : fixed_packet) : bytes :=
  export_fields HL HO (fx_header p) ++ flat_map (export_fields RL RO) (fx_records p).

Definition parse_v5 : parser fixed_packet := parse_fixed v5_header_layout v5_record_layout v5_count_field.
Definition parse_v7 : parser fixed_packet := parse_fixed v7_header_layout v7_record_layout v7_count_field.
Definition export_v5 : fixed_packet -> bytes :=
  export_fixed v5_header_layout v5_record_layout v5_header_export v5_record_export.
Definition export_v7 : fixed_packet -> bytes :=
  export_fixed v7_header_layout v7_record_layout v7_header_export v7_record_export.
