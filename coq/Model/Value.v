(* Model/Value.v — data_number.rs: DataNumber, FieldValue, from_field_type, to_be_bytes and the
   conversions the common view uses.  Definitions only. *)
From NF Require Export Layout.
Open Scope N_scope.

Inductive dnum :=
| U8 (n : N) | U16 (n : N) | U24 (n : N) | I24 (z : Z)
| U32 (n : N) | U64 (n : N) | U128 (n : N) | I32 (z : Z).

(* FieldValue.  VStr carries the UTF-8 bytes of the (lossily converted) String; VMac the six raw
   bytes (the Rust value is their "AA:BB:.." rendering, produced by mac_text).  The Rust variant
   FieldValue::Unknown is never built by the parser (the feature-on helper returns Vec). *)
Inductive fval :=
| VStr (b : bytes)
| VNum (d : dnum)
| VF64 (bits : N)
| VDur (secs nanos : N)
| VIp4 (n : N)
| VIp6 (n : N)
| VMac (b : bytes)
| VVec (b : bytes)
| VProto (d : N).

(* ---- String::from_utf8_lossy (core::str::lossy::Utf8Chunks, maximal-subpart replacement) ---- *)
Definition repl : bytes := [xef; xbf; xbd].
Definition is_cont (b : byte) : bool := (128 <=? bN b) && (bN b <=? 191).
Definition in_range (lo hi : N) (b : byte) : bool := (lo <=? bN b) && (bN b <=? hi).

(* second byte admissible after a 3-byte / 4-byte lead *)
Definition ok3 (b0 : N) (b1 : byte) : bool :=
  if b0 =? 224 then in_range 160 191 b1
  else if (225 <=? b0) && (b0 <=? 236) then in_range 128 191 b1
  else if b0 =? 237 then in_range 128 159 b1
  else if (238 <=? b0) && (b0 <=? 239) then in_range 128 191 b1
  else false.
Definition ok4 (b0 : N) (b1 : byte) : bool :=
  if b0 =? 240 then in_range 144 191 b1
  else if (241 <=? b0) && (b0 <=? 243) then in_range 128 191 b1
  else if b0 =? 244 then in_range 128 143 b1
  else false.

Fixpoint utf8_lossy (l : bytes) : bytes :=
  match l with
  | [] => []
  | b0 :: t0 =>
      let n0 := bN b0 in
      if n0 <? 128 then b0 :: utf8_lossy t0
      else if (194 <=? n0) && (n0 <=? 223) then
        match t0 with
        | b1 :: t1 => if is_cont b1 then b0 :: b1 :: utf8_lossy t1 else repl ++ utf8_lossy t0
        | [] => repl
        end
      else if (224 <=? n0) && (n0 <=? 239) then
        match t0 with
        | b1 :: t1 =>
            if ok3 n0 b1 then
              match t1 with
              | b2 :: t2 => if is_cont b2 then b0 :: b1 :: b2 :: utf8_lossy t2 else repl ++ utf8_lossy t1
              | [] => repl
              end
            else repl ++ utf8_lossy t0
        | [] => repl
        end
      else if (240 <=? n0) && (n0 <=? 244) then
        match t0 with
        | b1 :: t1 =>
            if ok4 n0 b1 then
              match t1 with
              | b2 :: t2 =>
                  if is_cont b2 then
                    match t2 with
                    | b3 :: t3 => if is_cont b3 then b0 :: b1 :: b2 :: b3 :: utf8_lossy t3 else repl ++ utf8_lossy t2
                    | [] => repl
                    end
                  else repl ++ utf8_lossy t1
              | [] => repl
              end
            else repl ++ utf8_lossy t0
        | [] => repl
        end
      else repl ++ utf8_lossy t0
  end.

(* mac_address::MacAddress Display: "{:<02X}:…" *)
Definition hexdig (n : N) : byte := byte_of (if n <? 10 then 48 + n else 55 + n).
Fixpoint mac_text (l : bytes) : bytes :=
  match l with
  | [] => []
  | [b] => [hexdig (bN b / 16); hexdig (bN b mod 16)]
  | b :: l' => hexdig (bN b / 16) :: hexdig (bN b mod 16) :: x3a :: mac_text l'
  end.

(* ---- DataNumber::parse ---- *)
Definition dnum_parse (len : N) (signed : bool) : parser dnum :=
  fun i =>
    match len, signed with
    | 1, false => pmap U8 (u_s 1) i
    | 1, true => pmap (fun n => I32 (to_signed 8 n)) (u_s 1) i
    | 2, false => pmap U16 (u_s 2) i
    | 2, true => pmap (fun n => I32 (to_signed 16 n)) (u_s 2) i
    | 3, false => pmap U24 (u_c 3) i
    | 3, true => pmap (fun n => I24 (to_signed 24 n)) (u_c 3) i
    | 4, true => pmap (fun n => I32 (to_signed 32 n)) (u_s 4) i
    | 4, false => pmap U32 (u_s 4) i
    | 8, false => pmap U64 (u_s 8) i
    | 8, true => pmap (fun n => I32 (to_signed 32 (n mod 2 ^ 32))) (u_s 8) i
    | 16, false => pmap U128 (u_s 16) i
    | 16, true => pmap (fun n => I32 (to_signed 32 (n mod 2 ^ 32))) (u_s 16) i
    | _, _ => Err EError
    end.

(* impl From<DataNumber> for usize (64-bit target): `as usize` *)
Definition dnum_to_usize (d : dnum) : N :=
  match d with
  | U8 n | U16 n | U24 n | U32 n | U64 n => n
  | U128 n => n mod 2 ^ 64
  | I24 z | I32 z => of_signed 64 z
  end.

Definition dur_of (dt : dtype) (n : N) : fval :=
  match dt with
  | DDurSecs => VDur n 0
  | DDurMillis => VDur (n / 1000) ((n mod 1000) * 1000000)
  | DDurMicros => VDur (n / 1000000) ((n mod 1000000) * 1000)
  | _ => VDur (n / 1000000000) (n mod 1000000000)
  end.

(* FieldValue::from_field_type; puf = feature parse_unknown_fields *)
Definition from_field_type (puf : bool) (dt : dtype) (len : N) : parser fval :=
  fun i =>
    match dt with
    | DUnsigned => pmap VNum (dnum_parse len false) i
    | DSigned => pmap VNum (dnum_parse len true) i
    | DString => pmap (fun b => VStr (utf8_lossy b)) (take_c len) i
    | DIp4 => pmap VIp4 (u_c 4) i
    | DIp6 => pmap VIp6 (u_c 16) i
    | DMac => pmap VMac (take_c 6) i
    | DDurSecs | DDurMillis | DDurMicros | DDurNanos =>
        pmap (fun d => dur_of dt (dnum_to_usize d)) (dnum_parse len false) i
    | DProto =>
        match u_s 1 i with
        | Err e => Err e
        | Ok b r => Ok (VProto (proto_decode b)) r
        end
    | DFloat64 => pmap VF64 (u_s 8) i
    | DVec => pmap VVec (take_c len) i
    | DUnknown => if puf then pmap VVec (take_c len) i else Err EError
    end.

(* bytes a successful from_field_type consumes (proved in Proofs/ValueFacts.v) *)
Definition consumed_of (dt : dtype) (len : N) : N :=
  match dt with
  | DIp4 => 4 | DIp6 => 16 | DMac => 6 | DProto => 1 | DFloat64 => 8
  | _ => len
  end.

(* ---- to_be_bytes ---- *)
Inductive xres := XOk (b : bytes) | XErr | XPanic.

Definition dnum_to_be (d : dnum) : xres :=
  match d with
  | U8 n => XOk (enc 1 n)
  | U16 n => XOk (enc 2 n)
  | U24 n => if n <? 2 ^ 24 then XOk (enc 3 n) else XPanic   (* byteorder write_u24 asserts the range *)
  | I24 z => XOk (enc 3 (of_signed 24 z))                     (* write_i24 masks the sign *)
  | U32 n => XOk (enc 4 n)
  | U64 n => XOk (enc 8 n)
  | U128 n => XOk (enc 16 n)
  | I32 z => XOk (enc 4 (of_signed 32 z))
  end.

Definition fval_to_be (v : fval) : xres :=
  match v with
  | VStr b => XOk b
  | VNum d => dnum_to_be d
  | VF64 bits => XOk (enc 8 bits)
  | VDur secs _ => if secs <? 2 ^ 32 then XOk (enc 4 secs) else XErr
  | VIp4 n => XOk (enc 4 n)
  | VIp6 n => XOk (enc 16 n)
  | VMac b => XOk (mac_text b)
  | VVec b => XOk b
  | VProto d => XOk (enc 1 (proto_to_u8 d))
  end.

(* ---- conversions used by netflow_common.rs ---- *)
(* netflow_common.rs `unsigned`: an unsigned number of any width, if it fits `bits` bits *)
Definition fval_un (bits : N) (v : fval) : option N :=
  match v with
  | VNum (U8 n) | VNum (U16 n) | VNum (U24 n) | VNum (U32 n) | VNum (U64 n) | VNum (U128 n) =>
      if n <? 2 ^ bits then Some n else None
  | _ => None
  end.
Definition fval_u8 (v : fval) : option N := match v with VNum (U8 n) => Some n | _ => None end.
Definition fval_u16 (v : fval) : option N := match v with VNum (U16 n) => Some n | _ => None end.
Definition fval_u32 (v : fval) : option N := match v with VNum (U32 n) => Some n | _ => None end.
Inductive ipaddr := Ip4 (n : N) | Ip6 (n : N).
Definition fval_ip (v : fval) : option ipaddr :=
  match v with VIp4 n => Some (Ip4 n) | VIp6 n => Some (Ip6 n) | _ => None end.
Definition fval_string (v : fval) : option bytes :=
  match v with VStr b => Some b | VMac b => Some (mac_text b) | _ => None end.
